# compact AES reference (FIPS-197) for probes
SBOX=[0]*256
def _init():
    p=q=1
    def rotl8(x,s): return ((x<<s)|(x>>(8-s)))&0xff
    while True:
        p=p^((p<<1)&0xff)^(0x1b if p&0x80 else 0)
        q^=q<<1; q^=q<<2; q^=q<<4; q&=0xff
        if q&0x80: q^=0x09
        x=q^rotl8(q,1)^rotl8(q,2)^rotl8(q,3)^rotl8(q,4)
        SBOX[p]=(x^0x63)&0xff
        if p==1: break
    SBOX[0]=0x63
_init()
INV=[0]*256
for i,v in enumerate(SBOX): INV[v]=i
def xt(a): return ((a<<1)^0x1b)&0xff if a&0x80 else a<<1
def mul(a,b):
    r=0
    while b:
        if b&1: r^=a
        a=xt(a); b>>=1
    return r
def expand(key):
    nk=len(key)//4; nr=nk+6; w=[list(key[4*i:4*i+4]) for i in range(nk)]; rc=1
    for i in range(nk,4*(nr+1)):
        t=list(w[i-1])
        if i%nk==0:
            t=t[1:]+t[:1]; t=[SBOX[b] for b in t]; t[0]^=rc; rc=xt(rc)
        elif nk>6 and i%nk==4: t=[SBOX[b] for b in t]
        w.append([a^b for a,b in zip(w[i-nk],t)])
    return [sum(w[4*r:4*r+4],[]) for r in range(nr+1)]
def enc_block(rk,blk):
    s=[a^b for a,b in zip(blk,rk[0])]
    for r in range(1,len(rk)):
        s=[SBOX[b] for b in s]
        s=[s[(i+4*(i%4))%16] for i in range(16)]
        if r!=len(rk)-1:
            n=[]
            for c in range(4):
                a=s[4*c:4*c+4]; n+=[mul(a[0],2)^mul(a[1],3)^a[2]^a[3],a[0]^mul(a[1],2)^mul(a[2],3)^a[3],a[0]^a[1]^mul(a[2],2)^mul(a[3],3),mul(a[0],3)^a[1]^a[2]^mul(a[3],2)]
            s=n
        s=[a^b for a,b in zip(s,rk[r])]
    return bytes(s)
def cbc_enc(key,iv,pt):
    rk=expand(key); pad=16-len(pt)%16; pt=pt+bytes([pad])*pad; out=b''; prev=iv
    for i in range(0,len(pt),16):
        prev=enc_block(rk,bytes(a^b for a,b in zip(pt[i:i+16],prev))); out+=prev
    return out
assert enc_block(expand(bytes(range(16))),bytes.fromhex('00112233445566778899aabbccddeeff')).hex()=='69c4e0d86a7b0430d8cdb78070b4c55a'
assert enc_block(expand(bytes(range(24))),bytes.fromhex('00112233445566778899aabbccddeeff')).hex()=='dda97ca4864cdfe06eaf70a0ec0d7191'
assert enc_block(expand(bytes(range(32))),bytes.fromhex('00112233445566778899aabbccddeeff')).hex()=='8ea2b7ca516745bfeafc49904b496089'
