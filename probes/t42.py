from pr import *
for f in ('vf_phpe_new','vf_rabin_new','vf_bdpe_new'): getattr(S,f).restype=ctypes.c_void_p
rng=random.Random(17); res=collections.Counter(); ex={}
def rec(k,info): res[k]+=1; ex.setdefault(k,info)
# ---------- Paillier
pub=newbn(); prv=S.vf_phpe_new(); rc,e=icall("cp_phpe_gen",pub,prv,512); n=getbn(pub); print("phpe gen",rc,e,"n bits",n.bit_length(),flush=True)
c1,c2,c3,m1,m2,mo=[newbn() for _ in range(6)]
vals=[0,1,2,n-1,n-2,n//2,n//2+1,rng.randrange(n),rng.randrange(n),rng.getrandbits(64)]
for a in vals:
    setbn(m1,a); rc,e=icall("cp_phpe_enc",c1,m1,pub)
    if rc or e: rec(('phpe_enc','rc%d'%rc,'m=0' if a==0 else ('m=n-1' if a==n-1 else '')),a); continue
    c=getbn(c1)
    if not (0<c<n*n): rec(('phpe_enc','ciphertext_range'),0)
    rc,e=icall("cp_phpe_dec",mo,c1,prv)
    if rc or e or getbn(mo)!=a: rec(('phpe_dec','roundtrip','m=0' if a==0 else ('m=n-1' if a==n-1 else '')),(a,getbn(mo)))
    else: res['ok']+=1
    for b in vals[:8]:
        setbn(m2,b); icall("cp_phpe_enc",c2,m2,pub); rc,e=icall("cp_phpe_add",c3,c1,c2,pub); rc2,e2=icall("cp_phpe_dec",mo,c3,prv)
        if rc or e or rc2 or e2 or getbn(mo)!=(a+b)%n: rec(('phpe_add','homomorphism','wrap' if a+b>=n else 'nowrap'),(a,b))
        else: res['ok']+=1
for a in (n,n+1,-1):
    setbn(m1,a); rc,e=icall("cp_phpe_enc",c1,m1,pub); rec(('phpe_enc','m out of range %s'%('>=n' if a>=n else '<0'),'rejected' if (rc or e) else 'ACCEPTED'),0)
# ---------- Rabin
rp=S.vf_rabin_new(); rs=S.vf_rabin_new(); rc,e=icall("cp_rabin_gen",rp,rs,1024); print("rabin gen",rc,e,flush=True)
out=mem(300,0xAA); ol=mem(8); dec=mem(300,0xAA); dl=mem(8)
for ln in list(range(0,6))+[50,100,110,111,112,113,114,115,116,117,118,119,120,121,122,123,124,125,126,127,128]:
    for kind in ('rand','zeros','ff'):
        pt={'rand':bytes(rng.getrandbits(8) for _ in range(ln)),'zeros':bytes(ln),'ff':b'\xff'*ln}[kind]
        ctypes.c_size_t.from_address(ol).value=300; rc,e=icall("cp_rabin_enc",out,ol,put(pt) if ln else put(b'\0'),ln,rp)
        if rc or e: rec(('rabin_enc','rejected','len%d'%ln),0); continue
        cl=ctypes.c_size_t.from_address(ol).value; ctypes.c_size_t.from_address(dl).value=300
        rc,e=icall("cp_rabin_dec",dec,dl,out,cl,rs)
        if rc or e or get(dec,ctypes.c_size_t.from_address(dl).value)!=pt: rec(('rabin_dec','roundtrip',kind,'rc%d'%rc,'len%d'%ln),0)
        else: res['ok']+=1
# ---------- Benaloh
bp=S.vf_bdpe_new(); bs=S.vf_bdpe_new(); block=47; rc,e=icall("cp_bdpe_gen",bp,bs,block,512); print("bdpe gen",rc,e,flush=True)
do=mem(8)
for mval in list(range(0,block))+[block,block+1,1000]:
    ctypes.c_size_t.from_address(ol).value=300; rc,e=icall("cp_bdpe_enc",out,ol,mval,bp)
    if mval>=block: rec(('bdpe_enc','m>=block','rejected' if (rc or e) else 'ACCEPTED'),mval); continue
    if rc or e: rec(('bdpe_enc','rc%d'%rc),mval); continue
    cl=ctypes.c_size_t.from_address(ol).value; rc,e=icall("cp_bdpe_dec",do,out,cl,bs); got=ctypes.c_uint64.from_address(do).value
    if rc or e or got!=mval: rec(('bdpe_dec','roundtrip'),(mval,got))
    else: res['ok']+=1
# ---------- ECDH with leading-zero x
call("ep_param_set",12); F=Fp(); EP=3*32+8
dA=newbn(); QA=mem(EP); dB=newbn(); QB=mem(EP); kA=mem(40); kB=mem(40); P=mem(EP)
found=0
for it in range(1500):
    icall("cp_ecdh_gen",dA,QA); icall("cp_ecdh_gen",dB,QB)
    r1,e1=icall("cp_ecdh_key",kA,32,dA,QB); r2,e2=icall("cp_ecdh_key",kB,32,dB,QA)
    if r1 or r2 or get(kA,32)!=get(kB,32): rec(('ecdh','parties_disagree'),0); continue
    call("ep_mul_basic",P,QB,dA); x=F.rd(P)
    std=hashlib.sha256(x.to_bytes(32,'big')+(1).to_bytes(4,'big')).digest()
    if get(kA,32)!=std:
        cls='x has leading zero byte' if x<1<<248 else 'other'; rec(('ecdh','key != KDF2(fixed-length x)',cls),hex(x)[:12]); found+=1
    else: res['ok']+=1
print("ok",res.pop('ok',0))
for k_,v in sorted(res.items(),key=str): print(v,k_,str(ex.get(k_))[:80])
