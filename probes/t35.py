from pr import *
rng=random.Random(10); res=collections.Counter(); ex={}
def rec(k,info): res[k]+=1; ex.setdefault(k,info)
CAP=BNCAP; W=64
def big(nd,top=None):
    v=rng.getrandbits(64*nd)|(1<<(64*nd-1)) if nd else 0
    return v
A,B,C,D=[newbn() for _ in range(4)]
def setraw(p,v):
    nd=max(1,(abs(v).bit_length()+63)//64); assert nd<=CAP
    ctypes.c_size_t.from_address(p+8).value=nd; ctypes.c_int.from_address(p+16).value=1 if v<0 else 0
    ctypes.memmove(p+24,abs(v).to_bytes(8*nd,'little')+b'\xAA'*(8*(CAP-nd)),8*CAP)
def fits(v): return abs(v).bit_length()<=64*CAP
def check(name,e,out,exp,cls):
    if fits(exp):
        if e: rec((name,cls,'fits_but_err'),0)       # conservative rejection: note only
        elif getbn(out)!=exp: rec((name,cls,'WRONG'),0)
        else: res['ok']+=1
    else:
        if e: res['ok_overflow_reported']+=1
        else: rec((name,cls,'OVERFLOW_NOT_REPORTED',getbn(out)==exp),0)
for nd in (CAP-2,CAP-1,CAP):
    for it in range(30):
        x=big(nd); y=big(rng.choice([1,2,nd//2,nd])); x|=rng.choice([0,(1<<(64*nd))-1]); 
        for sh in (0,1,63,64,65,127,128,64*CAP,64*CAP+1):
            setraw(A,x); r,e=call("bn_lsh",C,A,sh); check('bn_lsh',e,C,x<<sh,'nd%d'%(nd-CAP))
        setraw(A,x); setraw(B,x); r,e=call("bn_add",C,A,B); check('bn_add',e,C,2*x,'nd%d'%(nd-CAP))
        setraw(A,x); r,e=call("bn_dbl",C,A); check('bn_dbl',e,C,2*x,'nd%d'%(nd-CAP))
        setraw(A,x); r,e=call("bn_add_dig",C,A,M64); check('bn_add_dig',e,C,x+M64,'nd%d'%(nd-CAP))
        setraw(A,x); r,e=call("bn_mul_dig",C,A,M64); check('bn_mul_dig',e,C,x*M64,'nd%d'%(nd-CAP))
        for fn in ('bn_mul_basic','bn_mul_comba','bn_mul_karat'):
            for yy in (y,big(1),big(CAP-nd+1) if CAP-nd+1>0 else 1):
                setraw(A,x); setraw(B,yy); r,e=call(fn,C,A,B); check(fn,e,C,x*yy,'nd%d+%d'%(nd-CAP,(yy.bit_length()+63)//64))
        for fn in ('bn_sqr_basic','bn_sqr_comba','bn_sqr_karat'):
            xs=big(nd//2+rng.choice([0,1])); setraw(A,xs); r,e=call(fn,C,A); check(fn,e,C,xs*xs,'half%+d'%((xs.bit_length()+63)//64*2-CAP))
        setraw(A,x); setraw(B,y|1); r,e=call("bn_div_rem",C,D,A,B)
        if e: rec(('bn_div_rem','nd%d'%(nd-CAP),'err'),0)
        elif (getbn(C),getbn(D))!=divmod(x,y|1): rec(('bn_div_rem','nd%d'%(nd-CAP),'WRONG'),0)
        else: res['ok']+=1
for b in (64*CAP-2,64*CAP-1,64*CAP,64*CAP+1,64*CAP+64):
    setraw(A,5); r,e=call("bn_set_2b",A,b); check('bn_set_2b',e,A,1<<b,'b%+d'%(b-64*CAP))
    setraw(A,5); r,e=call("bn_set_bit",A,b,1); check('bn_set_bit',e,A,5|(1<<b),'b%+d'%(b-64*CAP))
for n in (8*CAP-1,8*CAP,8*CAP+1,8*CAP+8,8*CAP+100):
    bs=bytes([0xff])*n; r,e=call("bn_read_bin",A,put(bs),n); check('bn_read_bin',e,A,int.from_bytes(bs,'big'),'len%+d'%(n-8*CAP))
    st=b'f'*(2*n); r,e=call("bn_read_str",A,put(st+b'\0'),2*n,16); check('bn_read_str',e,A,int(st,16),'len%+d'%(n-8*CAP))
for n in (CAP-1,CAP,CAP+1,CAP+5):
    raw=mem(8*n,0xff); r,e=call("bn_read_raw",A,raw,n); check('bn_read_raw',e,A,(1<<(64*n))-1,'n%+d'%(n-CAP))
# write with short buffers
x=big(3); setraw(A,x); need=(x.bit_length()+7)//8
for n in (0,1,need-1,need,need+1,need+20):
    buf=mem(n,0xAA) if n else mem(1); r,e=call("bn_write_bin",buf,n,A)
    if n<need: rec(('bn_write_bin','short','err' if e else 'NO_ERR'),0) if not e else res.__setitem__('ok',res['ok']+1)
    elif e or int.from_bytes(get(buf,n),'big')!=x: rec(('bn_write_bin','len%+d'%(n-need),'WRONG'),0)
    else: res['ok']+=1
for radix in (2,10,16,64):
    import string
    r,e=call("bn_size_str",A,radix); need=r
    for n in (0,1,need-1,need,need+3):
        buf=mem(max(n,1),0xAA); r,e=call("bn_write_str",buf,n,A,radix)
        if n<need:
            if not e: rec(('bn_write_str','radix%d'%radix,'short_no_err'),(n,need))
            else: res['ok']+=1
        elif e: rec(('bn_write_str','radix%d'%radix,'err'),0)
        else: res['ok']+=1
print("ok",res.pop('ok',0),"overflow reported",res.pop('ok_overflow_reported',0))
for k_,v in sorted(res.items(),key=str): print(v,k_)
