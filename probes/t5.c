#include <stdio.h>
#include <string.h>
#include "relic.h"
static void inner_ok(void){ RLC_TRY { } RLC_CATCH_ANY { } }
int main(void){
  core_init();
  ep_param_set_any();
  /* 1 */
  int handler=0, fin=0;
  RLC_TRY { RLC_THROW(ERR_NO_VALID); } RLC_CATCH_ANY { handler++; } RLC_FINALLY { fin++; inner_ok(); }
  printf("1: handler=%d finally=%d\n", handler, fin);
  err_get_code();
  /* 2 */
  uint8_t key[16]={0}, iv[16]={0}, ct[64], pt[64]; size_t cl=64, pl=64;
  int r1=bc_aes_cbc_enc(ct,&cl,(uint8_t*)"",0,key,16,iv); 
  int r2=bc_aes_cbc_dec(pt,&pl,ct,cl,key,16,iv);
  printf("2: aes enc empty rc=%d cl=%zu dec rc=%d pl=%zu\n", r1, cl, r2, pl);
  /* 3 */
  bn_t r,s,d,n,e,k; ec_t q,p; bn_new(r);bn_new(s);bn_new(d);bn_new(n);bn_new(e);bn_new(k);ec_new(q);ec_new(p);
  uint8_t msg[5]="hello"; uint8_t h[RLC_MD_LEN];
  ec_curve_get_ord(n);
  md_map(h,msg,5); bn_read_bin(e,h,RLC_MD_LEN); if (8*RLC_MD_LEN>bn_bits(n)) bn_rsh(e,e,8*RLC_MD_LEN-bn_bits(n));
  bn_set_dig(s,1); /* s=1 => u1=e, P=eG, r=x(P) mod n */
  bn_mod(e,e,n); ec_mul_gen(p,e); ec_get_x(r,p); bn_mod(r,r,n);
  ec_set_infty(q);
  printf("3: ecdsa_ver with Q=inf: %d\n", cp_ecdsa_ver(r,s,msg,5,0,q));
  /* 4 */
  dig_t dd; bn_set_dig(d,10); bn_neg(d,d); bn_div_rem_dig(k,&dd,d,5); printf("4: -10 divrem 5 => q="); bn_print(k); printf("   rem=%lu\n",(unsigned long)dd);
  bn_set_dig(d,7); bn_neg(d,d); bn_div_rem_dig(k,&dd,d,2); printf("4: -7 divrem 2 => q="); bn_print(k); printf("   rem=%lu\n",(unsigned long)dd);
  bn_div_dig(k,d,2); printf("4: -7 div_dig 2 => q="); bn_print(k);
  bn_mod_dig(&dd,d,2); printf("4: -7 mod_dig 2 => %lu\n",(unsigned long)dd);
  /* 5 */
  bn_zero(d); bn_set_dig(e,5); bn_neg(e,e); bn_div_rem(k,s,d,e); printf("5: 0 divrem -5 => q="); bn_print(k); printf("   r="); bn_print(s);
  /* 7 */
  bn_set_2b(d,250); bn_sub_dig(d,d,1); bn_sqr(d,d); bn_rsh(d,d,440); bn_mod_2b(d,d,3); printf("7: used=%zu ", d->used); bn_set_bit(d,200,1); bn_print(d);
  bn_set_dig(e,1); bn_lsh(e,e,200); bn_rsh(s,e,0); 
  core_clean();
}
