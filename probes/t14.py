import ctypes, random, sys, collections
exec(open('/var/tmp/sx/t/t13.py').read().split("# choose pairing curve")[0])
FBY=32; EP=3*FBY+8
BASIC,PROJC,JACOB=1,2,3
res=collections.Counter(); ex={}
rng=random.Random(11)
for setter in ('ep_param_set_any_plain','ep_param_set_any_endom','ep_param_set_any_pairf'):
    getattr(L,setter)()
    L.fp_prime_get.restype=ctypes.c_void_p
    p=int.from_bytes(ctypes.string_at(L.fp_prime_get(),FBY),'little'); R=1<<256; Rinv=pow(R,-1,p)
    def rd_fp(addr): return int.from_bytes(ctypes.string_at(addr,FBY),'little')*Rinv%p
    def wr_fp(addr,x): ctypes.memmove(addr,((x%p)*R%p).to_bytes(FBY,'little'),FBY)
    L.ep_curve_get_a.restype=ctypes.c_void_p; L.ep_curve_get_b.restype=ctypes.c_void_p
    a=rd_fp(L.ep_curve_get_a()); b=rd_fp(L.ep_curve_get_b())
    def add(P,Q):
        if P is None: return Q
        if Q is None: return P
        if P[0]==Q[0]:
            if (P[1]+Q[1])%p==0: return None
            l=(3*P[0]*P[0]+a)*pow(2*P[1],-1,p)%p
        else: l=(Q[1]-P[1])*pow(Q[0]-P[0],-1,p)%p
        x=(l*l-P[0]-Q[0])%p; return (x,(l*(P[0]-x)-P[1])%p)
    def mul(k,P):
        Rr=None
        while k:
            if k&1: Rr=add(Rr,P)
            P=add(P,P); k>>=1
        return Rr
    def neg(P): return None if P is None else (P[0],(-P[1])%p)
    G=mem(EP); call("ep_curve_get_gen",G); g=(rd_fp(G),rd_fp(G+FBY))
    def wr_pt(addr,P,coord):
        if P is None:
            # infinity: z = 0
            wr_fp(addr,0); wr_fp(addr+FBY,0 if coord==BASIC else 1); wr_fp(addr+2*FBY,0); ctypes.c_int.from_address(addr+3*FBY).value=coord; return
        if coord==BASIC: X,Y,Z=P[0],P[1],1
        elif coord==PROJC: Z=rng.randrange(1,p); X,Y=P[0]*Z%p,P[1]*Z%p
        else: Z=rng.randrange(1,p); X,Y=P[0]*Z*Z%p,P[1]*Z*Z*Z%p
        wr_fp(addr,X); wr_fp(addr+FBY,Y); wr_fp(addr+2*FBY,Z); ctypes.c_int.from_address(addr+3*FBY).value=coord
    def rd_pt(addr):
        if L.ep_is_infty(ctypes.c_void_p(addr)): return None
        X,Y,Z=rd_fp(addr),rd_fp(addr+FBY),rd_fp(addr+2*FBY); c=ctypes.c_int.from_address(addr+3*FBY).value
        zi=pow(Z,-1,p)
        if c==BASIC: return (X,Y) if Z==1 else ('badZ',Z)
        if c==PROJC: return (X*zi%p,Y*zi%p)
        if c==JACOB: return (X*zi*zi%p,Y*zi*zi*zi%p)
        return ('badcoord',c)
    A=mem(EP); Bp=mem(EP); C=mem(EP)
    pts=[None,g,mul(2,g),mul(3,g),mul(rng.randrange(1<<200),g),mul(rng.randrange(1<<255),g)]
    for fn,native in (('ep_add_basic',BASIC),('ep_add_projc',PROJC),('ep_add_jacob',JACOB)):
        for P in pts:
            for Q in pts+[neg(P),P,add(P,P),neg(add(P,P))]:
                for ca in {BASIC,native}:
                    for cb in {BASIC,native}:
                        for alias in (0,1,2):
                            wr_pt(A,P,ca); wr_pt(Bp,Q,cb); out=[C,A,Bp][alias]
                            r,e=call(fn,out,A,Bp)
                            cls=('Pinf' if P is None else '')+('Qinf' if Q is None else '')+('eq' if P==Q and P is not None else '')+('opp' if P is not None and Q==neg(P) and P!=Q else '')
                            key=(setter[-5:],fn,ca,cb,cls or 'gen','alias%d'%alias)
                            if e: res[key+('err',)]+=1; ex.setdefault(key+('err',),(P,Q)); continue
                            got=rd_pt(out)
                            if got!=add(P,Q): res[key+('WRONG',)]+=1; ex.setdefault(key+('WRONG',),(P,Q,got))
                            else: res[key+('ok',)]+=1
    for fn,native in (('ep_dbl_basic',BASIC),('ep_dbl_projc',PROJC),('ep_dbl_jacob',JACOB)):
        for P in pts:
            for ca in {BASIC,native}:
                for alias in (0,1):
                    wr_pt(A,P,ca); out=[C,A][alias]; r,e=call(fn,out,A); key=(setter[-5:],fn,ca,0,'Pinf' if P is None else 'gen')
                    if e: res[key+('err',)]+=1; continue
                    got=rd_pt(out)
                    if got!=add(P,P): res[key+('WRONG',)]+=1; ex.setdefault(key+('WRONG',),(P,got))
                    else: res[key+('ok',)]+=1
bad=[(k,v) for k,v in res.items() if k[-1]!='ok']
print("ok",sum(v for k,v in res.items() if k[-1]=='ok'),"bad keys",len(bad))
for k,v in sorted(bad): print(v,k,str(ex.get(k))[:100])
