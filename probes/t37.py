import ctypes, subprocess, bisect, random, hashlib, sys, collections, os
T = ctypes.CDLL("/var/tmp/sx/t/libvtrace.so", mode=ctypes.RTLD_GLOBAL)
os.environ['PR_CFG']='btr'; os.environ['PR_SHIM']='libshim_tr.so'
from pr import *
T.vt_disarm_calls.restype=ctypes.c_size_t
base=None
for line in open('/proc/self/maps'):
    if 'btr/lib/librelic.so' in line: base=int(line.split('-')[0],16); break
syms=[]
for l in subprocess.check_output(['nm','-n','--defined-only','/var/tmp/sx/btr/lib/librelic.so'],text=True).splitlines():
    q=l.split()
    if len(q)==3 and q[1] in 'tT': syms.append((int(q[0],16),q[2]))
addrs=[a for a,_ in syms]
def sym(a):
    i=bisect.bisect_right(addrs,a-base)-1; return syms[i][1] if i>=0 else '?'
CB=(ctypes.c_size_t*8000000)(); PB=(ctypes.c_size_t*16)()
def trace(fname, bodies, voc, *args):
    T.vt_arm(1,0,CB,len(CB),PB,len(PB)); r=call(fname,*args); n=T.vt_disarm_calls(); seq=[]
    for i in range(0,n,2):
        callee=sym(CB[i]); caller=sym(CB[i+1])
        if caller in bodies and callee.startswith(voc): seq.append(callee)
    return seq,r
rng=random.Random(7)
def classes(bits,hi,K):
    out=[]
    for i in range(K):
        c=i%6
        if c==0: v=rng.getrandbits(bits-1)|(1<<(bits-1))
        elif c==1: v=1<<(bits-1)
        elif c==2: v=(1<<(bits-1))|1
        elif c==3: v=(1<<bits)-1
        elif c==4: v=(1<<(bits-1))|(rng.getrandbits(40)<<(bits//3))
        else: v=(1<<(bits-1))|int('10'*(bits//2),2)>>1
        if hi is not None: v%=hi; 
        out.append((c,v))
    return out
def report(label,seen,ex):
    print("%-34s distinct traces: %d  %s"%(label,len(seen),dict(list(seen.items())[:4])))
    if len(seen)>1:
        for h,(c,v) in list(ex.items())[:6]: print("      ",h,"class",c,hex(v)[:24])
def run(label,fname,bodies,voc,argf,scal):
    seen=collections.Counter(); ex={}
    for c,v in scal:
        seq,r=trace(fname,bodies,voc,*argf(v))
        h=hashlib.sha1(' '.join(seq).encode()).hexdigest()[:8]; seen[(h,len(seq))]+=1; ex.setdefault(h,(c,v))
    report(label,seen,ex)
VOCBN=('bn_mul','bn_sqr','bn_mod','dv_swap_sec','bn_get_bit','bn_copy','bn_mod_inv')
m=rng.getrandbits(1024)|(1<<1023)|1; a=rng.getrandbits(1000)
C=newbn()
run('bn_mxp_monty (1024-bit exp)','bn_mxp_monty',{'bn_mxp_monty'},VOCBN,lambda v:(C,bn(a),bn(v),bn(m)),classes(1024,None,24))
run('bn_mxp_slide (control)','bn_mxp_slide',{'bn_mxp_slide'},VOCBN,lambda v:(C,bn(a),bn(v),bn(m)),classes(1024,None,8))
call("ep_param_set_any_plain"); F=Fp()
x=F.new(rng.randrange(F.p)); o=F.new()
VOCFP=('fp_mul','fp_sqr','fp_copy_sec','dv_swap_sec','dv_copy_sec','fp_inv','fp_copy')
run('fp_exp_monty (256-bit exp)','fp_exp_monty',{'fp_exp_monty'},VOCFP,lambda v:(o,x,bn(v)),classes(256,None,24))
run('fp_exp_slide (control)','fp_exp_slide',{'fp_exp_slide'},VOCFP,lambda v:(o,x,bn(v)),classes(256,None,8))
# binary field exp + binary curve ladder
call("eb_param_set_any_plain")
fx=mem(40); ctypes.memmove(fx,rng.getrandbits(280).to_bytes(40,'little'),40); fo=mem(40)
VOCFB=('fb_mul','fb_sqr','dv_swap_sec','dv_copy_sec','fb_copy')
run('fb_exp_monty (283-bit exp)','fb_exp_monty',{'fb_exp_monty'},VOCFB,lambda v:(fo,fx,bn(v)),classes(283,None,24))
EB=3*40+8; G=mem(EB); call("eb_curve_get_gen",G); R=mem(EB); nb=newbn(); call("eb_curve_get_ord",nb); order=getbn(nb)
VOCEB=('eb_add','eb_dbl','eb_neg','eb_sub','eb_hlv','eb_frb','fb_mul','fb_sqr','fb_inv','dv_swap_sec','dv_copy_sec','eb_norm','fb_add')
run('eb_mul_lodah (B-283)','eb_mul_lodah',{'eb_mul_lodah'},VOCEB,lambda v:(R,G,bn(v)),classes(order.bit_length(),order,24))
# extension curve + gt
print("pairf",L.ep_param_set_any_pairf()); F=Fp()
nb=newbn(); call("ep_curve_get_ord",nb); r_=getbn(nb)
EP2=6*32+8; Q=mem(EP2); call("ep2_curve_get_gen",Q); R2=mem(EP2)
VOC2=('ep2_add','ep2_dbl','ep2_neg','ep2_sub','ep2_frb','ep2_norm','ep2_tab','ep2_blind','fp2_copy_sec','fp_copy_sec','dv_swap_sec','dv_copy_sec')
run('ep2_mul_monty (BN G2)','ep2_mul_monty',{'ep2_mul_monty'},VOC2,lambda v:(R2,Q,bn(v)),classes(r_.bit_length(),r_,18))
bod={s for _,s in syms if s.startswith('ep2_mul_') }
run('ep2_mul_lwreg (BN G2)','ep2_mul_lwreg',bod,VOC2,lambda v:(R2,Q,bn(v)),classes(r_.bit_length(),r_,18))
g12=mem(12*32); call("gt_get_gen",g12); o12=mem(12*32)
VOCGT=('fp12_mul','fp12_sqr','fp12_inv','fp12_frb','fp12_copy_sec','fp12_copy','fp12_exp','fp12_cmp','fp12_set_dig')
bod={s for _,s in syms if s.startswith('gt_exp')}
run('gt_exp_sec (BN GT)','gt_exp_sec',bod,VOCGT,lambda v:(o12,g12,bn(v)),classes(r_.bit_length(),r_,18))
run('gt_exp (control)','gt_exp',bod,VOCGT,lambda v:(o12,g12,bn(v)),classes(r_.bit_length(),r_,8))
print("---- diffs")
import difflib
def seqs(fname,bodies,voc,argf,scal):
    out={}
    for c,v in scal:
        seq,r=trace(fname,bodies,voc,*argf(v)); out.setdefault(tuple(seq),(c,v))
    return out
bod={s for _,s in syms if s.startswith('ep2_mul_') }
ss=seqs('ep2_mul_lwreg',bod,VOC2,lambda v:(R2,Q,bn(v)),classes(r_.bit_length(),r_,12))
ks=list(ss.keys())
for i,k_ in enumerate(ks): print("trace",i,"len",len(k_),"example class",ss[k_][0],hex(ss[k_][1])[:30], collections.Counter(k_).most_common(8))
if len(ks)>1:
    d=[x for x in difflib.unified_diff(ks[0],ks[1],lineterm='',n=2)][:40]; print('\n'.join(d))
bod={s for _,s in syms if s.startswith('gt_exp')}
ss=seqs('gt_exp_sec',bod,VOCGT,lambda v:(o12,g12,bn(v)),classes(r_.bit_length(),r_,18))
ks=list(ss.keys())
for i,k_ in enumerate(ks): print("gt trace",i,"len",len(k_),"class",ss[k_][0],hex(ss[k_][1])[:30], collections.Counter(k_).most_common(8))
if len(ks)>1:
    d=[x for x in difflib.unified_diff(ks[0],ks[1],lineterm='',n=2)][:40]; print('\n'.join(d))
