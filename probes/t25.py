from pr import *
rng=random.Random(2); res=collections.Counter(); ex={}
def rec(k,info): res[k]+=1; ex.setdefault(k,info)
EP=3*32+8
for setter in ('ep_param_set_any_plain','ep_param_set_any_endom','ep_param_set_any_pairf'):
    getattr(L,setter)(); F=Fp(); p=F.p
    L.ep_curve_get_a.restype=ctypes.c_void_p; L.ep_curve_get_b.restype=ctypes.c_void_p
    a=F.rd(L.ep_curve_get_a()); b=F.rd(L.ep_curve_get_b()); pairf=L.ep_curve_is_pairf()
    def rhs(x): return (x*x*x+a*x+b)%p
    def sqrt(v):
        if pow(v,(p-1)//2,p)!=1 and v!=0: return None
        if p%4==3: return pow(v,(p+1)//4,p)
        # tonelli
        q=p-1;s=0
        while q%2==0:q//=2;s+=1
        z=2
        while pow(z,(p-1)//2,p)==1:z+=1
        m=s;c=pow(z,q,p);t=pow(v,q,p);r=pow(v,(q+1)//2,p)
        while t!=1:
            i=0;tt=t
            while tt!=1:tt=tt*tt%p;i+=1
            bb=pow(c,1<<(m-i-1),p);m=i;c=bb*bb%p;t=t*c%p;r=r*bb%p
        return r
    P=mem(EP); out=mem(80)
    def model_decode(bs):
        n=len(bs)
        if n==1: return ('inf',) if bs[0]==0 else None
        if n==33:
            if bs[0] not in (2,3): return None
            x=int.from_bytes(bs[1:],'big')
            if x>=p: return None
            y=sqrt(rhs(x))
            if y is None: return None
            return ('pt',x,None,bs[0]&1)
        if n==65:
            if bs[0]!=4: return None
            x=int.from_bytes(bs[1:33],'big'); y=int.from_bytes(bs[33:],'big')
            if x>=p or y>=p: return None
            if (y*y-rhs(x))%p: return None
            return ('pt',x,y,None)
        return None
    def cases():
        G=mem(EP); call("ep_curve_get_gen",G); k=newbn()
        for i in range(300):
            setbn(k,rng.randrange(1,1<<255)); call("ep_mul_basic",P,G,k)
            for pack in (0,1):
                n=65 if not pack else 33; call("ep_write_bin",out,n,P,pack); v=bytearray(get(out,n))
                yield 'valid',bytes(v)
                for tag in rng.sample(range(256),6)+[0,1,2,3,4,5,6,7]:
                    w=bytearray(v); w[0]=tag; yield 'tag',bytes(w)
                w=bytearray(v); w[rng.randrange(1,n)]^=1<<rng.randrange(8); yield 'bitflip',bytes(w)
                for dl in (-1,1,2,-32): 
                    yield 'len',bytes(v[:n+dl]) if dl<0 else bytes(v)+bytes(dl)
                for xv in (p,p+1,p-1,(1<<256)-1,0,1,2):
                    if xv<1<<256:
                        w=bytearray(v); w[1:33]=xv.to_bytes(32,'big'); yield 'xboundary',bytes(w)
                if not pack:
                    for yv in (p,p+1,(1<<256)-1,0):
                        w=bytearray(v); w[33:]=yv.to_bytes(32,'big'); yield 'yboundary',bytes(w)
                    # y + p (non-canonical) if fits
                    y=int.from_bytes(v[33:],'big')
                    if y+p<1<<256: w=bytearray(v); w[33:]=(y+p).to_bytes(32,'big'); yield 'y+p',bytes(w)
        for n in (0,1,2,32,33,34,64,65,66,100):
            for _ in range(20): yield 'random',bytes(rng.getrandbits(8) for _ in range(n))
        yield 'inf',b'\0'; yield 'inf1',b'\1'
    for cls,bs in cases():
        ctypes.memset(P,0xAA,EP); r,e=call("ep_read_bin",P,put(bs),len(bs)); m=model_decode(bs)
        key=(setter[-5:],cls,len(bs))
        if (m is None)!=bool(e): rec(key+('ACCEPT_MISMATCH','lib_err=%d'%e,'model=%s'%('reject' if m is None else 'accept')),bs.hex()); continue
        if m is None: res['ok_reject']+=1; continue
        # validity of decoded object + re-encode
        if m[0]=='inf':
            if not L.ep_is_infty(ctypes.c_void_p(P)): rec(key+('inf_not_inf',),bs.hex())
            else: res['ok']+=1
            continue
        x=F.rd(P); y=F.rd(P+32); z=F.rd(P+64)
        if z!=1 or x!=m[1] or (y*y-rhs(x))%p: rec(key+('decoded_invalid',),bs.hex()); continue
        if m[2] is not None and y!=m[2]: rec(key+('decoded_y',),bs.hex()); continue
        n=len(bs); pack=1 if n==33 else 0
        ctypes.memset(out,0xAA,80); r,e=call("ep_write_bin",out,n,P,pack)
        if e or get(out,n)!=bs: rec(key+('reencode_differs',),(bs.hex(),get(out,n).hex())); continue
        res['ok']+=1
print("ok",res.pop('ok'),"ok_reject",res.pop('ok_reject'))
for k,v in sorted(res.items(),key=str): print(v,k,str(ex.get(k))[:140])
