import os
os.environ.setdefault('PR_CFG','bsor'); os.environ.setdefault('PR_SHIM','libshimr.so')
src=open('/var/tmp/sx/t/t13.py').read().split("# check fp12_mul variants")[0]
src=src.replace('L = ctypes.CDLL("/var/tmp/sx/bso/lib/librelic.so", mode=ctypes.RTLD_GLOBAL)','L = ctypes.CDLL("/var/tmp/sx/bsor/lib/librelic.so", mode=ctypes.RTLD_GLOBAL)').replace('"/var/tmp/sx/t/libshim.so"','"/var/tmp/sx/t/libshimr.so"')
exec(src)
import collections
res=collections.Counter(); ex={}
def rec(k,info): res[k]+=1; ex.setdefault(k,info)
def f12eq1(x): return x==ONE
n=newbn(); call("ep_curve_get_ord",n); r=getbn(n)
rng=random.Random(12)
g12=mem(12*FB); call("gt_get_gen",g12); g=rd12(g12); print("gt gen: order r:",f12pow(g,r)==ONE,"nontrivial:",g!=ONE)
a12=mem(12*FB); o12=mem(12*FB); k=newbn()
def rnd12(): return tuple(tuple((rng.randrange(p),rng.randrange(p)) for j in range(3)) for i in range(2))
# f12 inverse via conjugate trick not needed; cyclotomic element: x^((p^6-1)(p^2+1)) via pow
t0=time.time(); cyc=f12pow(rnd12(),(p**6-1)*(p*p+1)); print("model easy-part exponentiation %.2fs"%(time.time()-t0))
MINUS1=(((p-1,0),(0,0),(0,0)),((0,0),(0,0),(0,0)))
cands=[('gen',g),('gen^k',f12pow(g,rng.randrange(r))),('one',ONE),('minus_one',MINUS1),('random',rnd12()),('random2',rnd12()),('cyclotomic_not_r',cyc),('cyc^((Phi12/r))',None),('zero',(((0,0),)*3,((0,0),)*3))]
phi=p**4-p*p+1; assert phi%r==0
cands[7]=('cyc^(Phi12/r)',f12pow(cyc,phi//r))
for name,x in cands:
    wr12(a12,x); rc,e=call("gt_is_valid",a12); rc&=0xffffffff
    truth=(x!=ONE and any(c!=(0,0) for h in x for c in h) and f12pow(x,r)==ONE)
    print("gt_is_valid",name,"lib",rc,"err",e,"model",int(truth), "" if bool(rc)==truth else "  <-- MISMATCH")
for name,x in (('gen',g),('member',cands[7][1])):
    for v in (0,1,2,-1,-5,r-1,r,r+1,2*r+3,rng.randrange(r),rng.getrandbits(300),1<<255):
        for fn in ('gt_exp','gt_exp_sec'):
            wr12(a12,x); setbn(k,v); rr,e=call(fn,o12,a12,k)
            cls='in' if 0<=v<r else ('neg' if v<0 else 'big')
            if e: rec((fn,cls,'err'),v); continue
            exp=f12pow(x,v%r)   # x has order r
            if rd12(o12)!=exp: rec((fn,cls,'WRONG'),hex(v)[:24])
            else: res['ok']+=1
        if 0<=v<2**64:
            wr12(a12,x); rr,e=call('gt_exp_dig',o12,a12,v)
            if e or rd12(o12)!=f12pow(x,v): rec(('gt_exp_dig','WRONG'),v)
            else: res['ok']+=1
print("ok",res.pop('ok',0))
for k_,v in sorted(res.items(),key=str): print(v,k_,str(ex.get(k_))[:60])
