import ctypes, random, sys, time
L = ctypes.CDLL("/var/tmp/sx/bso/lib/librelic.so", mode=ctypes.RTLD_GLOBAL)
S = ctypes.CDLL("/var/tmp/sx/t/libshim.so")
libc = ctypes.CDLL(None); libc.malloc.restype=ctypes.c_void_p; libc.malloc.argtypes=[ctypes.c_size_t]
S.vf_try.restype=ctypes.c_size_t; S.vf_sizeof_bn.restype=ctypes.c_size_t
def call(name,*args):
    arr=(ctypes.c_size_t*8)(*[a & (2**64-1) for a in args]); err=ctypes.c_int(0)
    fn=ctypes.cast(getattr(L,name),ctypes.c_void_p).value
    r=S.vf_try(ctypes.c_void_p(fn),len(args),arr,ctypes.byref(err)); return r,err.value
assert L.core_init()==0
ND=4; FB=32; R=1<<256
def mem(n): return libc.malloc(n)
szbn=S.vf_sizeof_bn()
def newbn():
    p=mem(szbn); call("bn_make",p,34); return p
def setbn(p,v):
    b=abs(v).to_bytes(max(1,(abs(v).bit_length()+7)//8),'big'); buf=mem(len(b)); ctypes.memmove(buf,b,len(b)); call("bn_read_bin",p,buf,len(b))
    if v<0: call("bn_neg",p,p)
def getbn(p):
    out=mem(300); call("bn_write_bin",out,300,p); v=int.from_bytes(ctypes.string_at(out,300),'big'); return -v if ctypes.c_int.from_address(p+16).value else v
# choose pairing curve
pid = sys.argv[1] if len(sys.argv)>1 else 'any'
print("pc_param_set_any", L.pc_param_set_any() if hasattr(L,'pc_param_set_any') else L.ep_param_set_any_pairf())
L.fp_prime_get.restype=ctypes.c_void_p
p=int.from_bytes(ctypes.string_at(L.fp_prime_get(),FB),'little')
Rinv=pow(R,-1,p)
def rd_fp(addr): return int.from_bytes(ctypes.string_at(addr,FB),'little')*Rinv%p
def wr_fp(addr,x): ctypes.memmove(addr,((x%p)*R%p).to_bytes(FB,'little'),FB)
def rd_vec(addr,n): return [rd_fp(addr+FB*i) for i in range(n)]
def wr_vec(addr,v):
    for i,x in enumerate(v): wr_fp(addr+FB*i,x)
# measure tower: beta=u^2, xi=v^3, w^2=v
a2=mem(2*FB); b2=mem(2*FB); wr_vec(a2,[0,1]); call("fp2_mul_basic",b2,a2,a2); beta=rd_vec(b2,2); print("u^2 =",beta[0]-p if beta[0]>p//2 else beta[0],beta[1], " qnr getter:", ctypes.c_int(L.fp_prime_get_qnr()).value)
a6=mem(6*FB); b6=mem(6*FB); c6=mem(6*FB); wr_vec(a6,[0,0,1,0,0,0]); call("fp6_mul_basic",b6,a6,a6); call("fp6_mul_basic",c6,b6,a6); xi=rd_vec(c6,6); print("v^3 =",xi, " fp2_field_get_qnr:", ctypes.c_int(L.fp2_field_get_qnr()).value)
a12=mem(12*FB); b12=mem(12*FB); wr_vec(a12,[0]*6+[1]+[0]*5); call("fp12_mul_basic",b12,a12,a12); print("w^2 =",rd_vec(b12,12))
B=beta[0]; XI=(xi[0],xi[1])
# model
def f2mul(a,b): return ((a[0]*b[0]+B*a[1]*b[1])%p,(a[0]*b[1]+a[1]*b[0])%p)
def f2add(a,b): return ((a[0]+b[0])%p,(a[1]+b[1])%p)
def f2sub(a,b): return ((a[0]-b[0])%p,(a[1]-b[1])%p)
def f6mul(a,b):
    t=[(0,0)]*5
    t=[(0,0) for _ in range(5)]
    for i in range(3):
        for j in range(3): t[i+j]=f2add(t[i+j],f2mul(a[i],b[j]))
    return (f2add(t[0],f2mul(XI,t[3])),f2add(t[1],f2mul(XI,t[4])),t[2])
def f6add(a,b): return tuple(f2add(x,y) for x,y in zip(a,b))
V=((0,0),(1,0),(0,0))
def f12mul(a,b):
    t0=f6mul(a[0],b[0]); t1=f6mul(a[1],b[1]); 
    c0=f6add(t0,f6mul(V,t1)); c1=f6add(f6mul(a[0],b[1]),f6mul(a[1],b[0])); return (c0,c1)
ONE=(((1,0),(0,0),(0,0)),((0,0),(0,0),(0,0)))
def f12pow(a,e):
    r=ONE
    while e:
        if e&1: r=f12mul(r,a)
        a=f12mul(a,a); e>>=1
    return r
def rd12(addr):
    v=rd_vec(addr,12); return tuple(tuple((v[i*6+j*2],v[i*6+j*2+1]) for j in range(3)) for i in range(2))
def wr12(addr,x): wr_vec(addr,[c for i in range(2) for j in range(3) for c in x[i][j]])
rng=random.Random(1)
# check fp12_mul variants against model
x=tuple(tuple((rng.randrange(p),rng.randrange(p)) for j in range(3)) for i in range(2)); y=tuple(tuple((rng.randrange(p),rng.randrange(p)) for j in range(3)) for i in range(2))
wr12(a12,x); c12=mem(12*FB); wr12(c12,y); o12=mem(12*FB)
for fn in ("fp12_mul_basic","fp12_mul_lazyr"):
    r=call(fn,o12,a12,c12); print(fn, r, rd12(o12)==f12mul(x,y))
t0=time.time(); f12pow(x,p); print("model fp12 pow by 256-bit: %.3fs"%(time.time()-t0))
# pairing bilinearity with model exponent
n=newbn(); call("ep_curve_get_ord",n); r=getbn(n); print("r bits",r.bit_length())
EP=3*FB+8; EP2=6*FB+8
P=mem(EP); Q=mem(EP2); aP=mem(EP); bQ=mem(EP2); e1=mem(12*FB); e2=mem(12*FB)
call("ep_curve_get_gen",P); call("ep2_curve_get_gen",Q)
ka=newbn(); kb=newbn()
for (a,b) in [(1,1),(2,3),(r-1,5),(0,7),(r,2),(rng.randrange(r),rng.randrange(r)),(-3,4)]:
    setbn(ka,a); setbn(kb,b)
    call("ep_mul_basic",aP,P,ka); call("ep2_mul_basic",bQ,Q,kb)
    r1=call("pp_map_oatep_k12",e1,P,Q); r2=call("pp_map_oatep_k12",e2,aP,bQ)
    E1=rd12(e1); E2=rd12(e2)
    print((a if abs(a)<100 else '..',b if abs(b)<100 else '..'), r1,r2,"bilinear:",f12pow(E1,(a*b)%r)==E2, "order-r:",f12pow(E1,r)==ONE, "nondeg:",E1!=ONE)
