from pr import *
rng=random.Random(8); res=collections.Counter(); ex={}
def rec(k,info): res[k]+=1; ex.setdefault(k,info)
EP=3*32+8
for pid in (12,13,14,15,23,24):
    call("ep_param_set",pid); F=Fp(); p=F.p
    L.ep_curve_get_a.restype=ctypes.c_void_p; L.ep_curve_get_b.restype=ctypes.c_void_p
    a=F.rd(L.ep_curve_get_a()); b=F.rd(L.ep_curve_get_b())
    G=mem(EP); call("ep_curve_get_gen",G); g=(F.rd(G),F.rd(G+32)); nb=newbn(); call("ep_curve_get_ord",nb); n=getbn(nb)
    def add(P,Q):
        if P is None: return Q
        if Q is None: return P
        if P[0]==Q[0]:
            if (P[1]+Q[1])%p==0: return None
            l=(3*P[0]*P[0]+a)*pow(2*P[1],-1,p)%p
        else: l=(Q[1]-P[1])*pow(Q[0]-P[0],-1,p)%p
        x=(l*l-P[0]-Q[0])%p; return (x,(l*(P[0]-x)-P[1])%p)
    def mul(k,P):
        R=None
        while k:
            if k&1:R=add(R,P)
            P=add(P,P);k>>=1
        return R
    def oncurve(Q): return Q is not None and (Q[1]**2-(Q[0]**3+a*Q[0]+b))%p==0
    def ecdsa_verify(r,s,msg,prehashed,Q):
        if not (1<=r<n and 1<=s<n): return False
        if Q is None or not oncurve(Q): return False
        h=msg if prehashed else hashlib.sha256(msg).digest()
        e=int.from_bytes(h,'big'); nb_=n.bit_length()
        if 8*len(h)>nb_: e=int.from_bytes(h[:(nb_+7)//8],'big')>>(8*((nb_+7)//8)-nb_)
        w=pow(s,-1,n); X=add(mul(e*w%n,g),mul(r*w%n,Q))
        return X is not None and X[0]%n==r
    def wrpt(addr,Q):
        if Q is None: call("ep_set_infty",addr); return
        F.wr(addr,Q[0]);F.wr(addr+32,Q[1]);F.wr(addr+64,1);ctypes.c_int.from_address(addr+96).value=1
    d=newbn(); Qp=mem(EP); r_=newbn(); s_=newbn()
    for it in range(25):
        rc,e=icall("cp_ecdsa_gen",d,Qp); Q=(F.rd(Qp),F.rd(Qp+32)); dv=getbn(d)
        if mul(dv,g)!=Q: rec((pid,'keygen_inconsistent'),0)
        msg=bytes(rng.getrandbits(8) for _ in range(rng.choice([0,1,20,32,33,64,100])))
        pre=rng.random()<0.4
        if pre: msg=bytes(rng.getrandbits(8) for _ in range(rng.choice([20,32,48,64])))
        rc,e=icall("cp_ecdsa_sig",r_,s_,put(msg),len(msg),1 if pre else 0,d)
        r0,s0=getbn(r_),getbn(s_)
        cases=[('honest',r0,s0,msg,Q),('n-s',r0,n-s0,msg,Q),('r+n',r0+n,s0,msg,Q),('s+n',r0,s0+n,msg,Q),('r=0',0,s0,msg,Q),('s=0',r0,0,msg,Q),('r=n',n,s0,msg,Q),('s=n',r0,n,msg,Q),
               ('-r',-r0,s0,msg,Q),('-s',r0,-s0,msg,Q),('Q=inf',r0,s0,msg,None),('Q=-Q',r0,s0,msg,(Q[0],(-Q[1])%p)),('Q offcurve',r0,s0,msg,(Q[0],(Q[1]+1)%p)),('Q foreign',r0,s0,msg,mul(rng.randrange(1,n),g)),
               ('msgflip',r0,s0,bytes([msg[0]^1])+msg[1:] if msg else b'\1',Q),('rflip',r0^(1<<rng.randrange(255)),s0,msg,Q),('sflip',r0,s0^(1<<rng.randrange(255)),msg,Q)]
        # forged with Q=inf
        h=msg if pre else hashlib.sha256(msg).digest(); nb_=n.bit_length(); e_=int.from_bytes(h,'big')
        if 8*len(h)>nb_: e_=int.from_bytes(h[:(nb_+7)//8],'big')>>(8*((nb_+7)//8)-nb_)
        X=mul(e_%n,g)
        if X: cases.append(('forge Q=inf s=1',X[0]%n,1,msg,None))
        for name,rv,sv,m,Qv in cases:
            setbn(r_,rv);setbn(s_,sv);wrpt(Qp,Qv)
            rc,e=icall("cp_ecdsa_ver",r_,s_,put(m),len(m),1 if pre else 0,Qp)
            exp=ecdsa_verify(rv,sv,m,pre,Qv)
            if e: rec((pid,name,'err'),0)
            elif bool(rc)!=exp: rec((pid,name,'lib=%d model=%d'%(rc,exp),'pre' if pre else 'hash'),(len(m),))
            else: res['ok']+=1
print("ok",res.pop('ok'))
for k_,v in sorted(res.items(),key=str): print(v,k_,str(ex.get(k_))[:100])
