from pr import *
rng=random.Random(6); res=collections.Counter(); ex={}
def rec(k,info): res[k]+=1; ex.setdefault(k,info)
def xmd(msg,dst,l,alg='sha256',bs=64):
    hl=hashlib.new(alg).digest_size; ell=(l+hl-1)//hl
    dp=dst+bytes([len(dst)]); b0=hashlib.new(alg,bytes(bs)+msg+l.to_bytes(2,'big')+b'\0'+dp).digest()
    b=[hashlib.new(alg,b0+b'\1'+dp).digest()]
    for i in range(2,ell+1): b.append(hashlib.new(alg,bytes(x^y for x,y in zip(b0,b[-1]))+bytes([i])+dp).digest())
    return b''.join(b)[:l]
EP=3*32+8
for setter in ('ep_param_set_any_plain','ep_param_set_any_endom','ep_param_set_any_pairf'):
    getattr(L,setter)(); F=Fp(); p=F.p
    L.ep_curve_get_a.restype=ctypes.c_void_p; L.ep_curve_get_b.restype=ctypes.c_void_p
    a=F.rd(L.ep_curve_get_a()); b=F.rd(L.ep_curve_get_b()); level=L.ep_param_level(); ctmap=L.ep_curve_is_ctmap()
    n=newbn(); call("ep_curve_get_ord",n); order=getbn(n); h_=newbn(); call("ep_curve_get_cof",h_); cof=getbn(h_)
    print(setter,"a,b nonzero:",a!=0,b!=0,"level",level,"ctmap",ctmap,"cof",cof)
    def is_sqr(v): return v==0 or pow(v,(p-1)//2,p)==1
    def sqrt(v):
        if p%4==3: return pow(v,(p+1)//4,p)
        q=p-1;s=0
        while q%2==0:q//=2;s+=1
        z=2
        while is_sqr(z):z+=1
        m=s;c=pow(z,q,p);t=pow(v,q,p);r=pow(v,(q+1)//2,p)
        while t!=1:
            i=0;tt=t
            while tt!=1:tt=tt*tt%p;i+=1
            bb=pow(c,1<<(m-i-1),p);m=i;c=bb*bb%p;t=t*c%p;r=r*bb%p
        return r
    def g(x): return (x*x*x+a*x+b)%p
    def add(P,Q):
        if P is None: return Q
        if Q is None: return P
        if P[0]==Q[0]:
            if (P[1]+Q[1])%p==0: return None
            l=(3*P[0]*P[0]+a)*pow(2*P[1],-1,p)%p
        else: l=(Q[1]-P[1])*pow(Q[0]-P[0],-1,p)%p
        x=(l*l-P[0]-Q[0])%p; return (x,(l*(P[0]-x)-P[1])%p)
    def mul(k,P):
        R=None
        while k:
            if k&1:R=add(R,P)
            P=add(P,P);k>>=1
        return R
    if a!=0 and b!=0:
        u=1
        while is_sqr(u) or not is_sqr(g(b*pow(u*a,-1,p)%p)): u+=1
        def mapf(t):
            t0=u*t*t%p; t1=t0*t0%p; t2=(t1+t0)%p
            if t2==0: x1=b*pow(u*a,-1,p)%p
            else: x1=(-b)*pow(a,-1,p)%p*(1+pow(t2,-1,p))%p
            if is_sqr(g(x1)): x,y2=x1,g(x1)
            else: x=t0*x1%p; y2=g(x)
            return (x,sqrt(y2))
        kind='sswu'
    else:
        u=0
        while True:
            u+=1; gu=g(u); c2=(-gu*(3*u*u+4*a))%p
            if c2!=0 and is_sqr(c2): break
        # RFC 9380 SvdW straight-line (constants c1=g(Z), c2=-Z/2, c3=sqrt(-g(Z)(3Z^2+4A)), c4=-4g(Z)/(3Z^2+4A))
        kind='svdw'; mapf=None
    print("   map kind",kind,"u",u)
    if mapf is None: continue
    elm=(256+level+7)//8
    P=mem(EP)
    for it in range(60):
        msg=bytes(rng.getrandbits(8) for _ in range(rng.choice([0,1,5,32,64,65,200])))
        r,e=call("ep_map_sswum",P,put(msg),len(msg))
        if e: rec((setter[-5:],'err'),msg.hex()); continue
        got=None if L.ep_is_infty(ctypes.c_void_p(P)) else (F.rd(P),F.rd(P+32))
        for dst in (b'RELIC\0',b'RELIC'):
            ub=xmd(msg,dst,2*elm); pts=[]
            for i in range(2):
                t=int.from_bytes(ub[i*elm:(i+1)*elm],'big')%p; x,y=mapf(t)
                if (y%2)!=(t%2): y=(-y)%p
                pts.append((x,y))
            exp=mul(cof,add(pts[0],pts[1]))
            if exp==got: res[('match','dst=%r'%dst)]+=1; break
        else: rec((setter[-5:],'MISMATCH'),msg.hex())
        if got is not None and ((got[1]**2-g(got[0]))%p or mul(order,got) is not None): rec((setter[-5:],'invalid_point'),0)
for k_,v in sorted(res.items(),key=str): print(v,k_,str(ex.get(k_))[:100])
