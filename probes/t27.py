import os
os.environ['PR_CFG']='b255r'; os.environ['PR_SHIM']='libshim255.so'; os.environ['PR_FPBITS']='255'
from pr import *
rng=random.Random(4); res=collections.Counter(); ex={}
def rec(k,info): res[k]+=1; ex.setdefault(k,info)
print("ed_param_set_any", L.ed_param_set_any()); F=Fp(); p=F.p; assert p==2**255-19
a=p-1; d=(-121665*pow(121666,-1,p))%p
r_=2**252+27742317777372353535851937790883648493
def add(P,Q):
    x1,y1=P;x2,y2=Q; t=d*x1*x2*y1*y2%p
    return ((x1*y2+x2*y1)*pow(1+t,-1,p)%p,(y1*y2-a*x1*x2)*pow(1-t,-1,p)%p)
def mul(k,P):
    if k<0: k=-k; P=((-P[0])%p,P[1])
    R=(0,1)
    while k:
        if k&1:R=add(R,P)
        P=add(P,P);k>>=1
    return R
ED=4*32+8
BASIC,PROJC,EXTND=1,2,3
G=mem(ED); call("ed_curve_get_gen",G); g=(F.rd(G),F.rd(G+32)); print("gen ok",g[1]==4*pow(5,-1,p)%p, (a*g[0]**2+g[1]**2-1-d*g[0]**2*g[1]**2)%p==0, mul(r_,g)==(0,1))
def wr(addr,P,coord):
    Z=1 if coord==BASIC else rng.randrange(1,p)
    X,Y=P[0]*Z%p,P[1]*Z%p; T=X*Y*pow(Z,-1,p)%p
    F.wr(addr,X);F.wr(addr+32,Y);F.wr(addr+64,Z);F.wr(addr+96,T); ctypes.c_int.from_address(addr+128).value=coord
def rd(addr):
    X,Y,Z,T=F.rd(addr),F.rd(addr+32),F.rd(addr+64),F.rd(addr+96); c=ctypes.c_int.from_address(addr+128).value
    if Z==0: return ('Z0',)
    zi=pow(Z,-1,p); return (X*zi%p,Y*zi%p)
# small order points
sqm1=pow(2,(p-1)//4,p); 
o2=(0,p-1); o4=(sqm1 if (a*sqm1*sqm1)%p==p-1 or True else 0,0)
# order 4: y=0, a x^2 = 1 -> x = sqrt(1/a) = sqrt(-1)
o4=(sqm1,0); assert (a*o4[0]**2+0-1)%p==0
pts=[(0,1),o2,o4,g,mul(2,g),mul(rng.randrange(r_),g),add(g,o4),add(mul(5,g),o2)]
# order 8 point: find by solving: pick random point * r
while True:
    y=rng.randrange(p); u=(y*y-1)%p; v=(d*y*y-a)%p; x2=u*pow(v,-1,p)%p
    if pow(x2,(p-1)//2,p)!=1: continue
    x=pow(x2,(p+3)//8,p)
    if x*x%p!=x2: x=x*sqm1%p
    if x*x%p!=x2: continue
    T8=mul(r_,(x,y))
    if mul(4,T8)!=(0,1): pts.append(T8); break
A=mem(ED);B=mem(ED);C=mem(ED)
for fn,native in (('ed_add_basic',BASIC),('ed_add_projc',PROJC),('ed_add_extnd',EXTND)):
    if not has(fn): rec((fn,'absent'),0); continue
    for P in pts:
        for Q in pts+[P,((-P[0])%p,P[1])]:
            for ca in {BASIC,native}:
                for cb in {BASIC,native}:
                    for alias in (0,1,2):
                        wr(A,P,ca);wr(B,Q,cb);out=[C,A,B][alias]; r,e=call(fn,out,A,B)
                        key=(fn,ca,cb,'alias%d'%alias)
                        if e: rec(key+('err',),(P,Q)); continue
                        if rd(out)!=add(P,Q): rec(key+('WRONG',),(pts.index(P),Q==P,rd(out)))
                        else: res['ok']+=1
for fn,native in (('ed_dbl_basic',BASIC),('ed_dbl_projc',PROJC),('ed_dbl_extnd',EXTND)):
    if not has(fn): rec((fn,'absent'),0); continue
    for P in pts:
        for ca in {BASIC,native}:
            for alias in (0,1):
                wr(A,P,ca); out=[C,A][alias]; r,e=call(fn,out,A)
                if e: rec((fn,ca,'err'),P); continue
                if rd(out)!=add(P,P): rec((fn,ca,'alias%d'%alias,'WRONG'),(pts.index(P),rd(out)))
                else: res['ok']+=1
# scalar mult on subgroup points
k=newbn()
scal=[0,1,-1,2,r_-1,r_,r_+1,2*r_+3,-r_,rng.randrange(r_),rng.randrange(r_),rng.getrandbits(300),(1<<252),(1<<253)-1,1<<255,(1<<256)-1]
for P in (g,mul(7,g),mul(rng.randrange(r_),g)):
    for v in scal:
        for fn in ('ed_mul_basic','ed_mul_slide','ed_mul_monty','ed_mul_lwnaf','ed_mul_lwreg'):
            if fn=='ed_mul_lwreg': continue   # known stack overflow (#2) in this build
            wr(A,P,BASIC); setbn(k,v); r,e=call(fn,C,A,k); cls='in' if 0<=v<r_ else ('neg' if v<0 else 'big')
            if e: rec((fn,cls,'err'),v); continue
            if rd(C)!=mul(v,P): rec((fn,cls,'WRONG'),hex(v))
            else: res['ok']+=1
# pack/unpack
out=mem(80)
for P in [mul(rng.randrange(r_),g) for _ in range(50)]+pts:
    wr(A,P,BASIC)
    for pack,n in ((0,65),(1,33)):
        r,e=call("ed_write_bin",out,n,A,pack); bs=get(out,n); r2,e2=call("ed_read_bin",C,put(bs),n)
        if e or e2: rec(('ed_io','err',pack,e,e2),P); continue
        if rd(C)!=P: rec(('ed_io','roundtrip',pack,'idx%d'%(pts.index(P) if P in pts else -1)),(P,rd(C)))
        else: res['ok']+=1
print("ok",res.pop('ok'))
for k_,v in sorted(res.items(),key=str): print(v,k_,str(ex.get(k_))[:120])
