#include <stdint.h>
#include <stddef.h>
#include "relic.h"
typedef uintptr_t W;
W vf_try(void *fn, int n, W *a, int *err) {
  volatile W r = 0; err_t e = 0; *err = 0;
  RLC_TRY {
    switch (n) {
      case 0: r = ((W(*)(void))fn)(); break;
      case 1: r = ((W(*)(W))fn)(a[0]); break;
      case 2: r = ((W(*)(W,W))fn)(a[0],a[1]); break;
      case 3: r = ((W(*)(W,W,W))fn)(a[0],a[1],a[2]); break;
      case 4: r = ((W(*)(W,W,W,W))fn)(a[0],a[1],a[2],a[3]); break;
      case 5: r = ((W(*)(W,W,W,W,W))fn)(a[0],a[1],a[2],a[3],a[4]); break;
      case 6: r = ((W(*)(W,W,W,W,W,W))fn)(a[0],a[1],a[2],a[3],a[4],a[5]); break;
      case 7: r = ((W(*)(W,W,W,W,W,W,W))fn)(a[0],a[1],a[2],a[3],a[4],a[5],a[6]); break;
      case 8: r = ((W(*)(W,W,W,W,W,W,W,W))fn)(a[0],a[1],a[2],a[3],a[4],a[5],a[6],a[7]); break;
      default: *err = -99; break;
    }
  } RLC_CATCH(e) { *err = e ? e : 1; }
  return r;
}
size_t vf_sizeof_bn(void){ return sizeof(bn_st); }
size_t vf_off_dp(void){ return offsetof(bn_st, dp); }
size_t vf_off_seeded(void){ return offsetof(ctx_t, seeded); }
size_t vf_off_rand(void){ return offsetof(ctx_t, rand); }
size_t vf_off_counter(void){ return offsetof(ctx_t, counter); }
/* --- probe helpers for protocol key types --- */
#include <stdlib.h>
void *vf_rsa_new(void){ rsa_t *r = (rsa_t*)malloc(sizeof(rsa_t)); rsa_new(*r); return r; }
void *vf_rsa_field(void *r, int i){ rsa_t *k=(rsa_t*)r; switch(i){ case 0: return (*k)->d; case 1: return (*k)->e; case 2: return (*k)->crt->n; case 3: return (*k)->crt->p; case 4: return (*k)->crt->q; case 5: return (*k)->crt->dp; case 6: return (*k)->crt->dq; case 7: return (*k)->crt->qi;} return 0; }
size_t vf_sizeof_ctx(void){ return sizeof(ctx_t); }
size_t vf_sizeof_phpe(void){ return sizeof(phpe_t); }
size_t vf_sizeof_rabin(void){ return sizeof(rabin_t); }
size_t vf_sizeof_bdpe(void){ return sizeof(bdpe_t); }
void *vf_phpe_new(void){ phpe_t *r=(phpe_t*)malloc(sizeof(phpe_t)); phpe_new(*r); return r; }
void *vf_rabin_new(void){ rabin_t *r=(rabin_t*)malloc(sizeof(rabin_t)); rabin_new(*r); return r; }
void *vf_bdpe_new(void){ bdpe_t *r=(bdpe_t*)malloc(sizeof(bdpe_t)); bdpe_new(*r); return r; }
