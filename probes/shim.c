#include <stdint.h>
#include <stddef.h>
#include "relic.h"
typedef uintptr_t W;
W vf_try(void *fn, int n, W *a, int *err) {
  volatile W r = 0; err_t e = 0; *err = 0;
  RLC_TRY {
    switch (n) {
      case 0: r = ((W(*)(void))fn)(); break;
      case 1: r = ((W(*)(W))fn)(a[0]); break;
      case 2: r = ((W(*)(W,W))fn)(a[0],a[1]); break;
      case 3: r = ((W(*)(W,W,W))fn)(a[0],a[1],a[2]); break;
      case 4: r = ((W(*)(W,W,W,W))fn)(a[0],a[1],a[2],a[3]); break;
      case 5: r = ((W(*)(W,W,W,W,W))fn)(a[0],a[1],a[2],a[3],a[4]); break;
      case 6: r = ((W(*)(W,W,W,W,W,W))fn)(a[0],a[1],a[2],a[3],a[4],a[5]); break;
    }
  } RLC_CATCH(e) { *err = e ? e : 1; }
  return r;
}
size_t vf_sizeof_bn(void){ return sizeof(bn_st); }
size_t vf_off_dp(void){ return offsetof(bn_st, dp); }
size_t vf_off_seeded(void){ return offsetof(ctx_t, seeded); }
size_t vf_off_rand(void){ return offsetof(ctx_t, rand); }
size_t vf_off_counter(void){ return offsetof(ctx_t, counter); }
