from pr import *
rng=random.Random(14); res=collections.Counter(); ex={}
def rec(k,info): res[k]+=1; ex.setdefault(k,info)
def s8(b): return b-256 if b>127 else b
def scalars(bits):
    out=[0,1,2,3,(1<<bits)-1,1<<(bits-1),(1<<(bits-1))+1,int('10'*(bits//2),2),int('1100'*(bits//4),2),rng.getrandbits(bits),rng.getrandbits(bits),rng.getrandbits(bits//2),(1<<bits)-(1<<(bits//2))]
    return out
K=newbn()
SEC=sys.argv[1] if len(sys.argv)>1 else 'rec'
for w in (range(2,9) if SEC=='rec' else []):
    print('w',w,flush=True)
    for k in scalars(256)+scalars(64)+scalars(7):
        setbn(K,k); nb=k.bit_length()
        # win
        cap=max((nb+w-1)//w,1)+2; buf=mem(cap+8,0xAA); ln=mem(8); ctypes.c_size_t.from_address(ln).value=cap
        if nb>=w:      # avoid the known crash class (#30)
            r,e=call("bn_rec_win",buf,ln,K,w); l=ctypes.c_size_t.from_address(ln).value
            if e: rec(('win','err','w%d'%w),k)
            else:
                d=get(buf,l); v=sum(x<<(w*i) for i,x in enumerate(d))
                if v!=k or any(x>=1<<w for x in d) or get(buf+cap,8)!=b'\xaa'*8: rec(('win','decode','w%d'%w),(k,list(d)[:6]))
                else: res['ok']+=1
        # slw
        cap=nb+2; buf=mem(cap+8,0xAA); ctypes.c_size_t.from_address(ln).value=cap
        r,e=call("bn_rec_slw",buf,ln,K,w); l=ctypes.c_size_t.from_address(ln).value
        if e: rec(('slw','err','w%d'%w,'k0' if k==0 else ''),k)
        else:
            d=get(buf,l); v=0
            for x in d:
                if x==0: v<<=1
                else: v=(v<<x.bit_length())|x
            if v!=k or any((x and x%2==0) or x>=1<<w for x in d): rec(('slw','decode','w%d'%w),(k,list(d)[:8]))
            else: res['ok']+=1
        # naf
        cap=nb+2; buf=mem(cap+8,0xAA); ctypes.c_size_t.from_address(ln).value=cap
        r,e=call("bn_rec_naf",buf,ln,K,w); l=ctypes.c_size_t.from_address(ln).value
        if e: rec(('naf','err','w%d'%w),k)
        else:
            d=[s8(x) for x in get(buf,l)]; v=sum(x<<i for i,x in enumerate(d))
            okd=all(x==0 or (x%2 and abs(x)<(1<<(w-1))) for x in d)
            nonadj=all(not(d[i] and any(d[i+1:i+w])) for i in range(len(d)))
            if v!=k or not okd or not nonadj or l>nb+1 or get(buf+cap,8)!=b'\xaa'*8: rec(('naf','decode','w%d'%w,'val' if v!=k else ('digits' if not okd else ('adj' if not nonadj else 'len'))),(k,d[:8]))
            else: res['ok']+=1
        # too-short buffer must be an error, never a write
        if nb>2:
            ctypes.c_size_t.from_address(ln).value=nb; sb=mem(nb,0xAA); r,e=call("bn_rec_naf",sb,ln,K,w)
            if not e: rec(('naf','short_no_err'),k)
            else: res['ok']+=1
        # reg (odd k, n = bits)
        if k%2 and w>=2:
            n=max(nb,1); lreg=(n+(w-2))//(w-1)+1; cap=lreg+1; buf=mem(cap+8,0xAA); ctypes.c_size_t.from_address(ln).value=cap
            r,e=call("bn_rec_reg",buf,ln,K,n,w); l=ctypes.c_size_t.from_address(ln).value
            if e: rec(('reg','err','w%d'%w),k)
            else:
                d=[s8(x) for x in get(buf,l)]; v=sum(x<<((w-1)*i) for i,x in enumerate(d))
                if v!=k or any(x%2==0 for x in d[:-1]) or any(abs(x)>=(1<<(w-1)) for x in d[:-1]): rec(('reg','decode','w%d'%w,'val' if v!=k else 'digits'),(k,d[:8],l))
                else: res['ok']+=1
# jsf
L2=newbn()
for k in (scalars(200)[:10] if SEC=='jsf' else []):
    for l_ in scalars(200)[:10]:
        setbn(K,k); setbn(L2,l_); nb=max(k.bit_length(),l_.bit_length()); cap=2*(nb+1)+2; buf=mem(cap+8,0xAA); ln=mem(8); ctypes.c_size_t.from_address(ln).value=cap
        r,e=call("bn_rec_jsf",buf,ln,K,L2); l=ctypes.c_size_t.from_address(ln).value
        if e: rec(('jsf','err','k<l' if k.bit_length()<l_.bit_length() else 'k>=l'),(k.bit_length(),l_.bit_length())); continue
        off=nb+1; d0=[s8(x) for x in get(buf,l)]; d1=[s8(x) for x in get(buf+off,l)]
        if sum(x<<i for i,x in enumerate(d0))!=k or sum(x<<i for i,x in enumerate(d1))!=l_: rec(('jsf','decode'),(k,l_))
        else: res['ok']+=1
# primality
def mr(n,bases):
    if n<2: return False
    d=n-1;s=0
    while d%2==0:d//=2;s+=1
    for a in bases:
        if a%n==0: continue
        x=pow(a,d,n)
        if x in(1,n-1): continue
        for _ in range(s-1):
            x=x*x%n
            if x==n-1: break
        else: return False
    return True
def isprime(n):
    if n<2: return False
    for q in (2,3,5,7,11,13,17,19,23,29,31,37,41,43,47):
        if n%q==0: return n==q
    return mr(n,[2,3,5,7,11,13,17,19,23,29,31,37]+[rng.randrange(2,n-1) for _ in range(20)])
cands=[0,1,2,3,4,9,25,561,1105,1729,2047,3215031751,341550071728321,3825123056546413051,318665857834031151167461,3317044064679887385961981,(1<<127)-1,(1<<89)-1,(1<<61)-1,((1<<61)-1)**2,((1<<61)-1)*((1<<89)-1)]
# Chernick Carmichael numbers
for kk in range(1,400):
    a,b,c=6*kk+1,12*kk+1,18*kk+1
    if isprime(a) and isprime(b) and isprime(c): cands.append(a*b*c)
for _ in range(60): cands.append(rng.getrandbits(rng.choice([32,64,128,256]))|1)
for n in (cands if SEC=='prime' else []):
    setbn(K,n); truth=isprime(n)
    for fn in ('bn_is_prime','bn_is_prime_basic','bn_is_prime_rabin','bn_is_prime_solov'):
        if fn=='bn_is_prime_solov' and n<3: res[('solov skipped n<3 (hangs for n=1,2)',)]+=1; continue
        print(fn,n.bit_length(),flush=True) if os.environ.get('VERB') else None
        r,e=icall(fn,K)
        if e: rec((fn,'err'),n); continue
        if fn=='bn_is_prime_basic':
            if truth and not r: rec((fn,'rejects_prime'),n)
            else: res['ok']+=1
            continue
        if bool(r)!=truth: rec((fn,'accepts_composite' if r else 'rejects_prime'),n)
        else: res['ok']+=1
for bits in ((16,64,128,256) if SEC=='gen' else []):
    print('gen',bits,flush=True)
    for fn in ('bn_gen_prime_basic','bn_gen_prime_safep','bn_gen_prime_stron'):
        if fn!='bn_gen_prime_basic' and bits>256: continue
        r,e=call(fn,K,bits); v=getbn(K)
        if e: rec((fn,'err',bits),0); continue
        bad=[]
        if v.bit_length()!=bits: bad.append('bits=%d'%v.bit_length())
        if not isprime(v): bad.append('composite')
        if fn.endswith('safep') and not isprime((v-1)//2): bad.append('not_safe')
        if bad: rec((fn,bits,tuple(bad)),v)
        else: res['ok']+=1
print("ok",res.pop('ok',0))
for k_,v in sorted(res.items(),key=str): print(v,k_,str(ex.get(k_))[:100])
