#define _GNU_SOURCE
#include <stdint.h>
#include <stddef.h>
#include <dlfcn.h>
#define NI __attribute__((no_instrument_function))
static volatile int armed_calls, armed_pc;
static uintptr_t *cbuf; static size_t ccap, cn;
static uintptr_t *pbuf; static size_t pcap, pn;
NI void vt_arm(int calls, int pc, uintptr_t *cb, size_t cc, uintptr_t *pb, size_t pc_cap){ cbuf=cb; ccap=cc; cn=0; pbuf=pb; pcap=pc_cap; pn=0; armed_calls=calls; armed_pc=pc; }
NI size_t vt_disarm_calls(void){ armed_calls=0; armed_pc=0; return cn; }
NI size_t vt_pcs(void){ return pn; }
NI void __cyg_profile_func_enter(void *fn, void *cs){ if(armed_calls && cn+2<=ccap){ cbuf[cn++]=(uintptr_t)fn; cbuf[cn++]=(uintptr_t)cs; } }
NI void __cyg_profile_func_exit(void *fn, void *cs){ }
NI void __sanitizer_cov_trace_pc(void){ if(armed_pc && pn<pcap){ pbuf[pn++]=(uintptr_t)__builtin_return_address(0); } }
