from pr import *
import hmac as _hmac, aesref
rng=random.Random(1); res=collections.Counter(); ex={}
def rec(k,info): res[k]+=1; ex.setdefault(k,info)
H={'md_map_sh224':('sha224',28),'md_map_sh256':('sha256',32),'md_map_sh384':('sha384',48),'md_map_sh512':('sha512',64)}
out=mem(4096)
for n in list(range(0,300))+[1000,4095,70000]:
    m=bytes(rng.getrandbits(8) for _ in range(n)); pm=put(m)
    for fn,(alg,dl) in H.items():
        ctypes.memset(out,0xAA,dl+8); r,e=call(fn,out,pm,n)
        if e or get(out,dl)!=hashlib.new(alg,m).digest() or get(out+dl,8)!=b'\xaa'*8: rec((fn,'mismatch'),n)
        else: res['ok']+=1
    for fn,ds in (('md_map_b2s160',20),('md_map_b2s256',32)):
        ctypes.memset(out,0xAA,ds+8); r,e=call(fn,out,pm,n)
        if e or get(out,ds)!=hashlib.blake2s(m,digest_size=ds).digest(): rec((fn,'mismatch','len0' if n==0 else ''),n)
        else: res['ok']+=1
# hmac (MD_MAP=SH256)
for kl in list(range(0,140))+[200,1000]:
    for n in (0,1,55,56,63,64,65,200):
        k=bytes(rng.getrandbits(8) for _ in range(kl)); m=bytes(rng.getrandbits(8) for _ in range(n))
        r,e=call("md_hmac",out,put(m),n,put(k),kl)
        if e or get(out,32)!=_hmac.new(k,m,'sha256').digest(): rec(('md_hmac','mismatch','kl>64' if kl>64 else ('kl=0' if kl==0 else '')),(kl,n))
        else: res['ok']+=1
def kdf(z,l,start):
    o=b'';c=start
    while len(o)<l: o+=hashlib.sha256(z+c.to_bytes(4,'big')).digest(); c+=1
    return o[:l]
for l in list(range(0,100))+[255,256,257,1000]:
    for n in (0,1,20,64,100):
        z=bytes(rng.getrandbits(8) for _ in range(n))
        for fn,st in (('md_kdf',1),('md_mgf',0)):
            ctypes.memset(out,0xAA,l+8); r,e=call(fn,out,l,put(z),n)
            if e or get(out,l)!=kdf(z,l,st) or get(out+l,8)!=b'\xaa'*8: rec((fn,'mismatch','l=0' if l==0 else ''),(l,n,e))
            else: res['ok']+=1
def xmd(alg,bs,msg,dst,l):
    hl=hashlib.new(alg).digest_size; ell=(l+hl-1)//hl
    if len(dst)>255: dst=hashlib.new(alg,b'H2C-OVERSIZE-DST-'+dst).digest()
    dp=dst+bytes([len(dst)]); b0=hashlib.new(alg,bytes(bs)+msg+l.to_bytes(2,'big')+b'\0'+dp).digest()
    b=[hashlib.new(alg,b0+b'\1'+dp).digest()]
    for i in range(2,ell+1): b.append(hashlib.new(alg,bytes(x^y for x,y in zip(b0,b[-1]))+bytes([i])+dp).digest())
    return b''.join(b)[:l]
for fn,alg,bs in (('md_xmd_sh224','sha224',64),('md_xmd_sh256','sha256',64),('md_xmd_sh384','sha384',128),('md_xmd_sh512','sha512',128)):
    for l in (0,1,31,32,33,64,96,100,255,256,1000,8160):
        for n in (0,1,63,64,65,200):
            for dl in (0,1,5,6,16,255,256,300):
                m=bytes(rng.getrandbits(8) for _ in range(n)); d=bytes(rng.getrandbits(8) for _ in range(dl))
                buf=mem(l+8,0xAA); r,e=call(fn,buf,l,put(m),n,put(d),dl)
                hl=hashlib.new(alg).digest_size
                if (l+hl-1)//hl>255: rec((fn,'ell>255','err' if e else 'noerr'),l); continue
                if e: rec((fn,'err','dl=%d'%dl if dl in(0,256,300) else '', 'l=0' if l==0 else ''),(l,n,dl)); continue
                if get(buf,l)!=xmd(alg,bs,m,d,l) or get(buf+l,8)!=b'\xaa'*8: rec((fn,'mismatch','dl>255' if dl>255 else ('dl=0' if dl==0 else ''),'l=0' if l==0 else ''),(l,n,dl))
                else: res['ok']+=1
# AES
for kl in (16,24,32,0,8,17,33):
    for n in range(0,66):
        key=bytes(rng.getrandbits(8) for _ in range(kl)); iv=bytes(rng.getrandbits(8) for _ in range(16)); pt=bytes(rng.getrandbits(8) for _ in range(n))
        ol=mem(8); cap=n+16; ctypes.c_size_t.from_address(ol).value=cap; ct=mem(cap+8,0xAA)
        r,e=icall("bc_aes_cbc_enc",ct,ol,put(pt),n,put(key),kl,put(iv))
        if kl not in (16,24,32): rec(('aes_enc','badkeylen%d'%kl,'rc%d'%r),0); continue
        if r!=0: rec(('aes_enc','rc%d'%r,'n=0' if n==0 else 'n=%d'%(n%16)),n); continue
        cl=ctypes.c_size_t.from_address(ol).value; exp=aesref.cbc_enc(key,iv,pt)
        if get(ct,cl)!=exp: rec(('aes_enc','mismatch'),n); continue
        res['ok']+=1
        dl=mem(8); ctypes.c_size_t.from_address(dl).value=cl; dt=mem(cl+8,0xAA)
        r,e=icall("bc_aes_cbc_dec",dt,dl,ct,cl,put(key),kl,put(iv))
        if r!=0 or get(dt,ctypes.c_size_t.from_address(dl).value)!=pt: rec(('aes_dec','roundtrip','rc%d'%r),n)
        else: res['ok']+=1
        # corrupt padding: flip last byte of last ciphertext block → padding invalid with prob ~ 255/256... use model to decide? check rejection or different plaintext
        bad=bytearray(exp); bad[-1]^=0x01; ctypes.c_size_t.from_address(dl).value=cl
        r,e=icall("bc_aes_cbc_dec",dt,dl,put(bytes(bad)),cl,put(key),kl,put(iv))
        rec(('aes_dec','corrupt_last','rc%d'%r),n)
        # too small out buffer
        ctypes.c_size_t.from_address(ol).value=cl-1; r,e=icall("bc_aes_cbc_enc",ct,ol,put(pt),n,put(key),kl,put(iv))
        if r==0: rec(('aes_enc','short_out_accepted'),n)
print("ok",res.pop('ok'))
for k,v in sorted(res.items(),key=str): print(v,k,str(ex.get(k))[:110])
