from pr import *
import aesref
key=bytes.fromhex('2b7e151628aed2a6abf7158809cf4f3c'); iv=bytes(range(16)); pt=bytes.fromhex('6bc1bee22e409f96e93d7e117393172a')
print("ref first block:",aesref.cbc_enc(key,iv,pt)[:16].hex(),"(expect 7649abac8119b246cee98e9b12e9197d)")
ol=mem(8); ctypes.c_size_t.from_address(ol).value=64; ct=mem(64,0)
r,e=icall("bc_aes_cbc_enc",ct,ol,put(pt),16,put(key),16,put(iv)); cl=ctypes.c_size_t.from_address(ol).value
print("lib rc",r,"len",cl,get(ct,cl).hex())
print("ref      ",aesref.cbc_enc(key,iv,pt).hex())
for kl in (0,8,17,33):
    ctypes.c_size_t.from_address(ol).value=64
    r,e=icall("bc_aes_cbc_enc",ct,ol,put(pt),16,put(bytes(kl)),kl,put(iv)); print("keylen",kl,"rc",r,"outlen",ctypes.c_size_t.from_address(ol).value)
