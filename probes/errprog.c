/* throwaway prototype of the C19 error-program interpreter */
#include <stdio.h>
#include <stdlib.h>
#include <string.h>
#include "relic.h"
/* program encoding (prefix, ints): 
   block := kind nb <actions> nc <actions> nf <actions>
   kind: 0 = TRY/CATCH_ANY, 1 = TRY/CATCH(e), 2 = TRY/CATCH_ANY/FINALLY, 3 = TRY/CATCH(e)/FINALLY
   action := 0 (nop) | 1 code (throw) | 2 <block> (nested block via recursion) | 3 (library call that throws: bn_div by zero) | 4 (rethrow ERR_CAUGHT) | 5 <block> (nested block via helper function call)
*/
static const int *pc; static int nid;
static void run_block(void);
static void helper(void){ run_block(); }
#define LOG(...) do { printf(__VA_ARGS__); } while (0)
static void skip_actions(int n);
static void skip_block(void){ pc++; for(int s=0;s<3;s++){ int n=*pc++; skip_actions(n);} }
static void skip_actions(int n){ for(int i=0;i<n;i++){ int a=*pc++; if(a==1) pc++; else if(a==2||a==5) skip_block(); } }
static void run_actions(int n){
  for (int i=0;i<n;i++){
    int a=*pc++;
    switch(a){
      case 0: LOG("nop\n"); break;
      case 1: { int c=*pc++; LOG("throw %d\n",c); 
                /* remaining actions of this list are skipped by longjmp if inside a try */
                RLC_THROW(c); LOG("continued-after-throw\n"); break; }
      case 2: run_block(); break;
      case 3: { bn_t x,y; bn_new(x); bn_new(y); bn_set_dig(x,7); bn_zero(y); LOG("libthrow\n"); bn_div(x,x,y); LOG("continued-after-libthrow\n"); break; }
      case 4: LOG("rethrow\n"); RLC_THROW(ERR_CAUGHT); LOG("continued-after-rethrow\n"); break;
      case 5: helper(); break;
    }
  }
}
/* a longjmp abandons the parse position; so each segment's start is computed up front */
static void run_block(void){
  int id=nid++; int kind=*pc++;
  const int *body=pc; int nb=*pc++; skip_actions(nb);
  const int *cb=pc; int nc=*pc++; skip_actions(nc);
  const int *fb=pc; int nf=*pc++; skip_actions(nf);
  const int *end=pc;
  volatile err_t e=0; void *last_before=core_get()->last;
  LOG("enter %d\n",id);
  int idbase=nid; (void)idbase;
  switch(kind){
    case 0: RLC_TRY { pc=body+1; run_actions(nb); } RLC_CATCH_ANY { LOG("handler %d\n",id); pc=cb+1; run_actions(nc); } break;
    case 1: RLC_TRY { pc=body+1; run_actions(nb); } RLC_CATCH(e) { LOG("handler %d code %d\n",id,(int)e); pc=cb+1; run_actions(nc); } break;
    case 2: RLC_TRY { pc=body+1; run_actions(nb); } RLC_CATCH_ANY { LOG("handler %d\n",id); pc=cb+1; run_actions(nc); } RLC_FINALLY { LOG("finally %d\n",id); pc=fb+1; run_actions(nf); } break;
    case 3: RLC_TRY { pc=body+1; run_actions(nb); } RLC_CATCH(e) { LOG("handler %d code %d\n",id,(int)e); pc=cb+1; run_actions(nc); } RLC_FINALLY { LOG("finally %d\n",id); pc=fb+1; run_actions(nf); } break;
  }
  pc=end;
  LOG("exit %d chain_restored %d\n",id,core_get()->last==last_before);
}
int main(int argc,char**argv){
  static int prog[4096]; int n=0; 
  for(int i=1;i<argc;i++) prog[n++]=atoi(argv[i]);
  core_init();
  pc=prog; nid=0;
  /* top-level: list of actions outside any block */
  int top=*pc++; run_actions(top);
  printf("end code1 %d code2 %d last_null %d\n", err_get_code(), err_get_code(), core_get()->last==NULL);
  return 0;
}
