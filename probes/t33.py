from pr import *
rng=random.Random(9); res=collections.Counter(); ex={}
def rec(k,info): res[k]+=1; ex.setdefault(k,info)
EP=3*32+8
for pid,name in ((12,'NIST'),(14,'K256'),(24,'BN')):
    call("ep_param_set",pid); F=Fp(); p=F.p
    L.ep_curve_get_a.restype=ctypes.c_void_p; L.ep_curve_get_b.restype=ctypes.c_void_p
    a=F.rd(L.ep_curve_get_a()); b=F.rd(L.ep_curve_get_b())
    G=mem(EP); call("ep_curve_get_gen",G); g=(F.rd(G),F.rd(G+32)); nb=newbn(); call("ep_curve_get_ord",nb); n=getbn(nb)
    def add(P,Q):
        if P is None: return Q
        if Q is None: return P
        if P[0]==Q[0]:
            if (P[1]+Q[1])%p==0: return None
            l=(3*P[0]*P[0]+a)*pow(2*P[1],-1,p)%p
        else: l=(Q[1]-P[1])*pow(Q[0]-P[0],-1,p)%p
        x=(l*l-P[0]-Q[0])%p; return (x,(l*(P[0]-x)-P[1])%p)
    def neg(P): return None if P is None else (P[0],(-P[1])%p)
    def mul(k,P):
        if k<0:k=-k;P=neg(P)
        R=None
        while k:
            if k&1:R=add(R,P)
            P=add(P,P);k>>=1
        return R
    def wr(addr,P):
        if P is None: call("ep_set_infty",addr); return
        F.wr(addr,P[0]);F.wr(addr+32,P[1]);F.wr(addr+64,1);ctypes.c_int.from_address(addr+96).value=1
    def rd(addr):
        if L.ep_is_infty(ctypes.c_void_p(addr)): return None
        call("ep_norm",addr,addr); return (F.rd(addr),F.rd(addr+32))
    P_=mem(EP);Q_=mem(EP);R_=mem(EP);k=newbn();m=newbn()
    scal=[0,1,-1,2,n-1,n,n+1,2*n+3,-n,-(n+5),rng.randrange(n),rng.randrange(n),rng.getrandbits(300),1<<255,(1<<256)-1,rng.getrandbits(128),n*n]
    Pm=mul(rng.randrange(n),g); Qm=mul(rng.randrange(n),g)
    for P,Q in ((Pm,Qm),(Pm,Pm),(Pm,neg(Pm)),(g,Qm),(None,Qm),(Pm,None)):
        for kv in scal:
            for mv in rng.sample(scal,5):
                exp=add(mul(kv,P),mul(mv,Q)); cls=('in' if 0<=kv<n else ('neg' if kv<0 else 'big'))+'/'+('in' if 0<=mv<n else ('neg' if mv<0 else 'big'))
                for fn in ('ep_mul_sim_basic','ep_mul_sim_trick','ep_mul_sim_inter','ep_mul_sim_joint'):
                    if fn=='ep_mul_sim_trick' and (kv%n<2 or mv%n<2): res[('SKIPPED known crash: trick with zero scalar',)]+=1; continue
                    wr(P_,P);wr(Q_,Q);setbn(k,kv);setbn(m,mv); r,e=call(fn,R_,P_,k,Q_,m)
                    if e: rec((name,fn,cls,'err'),(kv,mv)); continue
                    if rd(R_)!=exp: rec((name,fn,cls,'WRONG','P=Q' if P==Q else ('P=-Q' if P is not None and Q==neg(P) else ('inf' if None in (P,Q) else ''))),(hex(kv)[:20],hex(mv)[:20]))
                    else: res['ok']+=1
                if P==g or True:
                    wr(Q_,Q);setbn(k,kv);setbn(m,mv); r,e=call('ep_mul_sim_gen',R_,k,Q_,m); exp2=add(mul(kv,g),mul(mv,Q))
                    if e: rec((name,'ep_mul_sim_gen',cls,'err'),0)
                    elif rd(R_)!=exp2: rec((name,'ep_mul_sim_gen',cls,'WRONG'),(hex(kv)[:20],hex(mv)[:20]))
                    else: res['ok']+=1
    # sim_lot with n = 0..12
    for cnt in (0,1,2,3,7,12):
        pts=[mul(rng.randrange(n),g) for _ in range(cnt)]; ks=[rng.choice(scal[:12]) for _ in range(cnt)]
        parr=mem(EP*max(cnt,1)); karr=mem(BNSZ*max(cnt,1))
        for i in range(cnt):
            wr(parr+EP*i,pts[i]); call("bn_make",karr+BNSZ*i,BNCAP); setbn(karr+BNSZ*i,ks[i])
        r,e=call('ep_mul_sim_lot',R_,parr,karr,cnt); exp=None
        for P,kv in zip(pts,ks): exp=add(exp,mul(kv,P))
        if e: rec((name,'ep_mul_sim_lot','n=%d'%cnt,'err'),0)
        elif rd(R_)!=exp: rec((name,'ep_mul_sim_lot','n=%d'%cnt,'WRONG'),[hex(x)[:12] for x in ks])
        else: res['ok']+=1
print("ok",res.pop('ok'))
for k_,v in sorted(res.items(),key=str): print(v,k_,str(ex.get(k_))[:90])
