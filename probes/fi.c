#include <stdio.h>
#include <stdlib.h>
#include <string.h>
#include "relic.h"
static long countdown = -1, nalloc = 0;
void *vf_fi_malloc(size_t n){ nalloc++; if (countdown > 0 && --countdown == 0) return NULL; return malloc(n); }
void *vf_fi_calloc(size_t a, size_t b){ nalloc++; if (countdown > 0 && --countdown == 0) return NULL; return calloc(a,b); }
void *vf_fi_realloc(void *p, size_t n){ nalloc++; if (countdown > 0 && --countdown == 0) return NULL; return realloc(p,n); }
static bn_t a, b, c;
static int op(int which){
  int e = 0; err_t ec;
  RLC_TRY {
    if (which==0) bn_mul_karat(c, a, b);
    else if (which==1) bn_div_rem(c, b, a, b);
    else if (which==2) { ep_t p; ep_null(p); ep_new(p); ep_mul_gen(p, a); ep_free(p); }
    else if (which==3) bn_mxp_slide(c, a, b, b);
  } RLC_CATCH(ec) { e = ec; }
  return e;
}
int main(int argc, char **argv){
  int which = atoi(argv[1]); long k = atol(argv[2]);
  core_init(); ep_param_set_any();
  bn_null(a); bn_null(b); bn_null(c); bn_new(a); bn_new(b); bn_new(c);
  bn_rand(a, RLC_POS, 500); bn_rand(b, RLC_POS, 300); bn_set_bit(b,0,1);
  nalloc = 0; countdown = k; int e = op(which); countdown = -1;
  printf("which=%d fail_at=%ld allocs=%ld err=%d code=%d\n", which, k, nalloc, e, err_get_code());
  int e2 = op(which); printf("  afterwards err=%d\n", e2);
  return 0;
}
