import ctypes, random, sys, collections
cfg=sys.argv[1]; W=int(sys.argv[2]); N=int(sys.argv[3])
L = ctypes.CDLL(f"/var/tmp/sx/{cfg}/lib/librelic.so", mode=ctypes.RTLD_GLOBAL)
S = ctypes.CDLL("/var/tmp/sx/t/"+("libshim8.so" if W==8 else "libshim.so"))
libc = ctypes.CDLL(None); libc.malloc.restype=ctypes.c_void_p; libc.malloc.argtypes=[ctypes.c_size_t]
S.vf_try.restype=ctypes.c_size_t; S.vf_sizeof_bn.restype=ctypes.c_size_t; S.vf_off_dp.restype=ctypes.c_size_t
L.core_init()
szbn=S.vf_sizeof_bn(); offdp=S.vf_off_dp(); DB=W//8
SIZE=(szbn-offdp)//DB
print("digits capacity",SIZE)
def call(name,*args):
    arr=(ctypes.c_size_t*8)(*[a & (2**64-1) for a in args]); err=ctypes.c_int(0)
    fn=ctypes.cast(getattr(L,name),ctypes.c_void_p).value
    r=S.vf_try(ctypes.c_void_p(fn),len(args),arr,ctypes.byref(err)); return r,err.value
def newbn():
    p=libc.malloc(szbn); call("bn_make",p,SIZE); return p
def put(p,v,poison):
    # write raw: alloc(size_t) used(size_t) sign(int)
    mag=abs(v); nd=max(1,(mag.bit_length()+W-1)//W)
    ctypes.c_size_t.from_address(p+8).value=nd
    ctypes.c_int.from_address(p+16).value=1 if v<0 else 0
    raw=mag.to_bytes(nd*DB,'little')+bytes([poison])*((SIZE-nd)*DB)
    ctypes.memmove(p+offdp,raw,SIZE*DB)
def get(p):
    used=ctypes.c_size_t.from_address(p+8).value; sign=ctypes.c_int.from_address(p+16).value
    if used<1 or used>SIZE: return None,used,sign,False
    raw=ctypes.string_at(p+offdp,used*DB); mag=int.from_bytes(raw,'little')
    top=int.from_bytes(raw[-DB:],'little')
    normal=(top!=0 or used==1) and not (mag==0 and sign!=0) and sign in (0,1)
    return (-mag if sign else mag),used,sign,normal
rng=random.Random(int(sys.argv[4]) if len(sys.argv)>4 else 1)
B=1<<W
def pat():
    c=rng.randrange(8)
    if c==0: return 0
    if c==1: return B-1
    if c==2: return 1<<rng.randrange(W)
    if c==3: return B>>1
    if c==4: return (B>>1)+rng.choice([-1,1])
    return rng.randrange(B)
def operand(maxd):
    nd=rng.choice([0,1,1,2,2,3,rng.randrange(0,maxd+1),maxd])
    v=0
    for i in range(nd): v=(v<<W)|pat()
    if rng.random()<0.35: v=-v
    return v
def fdiv(a,b): return a//b, a%b
a,b,c,d=newbn(),newbn(),newbn(),newbn()
fails=collections.Counter(); ex={}
def rec(key,info):
    fails[key]+=1; ex.setdefault(key,info)
half=SIZE//2-1
ops=['add','sub','mul_basic','mul_comba','mul_karat','sqr_basic','sqr_comba','sqr_karat','div_rem','lsh','rsh','cmp','dbl','hlv','div_rem_dig','mul_dig','add_dig','sub_dig']
for it in range(N):
    op=rng.choice(ops); x=operand(half); y=operand(half); alias=rng.randrange(3); poison=rng.randrange(1,256)
    put(a,x,poison); put(b,y,poison); put(c,rng.getrandbits(60),poison); put(d,5,poison)
    out=c if alias==0 else (a if alias==1 else b)
    cls=("neg" if x<0 else "pos")+("neg" if y<0 else "pos")
    if op in('add','sub'):
        r,e=call("bn_"+op,out,a,b); exp=x+y if op=='add' else x-y
    elif op.startswith('mul_') and op!='mul_dig':
        r,e=call("bn_"+op,out,a,b); exp=x*y
    elif op.startswith('sqr'):
        if alias==2: out=c
        r,e=call("bn_"+op,out,a); exp=x*x
    elif op=='div_rem':
        if y==0: continue
        r,e=call("bn_div_rem",out,d,a,b); exp,expr=fdiv(x,y)
        gr=get(d)
        if e==0 and (gr[0]!=expr or not gr[3]): rec(('div_rem.rem',cls,'zero' if x==0 else '','alias%d'%alias,'lt' if abs(x)<abs(y) else 'ge'),(x,y,gr,expr))
    elif op in('lsh','rsh'):
        s=rng.choice([0,1,W-1,W,W+1,2*W,rng.randrange(0,3*W)]); 
        if alias==2: out=c
        r,e=call("bn_"+op,out,a,s); exp=(x<<s) if op=='lsh' else (x>>s); cls=("neg" if x<0 else "pos")
    elif op=='cmp':
        r,e=call("bn_cmp",a,b); r=ctypes.c_int(r & 0xffffffff).value
        if r!=(x>y)-(x<y): rec(('cmp',cls),(x,y,r))
        continue
    elif op in('dbl','hlv'):
        if alias==2: out=c
        r,e=call("bn_"+op,out,a); exp=2*x if op=='dbl' else x>>1; cls=("neg" if x<0 else "pos")
    elif op=='div_rem_dig':
        dg=pat() or 1; rem=(ctypes.c_uint64)(0)
        if alias==2: out=c
        r,e=call("bn_div_rem_dig",out,ctypes.addressof(rem),a,dg); exp,er=fdiv(x,dg); cls=("neg" if x<0 else "pos")
        rv=rem.value & (B-1)
        if e==0 and rv!=er: rec(('div_rem_dig.rem',cls),(x,dg,rv,er))
    elif op in('mul_dig','add_dig','sub_dig'):
        dg=pat()
        if alias==2: out=c
        r,e=call("bn_"+op,out,a,dg); exp={'mul_dig':x*dg,'add_dig':x+dg,'sub_dig':x-dg}[op]; cls=("neg" if x<0 else "pos")
    if e!=0:
        if abs(exp).bit_length()<= (SIZE-2)*W: rec((op,'unexpected_err',e),(x,y))
        continue
    g=get(out)
    if g[0]!=exp: rec((op,'value',cls,'alias%d'%alias),(x,y,g[0],exp))
    elif not g[3]: rec((op,'normalform',cls,'zero' if exp==0 else ''),(x,y,g))
print("cases",N,"distinct failure keys",len(fails))
for k,v in sorted(fails.items(),key=lambda kv:-kv[1]): print(v,k,str(ex[k])[:150])
