from pr import *
L.eb_param_set_any_plain()
FBY=40
a=mem(FBY,0); c=mem(FBY,0xAA)
for x in (1,2,3):
    for fn in ('fb_inv_basic','fb_inv_exgcd','fb_inv_lower','fb_inv_binar'):
        for alias in (0,1):
            ctypes.memmove(a,x.to_bytes(FBY,'little'),FBY); ctypes.memset(c,0xAA,FBY)
            out=a if alias else c
            r,e=call(fn,out,a); print(x,fn,'alias' if alias else 'noalias',e,hex(int.from_bytes(get(out,FBY),'little'))[:40])
