import ctypes, random, sys, collections
exec(open('/var/tmp/sx/t/t13.py').read().split("# choose pairing curve")[0])
exec(open('/var/tmp/sx/t/t15.py').read().split("Z=123456789")[0])
FBY=32; EP=3*FBY+8; R=1<<256; Rinv=pow(R,-1,p)
L.ep_param_set(ctypes.c_int(0)) if False else None
print("set plain", L.ep_param_set_any_plain(), "opt_a", L.ep_curve_opt_a(), "opt_b", L.ep_curve_opt_b())
def rd_fp(addr): return int.from_bytes(ctypes.string_at(addr,FBY),'little')*Rinv%p
def wr_fp(addr,x): ctypes.memmove(addr,((x%p)*R%p).to_bytes(FBY,'little'),FBY)
def wr(addr,X,Y,Z,c): wr_fp(addr,X); wr_fp(addr+FBY,Y); wr_fp(addr+2*FBY,Z); ctypes.c_int.from_address(addr+3*FBY).value=c
A=mem(EP); B=mem(EP); C=mem(EP)
for Z1,Z2 in ((1,1),(1,7),(5,1),(5,7),(1,2**200+3)):
    wr(A,gx*Z1%p,gy*Z1%p,Z1,2); wr(B,G2[0]*Z2%p,G2[1]*Z2%p,Z2,2)
    r=call("ep_add_projc",C,A,B)
    X,Y,Z=rd_fp(C),rd_fp(C+FBY),rd_fp(C+2*FBY); zi=pow(Z,-1,p)
    print(Z1,Z2,r,(X*zi%p,Y*zi%p)==G3, "coord",ctypes.c_int.from_address(C+3*FBY).value)
