from pr import *
ids={'NIST_256': 14, 'BSI_256': 15, 'SECG_256': 16, 'SM2_256': 17, 'BN_256': 27, 'SM9_256': 28}
rng=random.Random(int(sys.argv[1]) if len(sys.argv)>1 else 1)
res=collections.Counter(); ex={}
def rec(k,info): res[k]+=1; ex.setdefault(k,info)
for name,pid in ids.items():
    r=call("fp_param_set",pid); F=Fp(); p=F.p
    assert p.bit_length()==256, (name,p.bit_length(),r)
    def isprime(n):
        for a in (2,3,5,7,11,13,17,19,23,29,31,37):
            if pow(a,n-1,n)!=1: return False
        return True
    assert isprime(p)
    def elems():
        c=rng.randrange(12)
        if c==0: return 0
        if c==1: return 1
        if c==2: return p-1
        if c==3: return (p-1)//2
        if c==4: return (p+1)//2
        if c==5: return rng.choice([0,1,F.R-1,(1<<64)-1,1<<192,(1<<256)-1 - rng.getrandbits(10)])*F.Ri%p  # montgomery image special
        if c==6: return 1<<rng.randrange(256)
        if c==7: return pow(rng.randrange(p),2,p)
        return rng.randrange(p)
    a,b,c=F.new(),F.new(),F.new()
    two=[('fp_add_basic',lambda x,y:(x+y)%p),('fp_add_integ',lambda x,y:(x+y)%p),('fp_sub_basic',lambda x,y:(x-y)%p),('fp_sub_integ',lambda x,y:(x-y)%p),
         ('fp_mul_basic',lambda x,y:x*y%p),('fp_mul_comba',lambda x,y:x*y%p),('fp_mul_integ',lambda x,y:x*y%p),('fp_mul_karat',lambda x,y:x*y%p)]
    one=[('fp_neg_basic',lambda x:-x%p),('fp_neg_integ',lambda x:-x%p),('fp_dbl_basic',lambda x:2*x%p),('fp_dbl_integ',lambda x:2*x%p),
         ('fp_hlv_basic',lambda x:x*pow(2,-1,p)%p),('fp_hlv_integ',lambda x:x*pow(2,-1,p)%p),('fp_sqr_basic',lambda x:x*x%p),('fp_sqr_comba',lambda x:x*x%p),('fp_sqr_integ',lambda x:x*x%p),('fp_sqr_karat',lambda x:x*x%p)]
    inv=['fp_inv_basic','fp_inv_binar','fp_inv_monty','fp_inv_exgcd','fp_inv_divst','fp_inv_jmpds','fp_inv_lower']
    smb=['fp_smb_basic','fp_smb_binar','fp_smb_divst','fp_smb_jmpds','fp_smb_lower']
    for it in range(1500):
        x,y=elems(),elems(); alias=rng.randrange(3)
        for fn,f in two:
            if not has(fn): rec((fn,'absent'),0); continue
            F.wr(a,x); F.wr(b,y); out=[c,a,b][alias]; r,e=call(fn,out,a,b)
            if e: rec((name,fn,'err'),(x,y)); continue
            if F.raw(out)>=p: rec((name,fn,'noncanonical'),(x,y))
            if F.rd(out)!=f(x,y): rec((name,fn,'value','alias%d'%alias),(x,y))
            else: res['ok']+=1
        for fn,f in one:
            if not has(fn): rec((fn,'absent'),0); continue
            F.wr(a,x); out=[c,a,c][alias]; r,e=call(fn,out,a)
            if e: rec((name,fn,'err'),(x,)); continue
            if F.raw(out)>=p: rec((name,fn,'noncanonical'),(x,))
            if F.rd(out)!=f(x): rec((name,fn,'value'),(x,))
            else: res['ok']+=1
        if it%10==0:
            for fn in inv:
                if not has(fn): rec((fn,'absent'),0); continue
                F.wr(a,x); out=[c,a,c][alias]; r,e=call(fn,out,a)
                if x==0:
                    rec((name,fn,'inv0','err' if e else 'noerr:%d'%F.rd(out)),0); continue
                if e: rec((name,fn,'err'),(x,)); continue
                if F.raw(out)>=p or F.rd(out)!=pow(x,-1,p): rec((name,fn,'value'),(x,F.rd(out)))
                else: res['ok']+=1
            for fn in smb:
                if not has(fn): rec((fn,'absent'),0); continue
                F.wr(a,x); r,e=icall(fn,a); exp=0 if x==0 else (1 if pow(x,(p-1)//2,p)==1 else -1)
                if e: rec((name,fn,'err'),(x,)); continue
                if r!=exp: rec((name,fn,'value',exp),(x,r))
                else: res['ok']+=1
            F.wr(a,x); r,e=icall('fp_srt',c,a); sq=(x==0 or pow(x,(p-1)//2,p)==1)
            if e: rec((name,'fp_srt','err'),x)
            elif bool(r)!=sq: rec((name,'fp_srt','flag',sq),(x,r))
            elif sq and (F.rd(c)**2-x)%p: rec((name,'fp_srt','root'),x)
            else: res['ok']+=1
            for ev in (0,1,2,p-1,p,p+1,-1,-5,rng.getrandbits(300),1<<64):
                for fn in ('fp_exp_basic','fp_exp_slide','fp_exp_monty'):
                    F.wr(a,x); r,e=call(fn,c,a,bn(ev))
                    if x==0 and ev<0: rec((name,fn,'0^neg','err' if e else 'noerr'),0); continue
                    if e: rec((name,fn,'err','neg' if ev<0 else 'pos'),(x,ev)); continue
                    exp=pow(x,ev,p) if not (x==0 and ev==0) else 1
                    if F.rd(c)!=exp: rec((name,fn,'value','neg' if ev<0 else ('zero' if ev==0 else 'pos'),'x0' if x==0 else ''),(x,ev,F.rd(c)))
                    else: res['ok']+=1
print("ok",res.pop('ok'))
for k,v in sorted(res.items(),key=str): print(v,k,str(ex.get(k))[:90])
