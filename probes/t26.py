import random, subprocess, sys, collections
rng=random.Random(int(sys.argv[1]) if len(sys.argv)>1 else 1)
def gen_actions(depth,maxn=3,allow_block=True):
    acts=[]
    for _ in range(rng.randrange(0,maxn+1)):
        c=rng.random()
        if c<0.25: acts.append(('nop',))
        elif c<0.5: acts.append(('throw',rng.choice([2,3,6,7])))
        elif c<0.58: acts.append(('lib',))
        elif c<0.66: acts.append(('rethrow',))
        elif depth>0 and allow_block: acts.append((rng.choice(['block','hblock']),gen_block(depth-1)))
        else: acts.append(('nop',))
    return acts
def gen_block(depth):
    kind=rng.randrange(4)
    return (kind,gen_actions(depth),gen_actions(depth),gen_actions(depth) if kind>=2 else [])
def enc_actions(a):
    out=[len(a)]
    for x in a:
        if x[0]=='nop': out.append(0)
        elif x[0]=='throw': out+= [1,x[1]]
        elif x[0]=='lib': out.append(3)
        elif x[0]=='rethrow': out.append(4)
        elif x[0]=='block': out.append(2); out+=enc_block(x[1])
        elif x[0]=='hblock': out.append(5); out+=enc_block(x[1])
    return out
def enc_block(b): return [b[0]]+enc_actions(b[1])+enc_actions(b[2])+enc_actions(b[3])
class Thrown(Exception):
    def __init__(s,code): s.code=code
class M:
    def __init__(s,bug=False): s.ev=[]; s.depth=0; s.nid=0; s.any=False; s.outside=False; s.frames=[]; s.last=None; s.bug=bug; s.gcaught=0
    def throw(s,code,label,cont):
        s.ev.append(label); s.any=True
        if s.depth>0:
            if code!=1: s.frames[-1]['e']=code
            raise Thrown(code)
        if s.last is None: s.last='ERR'; s.outside=True
        s.ev.append(cont)
    def actions(s,acts):
        for x in acts:
            if x[0]=='nop': s.ev.append('nop')
            elif x[0]=='throw': s.throw(x[1],'throw %d'%x[1],'continued-after-throw')
            elif x[0]=='lib': s.throw(6,'libthrow','continued-after-libthrow')
            elif x[0]=='rethrow': s.throw(1,'rethrow','continued-after-rethrow')
            else: s.block(x[1])
    def block(s,b,order='impl'):
        kind,body,cb,fb=b; i=s.nid; s.nid+=1; s.ev.append('enter %d'%i); fr={'e':0}; caught=False
        last_before=s.last; s.last=('F',i)
        s.frames.append(fr); s.depth+=1; d0=s.depth
        try: s.actions(body)
        except Thrown: caught=True
        s.depth=d0-1; s.frames.pop(); s.last=last_before; s.gcaught=1 if caught else 0
        # nested ids: the C interpreter numbers blocks in execution order => same as here
        if kind>=2:
            s.ev.append('finally %d'%i); s.actions(fb)
        if (s.gcaught if s.bug else caught):
            s.ev.append(('handler %d'%i)+(' code %d'%fr['e'] if kind in (1,3) else '')); s.actions(cb)
        s.ev.append('exit %d chain_restored %d'%(i,1 if s.last==last_before else 0))
def model(top,bug=False):
    m=M(bug)
    try: m.actions(top)
    except Thrown: m.ev.append('UNCAUGHT')
    m.ev.append('end code1 %d code2 %d last_null %d'%(0,1 if m.any else 0,1 if m.last is None else 0))
    return m.ev
N=int(sys.argv[2]) if len(sys.argv)>2 else 3000
BUG=len(sys.argv)>3
bad=collections.Counter(); ex={}
for it in range(N):
    top=gen_actions(3,maxn=2)
    if not any(a[0] in('block','hblock') for a in top): top.append(('block',gen_block(2)))
    args=[str(x) for x in enc_actions(top)]
    r=subprocess.run(['./errprog']+args,capture_output=True,text=True)
    got=r.stdout.strip().split('\n'); exp=model(top,bug=BUG)
    if r.returncode!=0 or got!=exp:
        # classify: first differing line
        j=next((k for k,(a,b) in enumerate(zip(got,exp)) if a!=b),min(len(got),len(exp)))
        key=(('rc%d'%r.returncode) if r.returncode else '', got[j] if j<len(got) else 'EOF', 'vs', exp[j] if j<len(exp) else 'EOF')
        key=tuple(''.join(ch for ch in k if not ch.isdigit()) for k in key)
        bad[key]+=1; ex.setdefault(key,(top,got[max(0,j-3):j+2],exp[max(0,j-3):j+2]))
print("programs",N,"mismatching",sum(bad.values()))
for k,v in bad.most_common(12): print(v,k); print("    prog:",ex[k][0]); print("    got :",ex[k][1]); print("    exp :",ex[k][2])
