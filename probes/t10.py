import ctypes, hashlib, random
T = ctypes.CDLL("/var/tmp/sx/t/libvtrace.so", mode=ctypes.RTLD_GLOBAL)
L = ctypes.CDLL("/var/tmp/sx/btr/lib/librelic.so", mode=ctypes.RTLD_GLOBAL)
T.vt_disarm_calls.restype=ctypes.c_size_t; T.vt_pcs.restype=ctypes.c_size_t
CB=(ctypes.c_size_t*64)(); PB=(ctypes.c_size_t*100000)()
L.core_init()
def pctrace(f,*a):
    T.vt_arm(0,1,CB,len(CB),PB,len(PB)); r=f(*a); n=T.vt_pcs(); T.vt_disarm_calls()
    return hashlib.sha1(bytes(ctypes.string_at(ctypes.addressof(PB),8*n))).hexdigest()[:10], n, r
rng=random.Random(3)
for nd in (0,1,4,7,12):
    A=(ctypes.c_uint64*max(nd,1))(*[rng.getrandbits(64) for _ in range(max(nd,1))]); B=(ctypes.c_uint64*max(nd,1))(*[rng.getrandbits(64) for _ in range(max(nd,1))])
    res=set()
    for bit in (0,1):
        res.add(pctrace(L.dv_copy_sec,A,B,ctypes.c_size_t(nd),ctypes.c_uint64(bit))[:2])
        res.add(pctrace(L.dv_swap_sec,A,B,ctypes.c_size_t(nd),ctypes.c_uint64(bit))[:2])
    print("digits",nd,"copy/swap traces (hash,len):",res)
    C=(ctypes.c_uint64*max(nd,1))(*A)
    r1=pctrace(L.dv_cmp_sec,A,C,ctypes.c_size_t(nd))
    D=(ctypes.c_uint64*max(nd,1))(*A); 
    if nd: D[0]^=1
    r2=pctrace(L.dv_cmp_sec,A,D,ctypes.c_size_t(nd))
    E=(ctypes.c_uint64*max(nd,1))(*A)
    if nd: E[nd-1]^=1<<63
    r3=pctrace(L.dv_cmp_sec,A,E,ctypes.c_size_t(nd))
    print("   dv_cmp_sec eq/first/last:",r1,r2,r3)
    # non-ct control: dv_cmp
    print("   dv_cmp (control)        :",pctrace(L.dv_cmp,A,C,ctypes.c_size_t(nd))[:2],pctrace(L.dv_cmp,A,D,ctypes.c_size_t(nd))[:2],pctrace(L.dv_cmp,A,E,ctypes.c_size_t(nd))[:2])
a=ctypes.create_string_buffer(bytes(range(33)),33); b=ctypes.create_string_buffer(bytes(range(33)),33); c=ctypes.create_string_buffer(bytes([1])+bytes(range(1,33)),33)
print("util_cmp_sec eq/ne:",pctrace(L.util_cmp_sec,a,b,ctypes.c_size_t(33)),pctrace(L.util_cmp_sec,a,c,ctypes.c_size_t(33)))
