import ctypes, random, sys, time
exec(open('/var/tmp/sx/t/t13.py').read().split('# check fp12_mul variants')[0])
FB=32
def f2inv(a):
    d=pow((a[0]*a[0]-B*a[1]*a[1])%p,-1,p); return (a[0]*d%p,(-a[1]*d)%p)
def f2neg(a): return ((-a[0])%p,(-a[1])%p)
L.ep2_curve_get_a.restype=ctypes.c_void_p; L.ep2_curve_get_b.restype=ctypes.c_void_p
A2=tuple(rd_vec(L.ep2_curve_get_a(),2)); B2=tuple(rd_vec(L.ep2_curve_get_b(),2)); print("twist a",A2,"b",B2)
EP2=6*FB+8
Q=mem(EP2); call("ep2_curve_get_gen",Q); q=(tuple(rd_vec(Q,2)),tuple(rd_vec(Q+2*FB,2)))
def on(P): return f2sub(f2mul(P[1],P[1]),f2add(f2add(f2mul(f2mul(P[0],P[0]),P[0]),f2mul(A2,P[0])),B2))==(0,0)
print("G2 on twist:",on(q))
def add(P,Q_):
    if P is None: return Q_
    if Q_ is None: return P
    if P[0]==Q_[0]:
        if f2add(P[1],Q_[1])==(0,0): return None
        l=f2mul(f2add(f2mul((3,0),f2mul(P[0],P[0])),A2),f2inv(f2mul((2,0),P[1])))
    else: l=f2mul(f2sub(Q_[1],P[1]),f2inv(f2sub(Q_[0],P[0])))
    x=f2sub(f2sub(f2mul(l,l),P[0]),Q_[0]); return (x,f2sub(f2mul(l,f2sub(P[0],x)),P[1]))
def mul(k,P):
    Rr=None
    while k:
        if k&1: Rr=add(Rr,P)
        P=add(P,P); k>>=1
    return Rr
n=newbn(); call("ep_curve_get_ord",n); r=getbn(n)
t0=time.time(); print("[r]G2 == O:",mul(r,q) is None, "%.3fs"%(time.time()-t0))
# library [k]G2 vs model
k=newbn(); Rp=mem(EP2); rng=random.Random(3)
for v in (1,2,r-1,rng.randrange(r),r+5):
    setbn(k,v)
    for fn in ("ep2_mul_basic","ep2_mul_lwnaf","ep2_mul_monty","ep2_mul_lwreg","ep2_mul_slide"):
        rr=call(fn,Rp,Q,k)
        if L.ep2_is_infty(ctypes.c_void_p(Rp)): got=None
        else:
            call("ep2_norm",Rp,Rp); got=(tuple(rd_vec(Rp,2)),tuple(rd_vec(Rp+2*FB,2)))
        print(fn, 'k' if v>100 else v, rr[1], got==mul(v%r if False else v,q))
# g2_is_valid on random twist point (non-member) constructed by model: find x with rhs square
def f2pow(a,e):
    r_=(1,0)
    while e:
        if e&1: r_=f2mul(r_,a)
        a=f2mul(a,a); e>>=1
    return r_
def f2sqrt(a):
    # p^2 - 1 = 2^s * t ; Tonelli-Shanks in Fp2
    if a==(0,0): return a
    if f2pow(a,(p*p-1)//2)!=(1,0): return None
    q_=p*p-1; s=0
    while q_%2==0: q_//=2; s+=1
    z=(2,1)
    while f2pow(z,(p*p-1)//2)==(1,0): z=(z[0]+1,z[1])
    m=s; c=f2pow(z,q_); t=f2pow(a,q_); R_=f2pow(a,(q_+1)//2)
    while t!=(1,0):
        i=0; tt=t
        while tt!=(1,0): tt=f2mul(tt,tt); i+=1
        b_=c
        for _ in range(m-i-1): b_=f2mul(b_,b_)
        m=i; c=f2mul(b_,b_); t=f2mul(t,c); R_=f2mul(R_,b_)
    return R_
cnt=0
while cnt<3:
    x=(rng.randrange(p),rng.randrange(p)); rhs=f2add(f2add(f2mul(f2mul(x,x),x),f2mul(A2,x)),B2); y=f2sqrt(rhs)
    if y is None: continue
    cnt+=1; Pt=(x,y); member = mul(r,Pt) is None
    wr_vec(Rp,list(x)); wr_vec(Rp+2*FB,list(y)); wr_vec(Rp+4*FB,[1,0]); ctypes.c_int.from_address(Rp+6*FB).value=1
    v=call("ep2_on_curve",Rp)[0]&0xffffffff; g=call("g2_is_valid",Rp)[0]&0xffffffff
    print("random twist point: model member",member,"lib on_curve",v,"g2_is_valid",g)
v=call("g2_is_valid",Q)[0]&0xffffffff; print("generator g2_is_valid",v)
