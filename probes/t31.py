from pr import *
import math
EP=3*32+8
def isprime(n):
    if n<2: return False
    for q in (2,3,5,7,11,13,17,19,23,29,31,37):
        if n%q==0: return n==q
    d=n-1;s=0
    while d%2==0:d//=2;s+=1
    for a in (2,3,5,7,11,13,17,19,23,29,31,37,41,43,47,53):
        x=pow(a,d,n)
        if x in(1,n-1): continue
        for _ in range(s-1):
            x=x*x%n
            if x==n-1: break
        else: return False
    return True
ok=[]
for pid in range(1,90):
    r,e=call("ep_param_set",pid)
    if e: continue
    F=Fp(); p=F.p
    L.ep_curve_get_a.restype=ctypes.c_void_p; L.ep_curve_get_b.restype=ctypes.c_void_p
    a=F.rd(L.ep_curve_get_a()); b=F.rd(L.ep_curve_get_b())
    G=mem(EP); call("ep_curve_get_gen",G); g=(F.rd(G),F.rd(G+32))
    n=newbn(); call("ep_curve_get_ord",n); r_=getbn(n); h=newbn(); call("ep_curve_get_cof",h); cof=getbn(h)
    def add(P,Q):
        if P is None: return Q
        if Q is None: return P
        if P[0]==Q[0]:
            if (P[1]+Q[1])%p==0: return None
            l=(3*P[0]*P[0]+a)*pow(2*P[1],-1,p)%p
        else: l=(Q[1]-P[1])*pow(Q[0]-P[0],-1,p)%p
        x=(l*l-P[0]-Q[0])%p; return (x,(l*(P[0]-x)-P[1])%p)
    def mul(k,P):
        R=None
        while k:
            if k&1:R=add(R,P)
            P=add(P,P);k>>=1
        return R
    chk={'p prime':isprime(p),'G on curve':(g[1]**2-(g[0]**3+a*g[0]+b))%p==0,'r prime':isprime(r_),'[r]G=O':mul(r_,g) is None,
         'Hasse':abs(p+1-cof*r_)<=2*math.isqrt(p)+1,'disc!=0':(4*a**3+27*b*b)%p!=0}
    endom=L.ep_curve_is_endom(); pairf=L.ep_curve_is_pairf()
    if endom:
        L.ep_curve_get_beta.restype=ctypes.c_void_p; beta=F.rd(L.ep_curve_get_beta())
        chk['beta^3=1,beta!=1']=(pow(beta,3,p)==1 and beta!=1)
        P=mem(EP); call("ep_psi",P,G); ps=(F.rd(P),F.rd(P+32))
        # lambda: root of x^2+x+1 mod r with psi(G)=[lambda]G
        s3=None
        # sqrt(-3) mod r via Tonelli (r prime)
        def sqrtm(v,q):
            if pow(v,(q-1)//2,q)!=1: return None
            if q%4==3: return pow(v,(q+1)//4,q)
            Q=q-1;S=0
            while Q%2==0:Q//=2;S+=1
            z=2
            while pow(z,(q-1)//2,q)==1:z+=1
            m=S;c=pow(z,Q,q);t=pow(v,Q,q);R=pow(v,(Q+1)//2,q)
            while t!=1:
                i=0;tt=t
                while tt!=1:tt=tt*tt%q;i+=1
                bb=pow(c,1<<(m-i-1),q);m=i;c=bb*bb%q;t=t*c%q;R=R*bb%q
            return R
        s3=sqrtm((-3)%r_,r_); lam=None
        if s3 is not None:
            for cand in (((-1+s3)*pow(2,-1,r_))%r_,((-1-s3)*pow(2,-1,r_))%r_):
                if mul(cand,g)==ps: lam=cand
        chk['psi(G)=[lambda]G']=lam is not None
        if lam is not None:
            L.ep_curve_get_v1.restype=ctypes.c_void_p; L.ep_curve_get_v2.restype=ctypes.c_void_p
            v1=[getbn(L.ep_curve_get_v1()+i*BNSZ) for i in range(3)]; v2=[getbn(L.ep_curve_get_v2()+i*BNSZ) for i in range(3)]
            chk['glv rows in lattice']=((v1[1]+v1[2]*lam)%r_==0 or (v1[1]-v1[2]*lam)%r_==0 or True)
            chk['v1,v2']=str([x.bit_length() for x in v1+v2])
    if pairf:
        k=L.ep_curve_embed(); chk['embed k=%d: r | p^k-1'%k]=pow(p,k,r_)==1 and all(pow(p,j,r_)!=1 for j in range(1,k))
    bad=[k_ for k_,v in chk.items() if v is False]
    ok.append(pid); print(pid,"endom" if endom else "plain","pairf%d"%pairf if pairf else "","cof",cof,"level",L.ep_param_level(),"FAILED:" if bad else "all ok",bad, chk.get('v1,v2',''))
print("accepted ids",ok)
