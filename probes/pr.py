# throwaway probe helper (design phase) -- loads the scratch ASan build through ctypes
import ctypes, os, sys, random, collections, hashlib
CFG=os.environ.get('PR_CFG','bso'); SHIM=os.environ.get('PR_SHIM','libshim.so')
L = ctypes.CDLL(f"/var/tmp/sx/{CFG}/lib/librelic.so", mode=ctypes.RTLD_GLOBAL)
S = ctypes.CDLL("/var/tmp/sx/t/"+SHIM)
libc = ctypes.CDLL(None); libc.malloc.restype=ctypes.c_void_p; libc.malloc.argtypes=[ctypes.c_size_t]
S.vf_try.restype=ctypes.c_size_t; S.vf_sizeof_bn.restype=ctypes.c_size_t
M64=2**64-1
def has(name):
    try: getattr(L,name); return True
    except AttributeError: return False
def call(name,*args):
    arr=(ctypes.c_size_t*8)(*[int(a) & M64 for a in args]); err=ctypes.c_int(0)
    fn=ctypes.cast(getattr(L,name),ctypes.c_void_p).value
    r=S.vf_try(ctypes.c_void_p(fn),len(args),arr,ctypes.byref(err)); return r,err.value
def icall(name,*args):
    r,e=call(name,*args); return ctypes.c_int(r & 0xffffffff).value, e
assert L.core_init()==0
def mem(n, fill=None):
    p=libc.malloc(max(n,1))
    if fill is not None: ctypes.memset(p,fill,n)
    return p
def put(b):
    p=mem(len(b)); ctypes.memmove(p,b,len(b)); return p
def get(p,n): return ctypes.string_at(p,n)
BNSZ=S.vf_sizeof_bn(); BNCAP=34
def newbn():
    p=mem(BNSZ,0xAA); call("bn_make",p,BNCAP); return p
def setbn(p,v):
    b=abs(v).to_bytes(max(1,(abs(v).bit_length()+7)//8),'big'); call("bn_read_bin",p,put(b),len(b))
    if v<0: ctypes.c_int.from_address(p+16).value=1
    return p
def bn(v): return setbn(newbn(),v)
def getbn(p):
    used=ctypes.c_size_t.from_address(p+8).value; sign=ctypes.c_int.from_address(p+16).value
    v=int.from_bytes(ctypes.string_at(p+24,8*used),'little'); return -v if sign else v
def fpinfo():
    L.fp_prime_get.restype=ctypes.c_void_p
    FD=(int(os.environ.get('PR_FPBITS','256'))+63)//64; FB=8*FD
    p=int.from_bytes(ctypes.string_at(L.fp_prime_get(),FB),'little'); R=1<<(64*FD)
    return p,R,pow(R,-1,p),FD,FB
class Fp:
    def __init__(s): s.p,s.R,s.Ri,s.FD,s.FB=fpinfo()
    def new(s,x=None):
        a=mem(s.FB,0xAA)
        if x is not None: s.wr(a,x)
        return a
    def wr(s,a,x): ctypes.memmove(a,((x%s.p)*s.R%s.p).to_bytes(s.FB,'little'),s.FB)
    def raw(s,a): return int.from_bytes(ctypes.string_at(a,s.FB),'little')
    def rd(s,a): return s.raw(a)*s.Ri%s.p
