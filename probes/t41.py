import os
src=open('/var/tmp/sx/t/t17.py').read().split("# library [k]G2 vs model")[0]
src=src.replace("exec(open('/var/tmp/sx/t/t13.py').read().split('# check fp12_mul variants')[0])","exec(open('/var/tmp/sx/t/t13.py').read().split('# check fp12_mul variants')[0].replace('/var/tmp/sx/bso/lib','/var/tmp/sx/bsor/lib').replace('libshim.so','libshimr.so'))")
exec(src)
import collections
res=collections.Counter(); ex={}
def rec(k,info): res[k]+=1; ex.setdefault(k,info)
BASIC,PROJC,JACOB=1,2,3
rng=random.Random(16)
def neg(P): return None if P is None else (P[0],f2neg(P[1]))
def wr(addr,P,coord):
    if P is None: call("ep2_set_infty",addr); return
    if coord==BASIC: X,Y,Z=P[0],P[1],(1,0)
    else:
        Z=(rng.randrange(1,p),rng.randrange(p))
        if coord==PROJC: X,Y=f2mul(P[0],Z),f2mul(P[1],Z)
        else: Z2=f2mul(Z,Z); X,Y=f2mul(P[0],Z2),f2mul(P[1],f2mul(Z2,Z))
    wr_vec(addr,list(X)); wr_vec(addr+2*FB,list(Y)); wr_vec(addr+4*FB,list(Z)); ctypes.c_int.from_address(addr+6*FB).value=coord
def rd(addr):
    if L.ep2_is_infty(ctypes.c_void_p(addr)): return None
    X,Y,Z=tuple(rd_vec(addr,2)),tuple(rd_vec(addr+2*FB,2)),tuple(rd_vec(addr+4*FB,2)); c=ctypes.c_int.from_address(addr+6*FB).value
    zi=f2inv(Z)
    if c==BASIC: return (X,Y)
    if c==PROJC: return (f2mul(X,zi),f2mul(Y,zi))
    z2=f2mul(zi,zi); return (f2mul(X,z2),f2mul(Y,f2mul(z2,zi)))
A=mem(EP2);Bp=mem(EP2);C=mem(EP2)
pts=[None,q,mul(2,q),mul(3,q),mul(rng.randrange(r),q)]
for fn,native in (('ep2_add_basic',BASIC),('ep2_add_projc',PROJC)):
    if not hasattr(L,fn): continue
    for P in pts:
        for Q_ in pts+[P,neg(P)]:
            for ca in {BASIC,native}:
                for cb in {BASIC,native}:
                    for alias in (0,1,2):
                        wr(A,P,ca);wr(Bp,Q_,cb);out=[C,A,Bp][alias]; rr,e=call(fn,out,A,Bp)
                        cls='eq' if (P==Q_ and P) else ('opp' if P and Q_==neg(P) else ('inf' if None in (P,Q_) else 'gen'))
                        if e: rec((fn,ca,cb,cls,'err'),0); continue
                        if rd(out)!=add(P,Q_): rec((fn,ca,cb,cls,'alias%d'%alias,'WRONG'),0)
                        else: res['ok']+=1
for fn,native in (('ep2_dbl_basic',BASIC),('ep2_dbl_projc',PROJC)):
    for P in pts:
        for ca in {BASIC,native}:
            for alias in (0,1):
                wr(A,P,ca); out=[C,A][alias]; rr,e=call(fn,out,A)
                if e or rd(out)!=add(P,P): rec((fn,ca,'alias%d'%alias,'WRONG' if not e else 'err'),0)
                else: res['ok']+=1
# frobenius on subgroup = [p mod r]
for P in pts[1:]:
    wr(A,P,BASIC); rr,e=call("ep2_frb",C,A,1)
    if e or rd(C)!=mul(p%r,P): rec(('ep2_frb','!= [p mod r]P','err' if e else ''),0)
    else: res['ok']+=1
# cofactor clearing on random twist points (non-members)
def f2pow(a,e_):
    r_=(1,0)
    while e_:
        if e_&1: r_=f2mul(r_,a)
        a=f2mul(a,a); e_>>=1
    return r_
def f2sqrt(a):
    if a==(0,0): return a
    if f2pow(a,(p*p-1)//2)!=(1,0): return None
    q_=p*p-1; s=0
    while q_%2==0: q_//=2; s+=1
    z=(2,1)
    while f2pow(z,(p*p-1)//2)==(1,0): z=(z[0]+1,z[1])
    m=s; c=f2pow(z,q_); t=f2pow(a,q_); R_=f2pow(a,(q_+1)//2)
    while t!=(1,0):
        i=0; tt=t
        while tt!=(1,0): tt=f2mul(tt,tt); i+=1
        b_=c
        for _ in range(m-i-1): b_=f2mul(b_,b_)
        m=i; c=f2mul(b_,b_); t=f2mul(t,c); R_=f2mul(R_,b_)
    return R_
cnt=0
while cnt<6:
    x=(rng.randrange(p),rng.randrange(p)); rhs=f2add(f2add(f2mul(f2mul(x,x),x),f2mul(A2,x)),B2); y=f2sqrt(rhs)
    if y is None: continue
    cnt+=1; Pt=(x,y); wr(A,Pt,BASIC); rr,e=call("ep2_mul_cof",C,A); got=rd(C)
    if e: rec(('ep2_mul_cof','err'),0)
    elif got is None: rec(('ep2_mul_cof','maps_to_infinity'),0)
    elif mul(r,got) is not None: rec(('ep2_mul_cof','image_not_in_subgroup'),0)
    else: res['ok']+=1
print("ok",res.pop('ok',0))
for k_,v in sorted(res.items(),key=str): print(v,k_)
