from pr import *
S.vf_sizeof_ctx.restype=ctypes.c_size_t
rng=random.Random(15); res=collections.Counter(); ex={}
def rec(k,info): res[k]+=1; ex.setdefault(k,info)
EP=3*32+8
L.core_get.restype=ctypes.c_void_p
def curve_model():
    F=Fp(); p=F.p
    L.ep_curve_get_a.restype=ctypes.c_void_p; L.ep_curve_get_b.restype=ctypes.c_void_p
    a=F.rd(L.ep_curve_get_a()); b=F.rd(L.ep_curve_get_b()); G=mem(EP); call("ep_curve_get_gen",G); g=(F.rd(G),F.rd(G+32))
    def add(P,Q):
        if P is None: return Q
        if Q is None: return P
        if P[0]==Q[0]:
            if (P[1]+Q[1])%p==0: return None
            l=(3*P[0]*P[0]+a)*pow(2*P[1],-1,p)%p
        else: l=(Q[1]-P[1])*pow(Q[0]-P[0],-1,p)%p
        x=(l*l-P[0]-Q[0])%p; return (x,(l*(P[0]-x)-P[1])%p)
    def mul(k,P):
        R=None
        while k:
            if k&1:R=add(R,P)
            P=add(P,P);k>>=1
        return R
    return F,g,mul,G
def battery(tag):
    """sampled behavioural battery under the current context: fixed-base, variable-base, GLV, sim, hash-to-curve validity"""
    F,g,mul,G=curve_model(); nb=newbn(); call("ep_curve_get_ord",nb); n=getbn(nb); R=mem(EP); k=newbn()
    for v in (1,2,n-1,rng.randrange(n),rng.randrange(n)):
        setbn(k,v); exp=mul(v,g)
        for fn,args in (('ep_mul_gen',(R,k)),('ep_mul_lwnaf',(R,G,k)),('ep_mul_monty',(R,G,k)),('ep_mul_basic',(R,G,k))):
            r,e=call(fn,*args)
            got=None if L.ep_is_infty(ctypes.c_void_p(R)) else (F.rd(R),F.rd(R+32))
            if e or got!=exp: rec((tag,fn,'MISMATCH' if not e else 'err'),v)
            else: res['ok']+=1
    msg=b'churn'; r,e=call("ep_map",R,put(msg),len(msg)) if has('ep_map') else call("ep_map_sswum",R,put(msg),len(msg))
    got=(F.rd(R),F.rd(R+32)); 
    if e or mul(n,got) is not None: rec((tag,'map_invalid'),0)
    else: res['ok']+=1
    return got
ids=[12,13,14,15,23,24]
# 1) one context, every order of a few activations with heavy use in between
import itertools
fresh={}
for pid in ids:
    call("ep_param_set",pid); fresh[pid]=battery('fresh%d'%pid)
for perm in list(itertools.permutations(ids,3))[:40]:
    for pid in perm:
        call("ep_param_set",pid)
        # heavy use incl. pairing when available
        if L.ep_curve_is_pairf(): 
            P=mem(EP); Q=mem(6*32+8); e12=mem(12*32); call("ep_curve_get_gen",P); call("ep2_curve_get_gen",Q); call("pp_map_oatep_k12",e12,P,Q)
    h=battery('after%s'%(perm,))
    if h!=fresh[perm[-1]]: rec(('hash_differs_from_fresh',perm),0)
print("single-context churn done",flush=True)
# 2) two contexts with different curves, interleaved
old=L.core_get(); CS=S.vf_sizeof_ctx(); c2=mem(CS,0)
call("ep_param_set",12); 
L.core_set(ctypes.c_void_p(c2)); print("init ctx2",L.core_init()); call("ep_param_set",24)
for it in range(6):
    L.core_set(ctypes.c_void_p(old)); h1=battery('ctxA')
    if h1!=fresh[12]: rec(('ctxA hash differs',),0)
    # error state independence
    call("bn_div",newbn(),newbn(),bn(0)); codeA=L.err_get_code() if False else None
    L.core_set(ctypes.c_void_p(c2)); h2=battery('ctxB')
    if h2!=fresh[24]: rec(('ctxB hash differs',),0)
    # throw in A, code must not leak to B
    L.core_set(ctypes.c_void_p(old)); call("bn_div",newbn(),bn(3),bn(0)); L.core_set(ctypes.c_void_p(c2)); cb=L.err_get_code(); L.core_set(ctypes.c_void_p(old)); ca=L.err_get_code()
    if cb!=0 or ca!=1: rec(('error code leaked across contexts',ca,cb),0)
    else: res['ok']+=1
L.core_set(ctypes.c_void_p(c2)); L.core_clean(); L.core_set(ctypes.c_void_p(old))
print("ok",res.pop('ok',0))
for k_,v in sorted(res.items(),key=str): print(v,k_,str(ex.get(k_))[:80])
