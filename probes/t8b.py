import ctypes
exec(open('/var/tmp/sx/t/t8.py').read().split("seed=bytes(range(32))")[0])
S = ctypes.CDLL("/var/tmp/sx/t/libshim.so")
for f in ('vf_off_seeded','vf_off_rand','vf_off_counter'): getattr(S,f).restype=ctypes.c_size_t
L.core_get.restype=ctypes.c_void_p
ctx=L.core_get()
seed=bytes(range(40))
ctypes.c_int.from_address(ctx+S.vf_off_seeded()).value=0
L.rand_seed(ctypes.create_string_buffer(seed,len(seed)),len(seed))
D=DRBG(seed)
out=ctypes.create_string_buffer(70000)
import random
rng=random.Random(1)
bad=None
for i in range(70000):
    n = rng.choice([0,1,31,32,33,64,65,100]) if i%1000 else 1000
    L.rand_bytes(out,n)
    exp=D.gen(n)
    if out.raw[:n]!=exp:
        bad=i; break
    if i in (5,50000): 
        L.rand_seed(ctypes.create_string_buffer(b'xyz',3),3); D.reseed(b'xyz')
print("first mismatch at call", bad, "counter", ctypes.c_int.from_address(ctx+S.vf_off_counter()).value)
