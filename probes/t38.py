from pr import *
S.vf_rsa_new.restype=ctypes.c_void_p; S.vf_rsa_field.restype=ctypes.c_void_p; S.vf_rsa_field.argtypes=[ctypes.c_void_p,ctypes.c_int]
rng=random.Random(13); res=collections.Counter(); ex={}
def rec(k,info): res[k]+=1; ex.setdefault(k,info)
def mgf1(seed,l):
    o=b'';c=0
    while len(o)<l: o+=hashlib.sha256(seed+c.to_bytes(4,'big')).digest(); c+=1
    return o[:l]
H=lambda b:hashlib.sha256(b).digest(); HL=32
def pss_verify(mhash,em,embits):
    emlen=(embits+7)//8
    if len(em)!=emlen or emlen<HL+2 or em[-1]!=0xbc: return False
    db=em[:emlen-HL-1]; h=em[emlen-HL-1:-1]
    if db[0]>>(8-(8*emlen-embits))&0xff if (8*emlen-embits) else 0: return False
    dbm=mgf1(h,emlen-HL-1); DB=bytearray(a^b for a,b in zip(db,dbm)); 
    if 8*emlen-embits: DB[0]&=0xff>>(8*emlen-embits)
    # sLen = 0: DB = PS(00..) || 01
    if any(DB[:-1]) or DB[-1]!=1: return False
    return H(bytes(8)+mhash)==h
def oaep_decode(em,k):
    if len(em)!=k or em[0]!=0: return None
    ms=em[1:1+HL]; mdb=em[1+HL:]; seed=bytes(a^b for a,b in zip(ms,mgf1(mdb,HL))); db=bytes(a^b for a,b in zip(mdb,mgf1(seed,k-HL-1)))
    if db[:HL]!=H(b''): return None
    i=HL
    while i<len(db) and db[i]==0: i+=1
    if i>=len(db) or db[i]!=1: return None
    return db[i+1:]
for bits in (1024,):
    pub=S.vf_rsa_new(); prv=S.vf_rsa_new()
    rc,e=icall("cp_rsa_gen",pub,prv,bits); print("gen",rc,e)
    n=getbn(S.vf_rsa_field(pub,2)); ee=getbn(S.vf_rsa_field(pub,1)); d=getbn(S.vf_rsa_field(prv,0)); pp=getbn(S.vf_rsa_field(prv,3)); qq=getbn(S.vf_rsa_field(prv,4))
    k=(n.bit_length()+7)//8
    print("n bits",n.bit_length(),"e",ee,"p*q==n",pp*qq==n,"ed=1 mod lcm:",(ee*d)%((pp-1)*(qq-1)//__import__('math').gcd(pp-1,qq-1))==1)
    out=mem(k+16,0xAA); ol=mem(8); dec=mem(k+16,0xAA); dl=mem(8)
    # --- encryption round trips + model decode for all plaintext lengths
    maxlen=k-2*HL-2
    for ln in list(range(0,12))+[maxlen-2,maxlen-1,maxlen,maxlen+1,maxlen+5]:
        for kind in ('rand','zeros','ff'):
            pt={'rand':bytes(rng.getrandbits(8) for _ in range(ln)),'zeros':bytes(ln),'ff':b'\xff'*ln}[kind]
            ctypes.c_size_t.from_address(ol).value=k+16; rc,e=icall("cp_rsa_enc",out,ol,put(pt) if ln else put(b'\0'),ln,pub)
            if ln>maxlen:
                rec(('enc','too_long','rc%d'%rc),ln) if rc==0 else res.__setitem__('ok',res['ok']+1); continue
            if rc!=0: rec(('enc','rc%d'%rc,'len%d'%ln if ln<3 else ('max%+d'%(ln-maxlen) if ln>=maxlen-2 else 'mid'),kind),ln); continue
            cl=ctypes.c_size_t.from_address(ol).value; ct=get(out,cl)
            c=int.from_bytes(ct,'big'); em=pow(c,d,n).to_bytes(k,'big'); m=oaep_decode(em,k)
            if m!=pt: rec(('enc','model_decode_mismatch',kind),(ln,cl,None if m is None else len(m)))
            else: res['ok']+=1
            ctypes.c_size_t.from_address(dl).value=k+16; rc,e=icall("cp_rsa_dec",dec,dl,put(ct),cl,prv)
            if rc!=0 or get(dec,ctypes.c_size_t.from_address(dl).value)!=pt: rec(('dec','roundtrip','rc%d'%rc,kind,'len%d'%ln if ln<3 else 'other'),ln)
            else: res['ok']+=1
            # corrupt ciphertext
            bad=bytearray(ct); bad[rng.randrange(cl)]^=1<<rng.randrange(8); ctypes.c_size_t.from_address(dl).value=k+16
            rc,e=icall("cp_rsa_dec",dec,dl,put(bytes(bad)),cl,prv)
            md=oaep_decode(pow(int.from_bytes(bad,'big'),d,n).to_bytes(k,'big'),k)
            if (rc==0)!=(md is not None): rec(('dec','corrupt','lib_rc%d'%rc,'model_%s'%('ok' if md is not None else 'reject')),0)
            else: res['ok']+=1
    # --- signatures
    sig=mem(k+16,0xAA); sl=mem(8)
    for ln in (0,1,5,32,100,300):
        for pre in (0,1):
            msg=bytes(rng.getrandbits(8) for _ in range(32 if pre else ln))
            ctypes.c_size_t.from_address(sl).value=k+16; rc,e=icall("cp_rsa_sig",sig,sl,put(msg) if msg else put(b'\0'),len(msg),pre,prv)
            if rc!=0: rec(('sig','rc%d'%rc,'pre%d'%pre,'len%d'%ln),0); continue
            sgl=ctypes.c_size_t.from_address(sl).value; sg=get(sig,sgl); s_int=int.from_bytes(sg,'big')
            def model_ver(sigbytes,msgb):
                if len(sigbytes)!=k: return False
                si=int.from_bytes(sigbytes,'big')
                if si>=n: return False
                em=pow(si,ee,n); embits=n.bit_length()-1; emlen=(embits+7)//8
                if em.bit_length()>8*emlen: return False
                return pss_verify(msgb if pre else H(msgb),em.to_bytes(emlen,'big'),embits)
            cases=[('honest',sg,msg),('msgflip',sg,bytes([msg[0]^1])+msg[1:] if msg else b'x'),('sigflip',bytes([sg[0]])+bytes([sg[1]^4])+sg[2:],msg),
                   ('sig+N',(s_int+n).to_bytes(k+1,'big'),msg),('zero-prefixed',b'\0'+sg,msg),('truncated',sg[:-1],msg),('sig=0',bytes(k),msg),('sig=1',(1).to_bytes(k,'big'),msg),('sig=n-s',(n-s_int).to_bytes(k,'big'),msg)]
            if (s_int+n).bit_length()<=8*k: cases.append(('sig+N same len',(s_int+n).to_bytes(k,'big'),msg))
            for name,sb,mb in cases:
                rc,e=icall("cp_rsa_ver",put(sb),len(sb),put(mb) if mb else put(b'\0'),len(mb),pre,pub); exp=model_ver(sb,mb)
                if e: rec(('ver',name,'err'),0)
                elif bool(rc)!=exp: rec(('ver',name,'lib=%d model=%d'%(rc,exp),'pre%d'%pre),len(mb))
                else: res['ok']+=1
print("ok",res.pop('ok',0))
for k_,v in sorted(res.items(),key=str): print(v,k_,str(ex.get(k_))[:80])
