import ctypes, subprocess, bisect, random, hashlib, sys, collections
T = ctypes.CDLL("/var/tmp/sx/t/libvtrace.so", mode=ctypes.RTLD_GLOBAL)
L = ctypes.CDLL("/var/tmp/sx/btr/lib/librelic.so", mode=ctypes.RTLD_GLOBAL)
S = ctypes.CDLL("/var/tmp/sx/t/libshim_tr.so")
libc = ctypes.CDLL(None); libc.malloc.restype=ctypes.c_void_p; libc.malloc.argtypes=[ctypes.c_size_t]
S.vf_try.restype=ctypes.c_size_t; S.vf_sizeof_bn.restype=ctypes.c_size_t
T.vt_disarm_calls.restype=ctypes.c_size_t; T.vt_pcs.restype=ctypes.c_size_t
# symbol table
base=None
for line in open('/proc/self/maps'):
    if 'btr/lib/librelic.so' in line:
        base=int(line.split('-')[0],16); break
syms=[]
for l in subprocess.check_output(['nm','-n','--defined-only','/var/tmp/sx/btr/lib/librelic.so'],text=True).splitlines():
    p=l.split()
    if len(p)==3 and p[1] in 'tT': syms.append((int(p[0],16),p[2]))
addrs=[a for a,_ in syms]
def sym(a):
    a-=base
    i=bisect.bisect_right(addrs,a)-1
    return syms[i][1] if i>=0 else '?'
def call(name,*args):
    arr=(ctypes.c_size_t*8)(*args); err=ctypes.c_int(0)
    fn=ctypes.cast(getattr(L,name),ctypes.c_void_p).value
    r=S.vf_try(ctypes.c_void_p(fn),len(args),arr,ctypes.byref(err)); return r,err.value
print("init",L.core_init())
szbn=S.vf_sizeof_bn()
def newbn(): 
    p=libc.malloc(szbn); call("bn_make",p,34); return p
def setbn(p,v):
    b=abs(v).to_bytes(max(1,(abs(v).bit_length()+7)//8),'big'); buf=ctypes.create_string_buffer(b,len(b)); call("bn_read_bin",p,ctypes.addressof(buf),len(b))
    if v<0: call("bn_neg",p,p)
CB=(ctypes.c_size_t*4000000)(); PB=(ctypes.c_size_t*16)()
VOC=('ep_add','ep_dbl','ep_neg','ep_sub','ep_psi','ep_norm','ep_tab','ep_blind','fp_copy_sec','dv_swap_sec','dv_copy_sec','bn_mul','bn_sqr','bn_mod','ep_curve_get_ord','bn_rec')
def trace(fname, body_funcs, *args):
    T.vt_arm(1,0,CB,len(CB),PB,len(PB))
    r=call(fname,*args)
    n=T.vt_disarm_calls()
    seq=[]
    for i in range(0,n,2):
        callee=sym(CB[i]); caller=sym(CB[i+1])
        if caller in body_funcs and callee.startswith(VOC):
            seq.append(callee)
    return seq,r
EPID={'NIST_P256':None}
import re
hdr=open('/repo/include/relic_ep.h').read()
# param ids from enum order
enum=re.search(r'enum \{\s*/\*\* SECG P-160.*?\};',hdr,re.S)
def try_curve(setter):
    print(setter, L[setter]() if False else getattr(L,setter)())
rng=random.Random(7)
ep_sz=3*32+8
def run(curve_setter, fname, bodies, nbits, K=40):
    getattr(L,curve_setter)()
    n=newbn(); call("ep_curve_get_ord",n)
    out=ctypes.create_string_buffer(64); call("bn_write_bin",ctypes.addressof(out),64,n); order=int.from_bytes(out.raw,'big')
    P=libc.malloc(ep_sz); R=libc.malloc(ep_sz); call("ep_curve_get_gen",P)
    k=newbn(); seen=collections.Counter(); ex={}
    L_=order.bit_length()
    for i in range(K):
        cls=i%5
        if cls==0: v=rng.randrange(1<<(L_-1),order)
        elif cls==1: v=1<<(L_-1)
        elif cls==2: v=(1<<(L_-1))|1
        elif cls==3: v=(1<<(L_-1))|((1<<(L_-1))-1) if ((1<<L_)-1)<order else order-1
        else: v=(1<<(L_-1))|(rng.getrandbits(40)<<20)
        v%=order
        setbn(k,v)
        seq,r=trace(fname,bodies,R,P,k)
        h=hashlib.sha1(' '.join(seq).encode()).hexdigest()[:10]
        seen[(h,len(seq))]+=1; ex.setdefault(h,(cls,hex(v)))
    print(curve_setter,fname,"distinct traces:",len(seen),dict(seen)); 
    if len(seen)>1:
        for h,(c,v) in ex.items(): print("   ",h,"class",c,v[:20])
run('ep_param_set_any_plain','ep_mul_monty',{'ep_mul_monty'},256)
run('ep_param_set_any_plain','ep_mul_lwreg',{'ep_mul_lwreg','ep_mul_reg_imp'},256)
run('ep_param_set_any_endom','ep_mul_lwreg',{'ep_mul_lwreg','ep_mul_reg_glv'},256)
run('ep_param_set_any_endom','ep_mul_monty',{'ep_mul_monty'},256)
run('ep_param_set_any_plain','ep_mul_lwnaf',{'ep_mul_lwnaf','ep_mul_naf_imp'},256,K=10)
