import ctypes, random, sys, collections
L = ctypes.CDLL("/var/tmp/sx/bso/lib/librelic.so", mode=ctypes.RTLD_GLOBAL)
S = ctypes.CDLL("/var/tmp/sx/t/libshim.so")
libc = ctypes.CDLL(None); libc.malloc.restype=ctypes.c_void_p; libc.malloc.argtypes=[ctypes.c_size_t]
S.vf_try.restype=ctypes.c_size_t; S.vf_sizeof_bn.restype=ctypes.c_size_t
L.core_init()
def call(name,*args):
    arr=(ctypes.c_size_t*8)(*[a & (2**64-1) for a in args]); err=ctypes.c_int(0)
    fn=ctypes.cast(getattr(L,name),ctypes.c_void_p).value
    r=S.vf_try(ctypes.c_void_p(fn),len(args),arr,ctypes.byref(err)); return r,err.value
szbn=S.vf_sizeof_bn()
def newbn():
    p=libc.malloc(szbn); call("bn_make",p,34); return p
def setbn(p,v):
    b=abs(v).to_bytes(max(1,(abs(v).bit_length()+7)//8),'big'); buf=ctypes.create_string_buffer(b,len(b)); r=call("bn_read_bin",p,ctypes.addressof(buf),len(b))
    if v<0: call("bn_neg",p,p)
def getbn(p):
    out=ctypes.create_string_buffer(300); call("bn_write_bin",ctypes.addressof(out),300,p); v=int.from_bytes(out.raw,'big')
    return -v if ctypes.c_int.from_address(p+16).value else v
EP=3*32+8
def newep(): return libc.malloc(EP)
def getep(P):
    if L.ep_is_infty(ctypes.c_void_p(P)): return None
    out=ctypes.create_string_buffer(65); r=call("ep_write_bin",ctypes.addressof(out),65,P,0)
    return (int.from_bytes(out.raw[1:33],'big'),int.from_bytes(out.raw[33:],'big'))
class Curve:
    def __init__(s,p,a,b): s.p,s.a,s.b=p,a,b
    def add(s,P,Q):
        if P is None: return Q
        if Q is None: return P
        p=s.p
        if P[0]==Q[0]:
            if (P[1]+Q[1])%p==0: return None
            l=(3*P[0]*P[0]+s.a)*pow(2*P[1],-1,p)%p
        else: l=(Q[1]-P[1])*pow(Q[0]-P[0],-1,p)%p
        x=(l*l-P[0]-Q[0])%p; return (x,(l*(P[0]-x)-P[1])%p)
    def mul(s,k,P):
        if k<0: k=-k; P=None if P is None else (P[0],(-P[1])%s.p)
        R=None
        while k:
            if k&1: R=s.add(R,P)
            P=s.add(P,P); k>>=1
        return R
def fpget(ptr):
    # montgomery raw -> int via fp_prime_back
    t=newbn(); call("fp_prime_back",t,ptr); return getbn(t)
rng=random.Random(5)
res=collections.Counter(); ex={}
for setter in ('ep_param_set_any_plain','ep_param_set_any_endom'):
    getattr(L,setter)()
    n=newbn(); call("ep_curve_get_ord",n); order=getbn(n)
    pr=newbn(); 
    L.fp_prime_get.restype=ctypes.c_void_p; call("bn_read_raw",pr,L.fp_prime_get(),4); p=getbn(pr)
    L.ep_curve_get_a.restype=ctypes.c_void_p; L.ep_curve_get_b.restype=ctypes.c_void_p
    a=fpget(L.ep_curve_get_a()); b=fpget(L.ep_curve_get_b())
    C=Curve(p,a,b)
    G=newep(); call("ep_curve_get_gen",G); g=getep(G)
    assert (g[1]**2-(g[0]**3+a*g[0]+b))%p==0
    P=newep(); R=newep(); k=newbn(); m=newbn()
    scal=[0,1,-1,2,order-1,order,order+1,2*order,2*order+5,-order,-(order+3),order*order, (1<<256)-1,(1<<300)+12345,(1<<1000)+7, -(1<<999), rng.randrange(order), rng.getrandbits(520), 1<<255, (1<<256), 3*order-1]
    TAB=257
    Tp=libc.malloc(EP*TAB)
    for base_k in (1, 7, rng.randrange(order)):
        setbn(k,base_k); call("ep_mul_basic",P,G,k); Pm=C.mul(base_k,g)
        for v in scal:
            setbn(k,v); exp=C.mul(v,Pm)
            for fn in ('ep_mul_basic','ep_mul_slide','ep_mul_monty','ep_mul_lwnaf','ep_mul_lwreg'):
                r,e=call(fn,R,P,k)
                cls='in' if 0<=v<order else ('neg' if v<0 else 'big')
                if e: res[(setter[-5:],fn,cls,'err%d'%e)]+=1; ex.setdefault((setter[-5:],fn,cls,'err%d'%e),v); continue
                got=getep(R)
                if got!=exp: res[(setter[-5:],fn,cls,'WRONG')]+=1; ex.setdefault((setter[-5:],fn,cls,'WRONG'),v)
                else: res[(setter[-5:],fn,cls,'ok')]+=1
            for pre,fix in (('basic','basic'),('combs','combs'),('combd','combd'),('lwnaf','lwnaf')):
                call('ep_mul_pre_'+pre,Tp,P)
                r,e=call('ep_mul_fix_'+fix,R,Tp,k)
                cls='in' if 0<=v<order else ('neg' if v<0 else 'big'); key=(setter[-5:],'fix_'+fix,cls)
                if e: res[key+('err%d'%e,)]+=1; ex.setdefault(key+('err%d'%e,),v); continue
                got=getep(R)
                if got!=exp: res[key+('WRONG',)]+=1; ex.setdefault(key+('WRONG',),v)
                else: res[key+('ok',)]+=1
for k_,v in sorted(res.items()):
    if k_[-1]!='ok': print(v,k_,hex(ex[k_])[:40])
print("ok total",sum(v for k_,v in res.items() if k_[-1]=='ok'))
