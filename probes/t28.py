from pr import *
rng=random.Random(5); res=collections.Counter(); ex={}
def rec(k,info): res[k]+=1; ex.setdefault(k,info)
M=283; FD=5; FBY=40
L.fb_poly_get.restype=ctypes.c_void_p
def rdb(a): return int.from_bytes(get(a,FBY),'little')
def wrb(a,x): ctypes.memmove(a,x.to_bytes(FBY,'little'),FBY)
def newfb(x=None):
    a=mem(FBY,0xAA)
    if x is not None: wrb(a,x)
    return a
def clmul(a,b):
    if a.bit_length()<b.bit_length(): a,b=b,a
    tab=[0]*16
    for i in range(1,16): tab[i]=(tab[i>>1]<<1)^(a if i&1 else 0)
    r=0
    for sh in range(((b.bit_length()+3)//4)*4-4,-1,-4): r=(r<<4)^tab[(b>>sh)&15]
    return r
for setter in ('eb_param_set_any_plain','eb_param_set_any_kbltz'):
    print(setter,getattr(L,setter)())
    f=rdb(L.fb_poly_get()); assert f.bit_length()==M+1, hex(f)
    MASK=(1<<M)-1; flow=f^(1<<M); fbits=[i for i in range(flow.bit_length()) if (flow>>i)&1]
    def red(x):
        while x>>M:
            h=x>>M; x&=MASK
            for i in fbits: x^=h<<i
        return x
    def fmul(a,b): return red(clmul(a,b))
    def fsqr(a): return red(int(bin(a)[2:],4)) if a else 0
    def fpow(a,e):
        r=1
        while e:
            if e&1:r=fmul(r,a)
            a=fsqr(a);e>>=1
        return r
    def finv(a):
        u,v,g1,g2=a,f,1,0
        while u!=1:
            j=u.bit_length()-v.bit_length()
            if j<0: u,v,g1,g2=v,u,g2,g1; j=-j
            u^=v<<j; g1^=g2<<j
        return red(g1)
    tmask=0
    for i in range(M):
        t=1<<i; acc=t
        for _ in range(M-1): t=fsqr(t); acc^=t
        assert acc in (0,1); tmask|=acc<<i
    def tr(a): return bin(a&tmask).count('1')&1
    def el():
        c=rng.randrange(8)
        return [0,1,1<<(M-1),(1<<M)-1,1<<rng.randrange(M),rng.getrandbits(M),rng.getrandbits(M),rng.getrandbits(64)][c]
    a,b,c=newfb(),newfb(),newfb()
    if setter.endswith('plain'):
        for it in range(400):
            x,y=el(),el(); alias=rng.randrange(3)
            for fn in ('fb_mul_basic','fb_mul_integ','fb_mul_lodah','fb_mul_karat'):
                if not has(fn): rec((fn,'absent'),0); continue
                wrb(a,x);wrb(b,y);out=[c,a,b][alias]; r,e=call(fn,out,a,b)
                if e or rdb(out)!=fmul(x,y): rec((fn,'value','err' if e else ''),(hex(x),hex(y)))
                else: res['ok']+=1
            for fn in ('fb_sqr_basic','fb_sqr_integ','fb_sqr_quick'):
                if not has(fn): rec((fn,'absent'),0); continue
                wrb(a,x); out=[c,a,c][alias]; r,e=call(fn,out,a)
                if e or rdb(out)!=fmul(x,x): rec((fn,'value'),hex(x))
                else: res['ok']+=1
            if it%4==0:
                for fn in ('fb_inv_basic','fb_inv_binar','fb_inv_exgcd','fb_inv_almos','fb_inv_itoht','fb_inv_bruch','fb_inv_ctaia','fb_inv_lower'):
                    if not has(fn): rec((fn,'absent'),0); continue
                    wrb(a,x); out=[c,a,c][alias]; r,e=call(fn,out,a)
                    if x==0: rec((fn,'inv0','err' if e else 'noerr=%x'%rdb(out)),0); continue
                    if e or rdb(out)!=finv(x): rec((fn,'value','err' if e else ''),hex(x))
                    else: res['ok']+=1
                for fn in ('fb_srt_basic','fb_srt_quick'):
                    wrb(a,x); r,e=call(fn,c,a)
                    if e or fmul(rdb(c),rdb(c))!=x: rec((fn,'value'),hex(x))
                    else: res['ok']+=1
                for fn in ('fb_trc_basic','fb_trc_quick'):
                    wrb(a,x); r,e=call(fn,a); r&=0xff
                    if e or r!=tr(x): rec((fn,'value'),(hex(x),r,tr(x)))
                    else: res['ok']+=1
                for fn in ('fb_slv_basic','fb_slv_quick'):
                    wrb(a,x); r,e=call(fn,c,a); z=rdb(c)
                    if tr(x)==0:
                        if e or fmul(z,z)^z!=x: rec((fn,'value','tr0'),hex(x))
                        else: res['ok']+=1
                    else: rec((fn,'tr1','err' if e else 'noerr'),0)
    # curve
    EB=3*FBY+8
    L.eb_curve_get_a.restype=ctypes.c_void_p; L.eb_curve_get_b.restype=ctypes.c_void_p
    A_=rdb(L.eb_curve_get_a()); B_=rdb(L.eb_curve_get_b())
    def add(P,Q):
        if P is None: return Q
        if Q is None: return P
        x1,y1=P;x2,y2=Q
        if x1==x2:
            if y1^y2==x1: return None    # Q = -P  (includes x=0 doubling of order-2 point)
            if x1==0: return None
            l=x1^fmul(y1,finv(x1)); x3=fmul(l,l)^l^A_; y3=fmul(x1,x1)^fmul(l^1,x3); return (x3,y3)
        l=fmul(y1^y2,finv(x1^x2)); x3=fmul(l,l)^l^x1^x2^A_; y3=fmul(l,x1^x3)^x3^y1; return (x3,y3)
    def neg(P): return None if P is None else (P[0],P[0]^P[1])
    def mul(k,P):
        if k<0:k=-k;P=neg(P)
        R=None
        while k:
            if k&1:R=add(R,P)
            P=add(P,P);k>>=1
        return R
    G=mem(EB); call("eb_curve_get_gen",G); g=(rdb(G),rdb(G+FBY))
    assert fmul(g[1],g[1])^fmul(g[0],g[1])==fmul(fmul(g[0],g[0]),g[0])^fmul(A_,fmul(g[0],g[0]))^B_
    n=newbn(); call("eb_curve_get_ord",n); order=getbn(n); print("  [r]G=O:",mul(order,g) is None,"order bits",order.bit_length())
    def wr(addr,P):
        if P is None: call("eb_set_infty",addr); return
        wrb(addr,P[0]);wrb(addr+FBY,P[1]);wrb(addr+2*FBY,1); ctypes.c_int.from_address(addr+3*FBY).value=1
    def rd(addr):
        if L.eb_is_infty(ctypes.c_void_p(addr)): return None
        call("eb_norm",addr,addr); return (rdb(addr),rdb(addr+FBY))
    P_=mem(EB);Q_=mem(EB);R_=mem(EB);k=newbn()
    o2=(0,fpow(B_,1<<(M-1)))  # point of order 2: x=0,y=sqrt(b)
    pts=[None,g,mul(2,g),mul(3,g),mul(rng.randrange(order),g),o2,add(g,o2)]
    for fn in ('eb_add_basic','eb_add_projc'):
        for P in pts:
            for Q in pts+[P,neg(P)]:
                for alias in (0,1,2):
                    wr(P_,P);wr(Q_,Q);out=[R_,P_,Q_][alias]; r,e=call(fn,out,P_,Q_)
                    if e: rec((setter[-5:],fn,'err'),0); continue
                    if rd(out)!=add(P,Q): rec((setter[-5:],fn,'WRONG','alias%d'%alias,'Pidx%d'%pts.index(P),'Qidx%s'%(pts.index(Q) if Q in pts else 'x')),0)
                    else: res['ok']+=1
    for P in pts:
        for fn in ('eb_dbl_basic','eb_dbl_projc'):
            wr(P_,P); r,e=call(fn,R_,P_)
            if e or rd(R_)!=add(P,P): rec((setter[-5:],fn,'WRONG','Pidx%d'%pts.index(P)),0)
            else: res['ok']+=1
        if P is not None and P in (g,pts[2],pts[3],pts[4]):
            wr(P_,P); call("eb_dbl_basic",R_,P_); r,e=call("eb_hlv",Q_,R_)
            if e or rd(Q_)!=P: rec((setter[-5:],'eb_hlv','not_inverse_of_dbl'),0)
            else: res['ok']+=1
            wr(P_,P); r,e=call("eb_frb",R_,P_)
            if has("eb_frb") and not e:
                if setter.endswith('kbltz') and rd(R_)!=(fmul(P[0],P[0]),fmul(P[1],P[1])): rec((setter[-5:],'eb_frb','WRONG'),0)
                else: res['ok']+=1
    scal=[0,1,-1,2,order-1,order,order+1,2*order+3,-order,rng.randrange(order),rng.randrange(order),rng.getrandbits(300),1<<282]
    for P in (g,mul(5,g)):
        for v in scal:
            for fn in ('eb_mul_basic','eb_mul_lodah','eb_mul_lwnaf','eb_mul_rwnaf','eb_mul_halve'):
                wr(P_,P); setbn(k,v); r,e=call(fn,R_,P_,k); cls='in' if 0<=v<order else ('neg' if v<0 else 'big')
                if e: rec((setter[-5:],fn,cls,'err'),v); continue
                if rd(R_)!=mul(v,P): rec((setter[-5:],fn,cls,'WRONG'),hex(v)[:30])
                else: res['ok']+=1
print("ok",res.pop('ok'))
for k_,v in sorted(res.items(),key=str): print(v,k_,str(ex.get(k_))[:120])
