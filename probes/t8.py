import ctypes, hashlib, sys
L = ctypes.CDLL("/var/tmp/sx/bso/lib/librelic.so", mode=ctypes.RTLD_GLOBAL)
L.core_init()
SEEDLEN=55
def hash_df(data, n):
    out=b''; c=1
    while len(out)<n:
        out+=hashlib.sha256(bytes([c])+(n*8).to_bytes(4,'big')+data).digest(); c+=1
    return out[:n]
class DRBG:
    def __init__(s, seed):
        s.V=hash_df(seed,SEEDLEN); s.C=hash_df(b'\0'+s.V,SEEDLEN); s.ctr=1
    def reseed(s, data):
        s.V=hash_df(b'\1'+s.V+data,SEEDLEN); s.C=hash_df(b'\0'+s.V,SEEDLEN); s.ctr=1
    def gen(s,n):
        out=b''; d=int.from_bytes(s.V,'big')
        while len(out)<n:
            out+=hashlib.sha256(d.to_bytes(SEEDLEN,'big')).digest(); d=(d+1)%(1<<(8*SEEDLEN))
        H=hashlib.sha256(b'\3'+s.V).digest()
        v=(int.from_bytes(s.V,'big')+int.from_bytes(H,'big')+int.from_bytes(s.C,'big')+s.ctr)%(1<<(8*SEEDLEN))
        s.V=v.to_bytes(SEEDLEN,'big'); s.ctr+=1
        return out[:n]
seed=bytes(range(32))
buf=ctypes.create_string_buffer(seed,32)
# force reseed-from-scratch: set seeded=0? rand_init seeds already; emulate reseed instead
# we can't reset 'seeded' without offsets; so use clean+init trick: core_clean/core_init reseeds from SEED= (none?) 
L.rand_seed(buf,32)
# Unknown prior state => instead test from our own instantiate by zeroing 'seeded': find via brute force not possible; skip and test reseed path needs V. 
