from pr import *
import math
rng=random.Random(1)
A,Bn,C,D,E=[newbn() for _ in range(5)]
n=0
for it in range(20000):
    x=rng.getrandbits(rng.choice([64,128,640,700,1000,1024])); y=rng.getrandbits(rng.choice([1,40,64,128,640,1000]))|1
    sh=rng.choice([0,0,0,1,5,64,70]); x<<=sh; 
    if rng.random()<0.3: y<<=rng.choice([1,3,64])
    setbn(A,x); setbn(Bn,y); r,e=call("bn_gcd_ext_binar",C,D,E,A,Bn)
    if e:
        n+=1
        if n<6: print("err",e,"x bits",x.bit_length(),"tz",(x&-x).bit_length()-1 if x else -1,"y bits",y.bit_length(),"tz",(y&-y).bit_length()-1)
print("errors",n)
