from pr import *
import math
rng=random.Random(int(sys.argv[1]) if len(sys.argv)>1 else 1)
res=collections.Counter(); ex={}
def rec(k,info): res[k]+=1; ex.setdefault(k,info)
W=64;B=1<<64
def pat():
    c=rng.randrange(8)
    return [0,B-1,1<<rng.randrange(64),B>>1,(B>>1)+1,rng.randrange(B),rng.randrange(B),1][c]
def operand(maxd,neg=True,minv=0):
    nd=rng.choice([0,1,1,2,3,rng.randrange(0,maxd+1),maxd]); v=0
    for i in range(nd): v=(v<<64)|pat()
    v=max(v,minv)
    if neg and rng.random()<0.3: v=-v
    return v
def jacobi(a,n):
    a%=n; r=1
    while a:
        while a%2==0:
            a//=2
            if n%8 in (3,5): r=-r
        a,n=n,a
        if a%4==3 and n%4==3: r=-r
        a%=n
    return r if n==1 else 0
A,Bn,C,D,E,U=[newbn() for _ in range(6)]
def sgn(v): return 'neg' if v<0 else ('zero' if v==0 else 'pos')
for it in range(4000):
    a=operand(16); m=operand(8,neg=False,minv=2); 
    # --- reductions
    setbn(A,a); setbn(Bn,m)
    r,e=call("bn_mod_basic",C,A,Bn)
    if e: rec(('mod_basic','err',sgn(a)),(a,m))
    elif getbn(C)!=a%m: rec(('mod_basic','value',sgn(a)),(a,m,getbn(C)))
    else: res['ok']+=1
    # barrett: a < m^2 ? documented for any? test 0<=a<m^2
    aa=abs(a)%(m*m)
    setbn(A,aa); call("bn_mod_pre_barrt",U,Bn); r,e=call("bn_mod_barrt",C,A,Bn,U)
    if e: rec(('mod_barrt','err'),(aa,m))
    elif getbn(C)!=aa%m: rec(('mod_barrt','value','m bits %d'%(m.bit_length()%64)),(aa,m,getbn(C)))
    else: res['ok']+=1
    if m%2:
        call("bn_mod_pre_monty",U,Bn)
        for fn in ("bn_mod_monty_basic","bn_mod_monty_comba"):
            x=rng.randrange(m); setbn(A,x); call("bn_mod_monty_conv",C,A,Bn); 
            k=(m.bit_length()+63)//64
            if getbn(C)!=x*(1<<(64*k))%m: rec(('monty_conv','value'),(x,m)); 
            y=rng.randrange(m); setbn(D,y); call("bn_mod_monty_conv",D,D,Bn); call("bn_mul_comba",E,C,D); r,e=call(fn,E,E,Bn,U); call("bn_mod_monty_back",E,E,Bn)
            if e: rec((fn,'err'),(x,y,m))
            elif getbn(E)!=x*y%m: rec((fn,'value'),(x,y,m))
            else: res['ok']+=1
    # --- mxp
    if it%8==0:
        x=operand(8); ev=rng.choice([0,1,2,-1,-3,operand(4,neg=False),operand(9,neg=False)])
        for fn in ("bn_mxp_basic","bn_mxp_slide","bn_mxp_monty"):
            setbn(A,x); setbn(D,ev); setbn(Bn,m); r,e=call(fn,C,A,D,Bn)
            g=math.gcd(x,m)
            if ev<0 and g!=1:
                rec((fn,'neg_exp_noninvertible','err' if e else 'noerr'),0); continue
            if e: rec((fn,'err',sgn(x),sgn(ev),'modd' if m%2 else 'meven'),(x,ev,m)); continue
            exp=pow(x,ev,m)
            if getbn(C)!=exp: rec((fn,'value',sgn(x),sgn(ev),'modd' if m%2 else 'meven'),(x,ev,m,getbn(C)))
            else: res['ok']+=1
    # --- gcd family
    x=operand(10); y=operand(10)
    for fn in ("bn_gcd_basic","bn_gcd_lehme","bn_gcd_binar"):
        setbn(A,x); setbn(Bn,y); r,e=call(fn,C,A,Bn)
        if e: rec((fn,'err',sgn(x),sgn(y)),(x,y))
        elif getbn(C)!=math.gcd(x,y): rec((fn,'value',sgn(x),sgn(y)),(x,y,getbn(C)))
        else: res['ok']+=1
    for fn in ("bn_gcd_ext_basic","bn_gcd_ext_lehme","bn_gcd_ext_binar"):
        setbn(A,x); setbn(Bn,y); r,e=call(fn,C,D,E,A,Bn)
        if e: rec((fn,'err',sgn(x),sgn(y)),(x,y)); continue
        g,d_,e_=getbn(C),getbn(D),getbn(E)
        if g!=math.gcd(x,y): rec((fn,'gcd',sgn(x),sgn(y)),(x,y,g))
        elif d_*x+e_*y!=g: rec((fn,'bezout',sgn(x),sgn(y),'lt' if abs(x)<abs(y) else 'ge'),(x,y,g,d_,e_))
        else: res['ok']+=1
    # --- inverse
    setbn(A,x); setbn(Bn,m); r,e=call("bn_mod_inv",C,A,Bn)
    if math.gcd(x,m)!=1: rec(('mod_inv','noninvertible','err' if e else 'noerr'),0)
    elif e: rec(('mod_inv','err',sgn(x),'modd' if m%2 else 'meven'),(x,m))
    elif getbn(C)!=pow(x,-1,m): rec(('mod_inv','value',sgn(x),'modd' if m%2 else 'meven','x>m' if abs(x)>m else ''),(x,m,getbn(C)))
    else: res['ok']+=1
    # --- jacobi / sqrt / lcm
    mo=m|1; setbn(A,x); setbn(Bn,mo); r,e=icall("bn_smb_jac",A,Bn)
    if e: rec(('smb_jac','err',sgn(x)),(x,mo))
    elif r!=jacobi(x,mo): rec(('smb_jac','value',sgn(x),'x>m' if abs(x)>mo else ''),(x,mo,r,jacobi(x,mo)))
    else: res['ok']+=1
    xa=abs(x); setbn(A,xa); r,e=call("bn_srt",C,A)
    if e: rec(('srt','err'),xa)
    elif getbn(C)!=math.isqrt(xa): rec(('srt','value'),(xa,getbn(C)))
    else: res['ok']+=1
    setbn(A,x); setbn(Bn,y); r,e=call("bn_lcm",C,A,Bn)
    l=0 if x==0 or y==0 else abs(x*y)//math.gcd(x,y)
    if e: rec(('lcm','err',sgn(x),sgn(y)),(x,y))
    elif abs(getbn(C))!=l: rec(('lcm','value',sgn(x),sgn(y)),(x,y,getbn(C)))
    else: res['ok']+=1
print("ok",res.pop('ok'))
for k,v in sorted(res.items(),key=str): print(v,k,str(ex.get(k))[:110])
