p=2**256-2**224+2**192+2**96-1; a=-3%p
b=0x5ac635d8aa3a93e7b3ebbd55769886bc651d06b0cc53b0f63bce3c3e27d2604b
gx=0x6b17d1f2e12c4247f8bce6e563a440f277037d812deb33a0f4a13945d898c296; gy=0x4fe342e2fe1a7f9b8ee7eb4a7c0f9e162bce33576b315ececbb6406837bf51f5
def add(P,Q):
    if P[0]==Q[0]: l=(3*P[0]*P[0]+a)*pow(2*P[1],-1,p)%p
    else: l=(Q[1]-P[1])*pow(Q[0]-P[0],-1,p)%p
    x=(l*l-P[0]-Q[0])%p; return (x,(l*(P[0]-x)-P[1])%p)
G=(gx,gy); G2=add(G,G); G3=add(G2,G)
def code_min3(P,Q):
    X1,Y1,Z1=P; X2,Y2,Z2=Q
    t0=X1*X2%p; t1=Y1*Y2%p; t2=Z1*Z2%p; t3=(X1+Y1)%p; t4=(X2+Y2)%p; t3=t3*t4%p; t4=(t0+t1)%p; t3=(t3-t4)%p
    t4=(Y1+Z1)%p; t5=(Y2+Z2)%p; t4=t4*t5%p; t5=(t1+t2)%p; t4=(t4-t5)%p
    rx=(X1+Z1)%p; ry=(X2+Z2)%p; rx=rx*ry%p; ry=(t0+t2)%p; ry=(rx-ry)%p
    rz=b*t2%p; rx=(ry-rz)%p; rz=2*rx%p; rx=(rx+rz)%p; rz=(t1-rx)%p; rx=(t1+rx)%p
    ry=b*ry%p; t1=2*t2%p; t2=(t1+t2)%p; ry=(ry-t2)%p; ry=(ry-t0)%p; t1=2*ry%p; ry=(t1+ry)%p
    t1=2*t0%p; t0=(t1+t0)%p; t0=(t0-t2)%p; t1=t4*ry%p; t2=t0*ry%p; ry=rx*rz%p; ry=(ry+t2)%p
    rx=t3*rx%p; rx=(rx-t1)%p; rz=t4*rz%p; t1=t3*t0%p; rz=(rz+t1)%p
    zi=pow(rz,-1,p); return (rx*zi%p, ry*zi%p)
Z=123456789
print(code_min3((gx,gy,1),(G2[0]*Z%p,G2[1]*Z%p,Z))==G3, code_min3((gx*5%p,gy*5%p,5),(G2[0]*Z%p,G2[1]*Z%p,Z))==G3)
