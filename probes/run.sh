#!/bin/bash
# usage: run.sh script.py [args]  -- exploration mode: recoverable sanitizers, reports to san.log.*
rm -f /var/tmp/sx/t/san.log.*
PR_CFG=bsor PR_SHIM=libshimr.so LD_PRELOAD=$(gcc -print-file-name=libasan.so):$(gcc -print-file-name=libubsan.so) ASAN_OPTIONS=detect_leaks=0:halt_on_error=0:log_path=/var/tmp/sx/t/san.log UBSAN_OPTIONS=log_path=/var/tmp/sx/t/san.log /usr/bin/python3 "$@" 2>&1 | grep -v "^$\|ERROR in\|CAUGHT in\|Call stack\|  #[0-9]"
echo "--- sanitizer reports:"; cat /var/tmp/sx/t/san.log.* 2>/dev/null | grep -E "runtime error|ERROR: AddressSanitizer|SUMMARY" | sed 's/^.*\/repo/\/repo/' | sort | uniq -c | sort -rn | head -20
