#!/usr/bin/env python3
"""Design artefact: inventory of RELIC's public entry points and the property each falls under.

Parses the prototypes in /repo/include/relic_*.h (not relic_label.h) and assigns every function
to one of the properties C01..C20 by module prefix and name.  The later framework uses the same
rules as the denominator of its per-property function-coverage figure in the evidence files.
Run:  python3 design/api_inventory.py > design/api_inventory.json
"""
import re, glob, json, sys, collections
REPO = sys.argv[1] if len(sys.argv) > 1 else '/repo'
C01 = set('add sub add_dig sub_dig mul_dig mul_basic mul_comba mul_karat sqr_basic sqr_comba sqr_karat dbl hlv lsh rsh div div_rem div_dig div_rem_dig mod_2b mod_dig neg abs sign zero is_zero is_even bits get_bit set_bit ham get_dig set_dig set_2b copy cmp cmp_abs cmp_dig trim'.split())
C07_IO = re.compile(r'(read|write|size)_(bin|str|raw)$|_(pck|upk)(_max)?$|^util_conv|print$')
def prop(name):
    m = re.match(r'([a-z]+[0-9]*)_(.*)', name); pre, rest = (m.group(1), m.group(2)) if m else (name, '')
    if name in ('dv_copy_sec','dv_swap_sec','dv_cmp_sec','util_cmp_sec') or rest == 'copy_sec': return 'C20'
    if C07_IO.search(name) and pre not in ('cp','md','bc','rand','util','bench','test','arch','err','core'): return 'C07'
    if pre == 'bn':
        if rest in C01: return 'C01'
        if rest in ('rand','rand_mod'): return 'C15'
        if rest in ('make','clean','grow'): return 'C08'
        return 'C09'
    if pre == 'dv': return 'C08'
    if pre == 'fp':
        if rest.startswith(('param','prime_init','prime_clean','prime_set','prime_calc','prime_get')): return 'C18'
        return 'C02'
    if re.fullmatch(r'fp(2|3|4|6|8|9|12|16|18|24|48|54)', pre): return 'C18' if rest.startswith('field') else 'C10'
    if pre == 'ep' or pre == 'ec':
        if rest.startswith('map'): return 'C13'
        if rest.startswith(('param','curve')): return 'C18'
        return 'C03'
    if re.fullmatch(r'ep(2|3|4|8)', pre):
        if rest.startswith('map'): return 'C13'
        if rest.startswith('curve'): return 'C18'
        return 'C11'
    if pre == 'pp': return 'C04'
    if pre in ('g1','g2','gt','pc'):
        if 'map' in rest and pre == 'pc': return 'C04'
        if rest in ('mul_lcl','mul_bct','mul_mpc','exp_lcl','exp_bct','exp_mpc','map_tri','map_lcl','map_bct','map_mpc'): return 'C06'
        return 'C12'
    if pre == 'cp':
        sig = r'^cp_(bls|bbs|zss|cls|cli|clb|pss|psb|mpss|mpsb|vbnn|pokdl|pokor|sokdl|sokor|ers|smlers|etrs|cmlhs|mklhs|ecdsa|ecss)_|^cp_rsa_(sig|ver)$'
        return 'C05' if re.search(sig, name) else 'C06'
    if pre in ('mpc','mt'): return 'C06'
    if pre in ('md','bc'): return 'C14'
    if pre == 'rand': return 'C15'
    if pre in ('fb','fb2','eb'):
        if rest.startswith('map'): return 'C13'
        if rest.startswith(('param','poly_init','poly_clean','poly_set','curve')): return 'C18'
        return 'C16'
    if pre == 'ed':
        if rest.startswith('map'): return 'C13'
        if rest.startswith(('param','curve')): return 'C18'
        return 'C17'
    if pre in ('core','err'): return 'C19'
    return None          # util_*, arch_*, bench_*, test_*, conf_print: out of scope
funcs = {}
for f in sorted(glob.glob(REPO + '/include/relic_*.h')):
    if f.endswith(('relic_label.h', 'relic_bench.h', 'relic_test.h')): continue
    s = re.sub(r'/\*.*?\*/', '', open(f).read(), flags=re.S)
    s = re.sub(r'^\s*#.*$', '', s, flags=re.M)
    for m in re.finditer(r'^([A-Za-z_][\w\s\*]*?[\s\*])(\w+)\s*\(([^;{}()]*)\)\s*;', s, re.M):
        ret, name, args = m.group(1).strip(), m.group(2), ' '.join(m.group(3).split())
        if ret.startswith(('typedef', 'return', 'else')) or name in ('if', 'while', 'for', 'switch', 'sizeof'): continue
        params = [] if args in ('', 'void') else [a.strip() for a in args.split(',')]
        funcs[name] = {'header': f.split('/')[-1], 'ret': ret, 'params': params, 'property': prop(name)}
by = collections.Counter(v['property'] for v in funcs.values())
json.dump({'summary': {k if k else 'out_of_scope': n for k, n in sorted(by.items(), key=lambda kv: str(kv[0]))},
           'max_arity': max(len(v['params']) for v in funcs.values()),
           'functions': dict(sorted(funcs.items()))}, sys.stdout, indent=0)
