"""C06 - encryption, key agreement and sharing invert correctly; bad input is rejected.

Oracles: round trips on every admissible plaintext length; RSA paddings decoded / produced by an independent
RFC 8017 model using the library's own keys; homomorphic identities against integer arithmetic modulo the
plaintext modulus; decryptions verified through the defining congruence with the private key (c^l = g^(m l));
ECDH / ECMQV keys recomputed over the curve model + KDF2 (ECDH as cofactor
Diffie-Hellman [h d]Q also for peer keys outside the prime-order subgroup); ECIES keys and tags recomputed (KDF2 + HMAC); Shamir
shares checked against Lagrange interpolation; PSI against Python set intersection; pairing-based protocols
(IBE, BGN, SOK, delegation, MPC pairing) against lower-layer pairing primitives.  Corrupted ciphertexts must
never decrypt to the original plaintext with RLC_OK.
"""
import ctypes
import itertools
import math
import time

from ..rt import MonitorViolation
from ..ctx import hx
from ..model import cprt
from ..model.cprt import PX, H, kdf2, hmac256
from ..model.curves import is_probable_prime, sqrt_mod
from ..model import mdbc

LEVEL = "exploration"
RULE = ("per scheme: keys from the scheme's own key generation (several sizes); plaintexts of every admissible length "
        "(min..max for the key, random / all-zero / all-0xFF / leading-zero), boundary integers 0, 1, n-1, n/2 and operands "
        "whose sums wrap the plaintext modulus; every threshold (k, n) with k <= n <= 6 and every k-subset of shares; "
        "receiver / sender sets of 0..4 elements with every overlap size; every single-byte mutation of ciphertexts and "
        "tags, wrong lengths, model-built RSA ciphertexts with crafted paddings; every condition a decoder checks (OAEP "
        "lHash / PS / separator / leading octet, the v1.5 and basic blocks, the Rabin redundancy and marker, the ECIES tag and "
        "the padding under a right tag, all built by the models) violated in each structured way of alterations(): one octet "
        "first / last / inner, one bit, two or three octets whose differences cancel under xor or addition or are "
        "complementary, exchanged octets, inverted, reversed, rotated, one half only, zero; on curves with cofactor h > 1 "
        "(Curve25519 h = 8, B12-381) ECDH with peer keys Q + T and T alone, T = [n]R of order 2, 4, 8 or a larger divisor of "
        "h; tampered helper answers in pairing delegation; a case is non-trivial when a library routine is invoked; distinct = distinct (routine, class, inputs)")
ASSUMPTIONS = ["Python integers, hashlib / hmac and the curve model are the reference; MGF1, KDF2, OAEP and EME-PKCS1-v1_5 "
               "follow RFC 8017 / IEEE 1363",
               "ECDH / ECMQV shared secrets are converted to octets as fixed-length field elements (SEC 1 2.3.5) before the "
               "KDF; ECIES keys follow the conversion the source documents as deliberate (BigInteger-style x-coordinate, "
               "KDF2, AES-128-CBC with zero IV, HMAC-SHA-256 over the body) - the AES layer itself is judged by C14",
               "model-built ECIES ciphertexts use the FIPS 197 / PKCS#7 model of verif/model/mdbc.py; cp_ecdh_key is cofactor "
               "Diffie-Hellman (it multiplies the peer point by the cofactor), so its value is defined for every point of the "
               "curve; ECMQV and ECIES have no cofactor step and are only judged with points of the prime-order subgroup",
               "pairing-based protocols are judged with pc_map, g1/g2/gt arithmetic, hash-to-curve and gt_write_bin of the "
               "library (monitored by C04 C07 C12 C13), never with the cp_* routine under test",
               "plaintext spaces: RSA 0..k-2hLen-2 bytes (OAEP), Rabin 1..k-10 bytes, Benaloh Z_t, Paillier Z_n, "
               "generalised Paillier Z_{n^s}, BGN small non-negative integers"]


def parts(tier):
    q = tier == "quick"
    ps = [dict(part="rsa", cfg="asan256", shards=3 if q else 4),
          dict(part="pke", cfg="asan256", shards=3 if q else 4),
          dict(part="ec", cfg="asan256", shards=3 if q else 6),
          dict(part="pairing", cfg="asan256", shards=4 if q else 6),
          dict(part="mpc", cfg="asan256", shards=3 if q else 4)]
    # key agreement / ECIES / commitments on the curves of the other field sizes (group orders of odd bit length,
    # cofactors 8 and 2^126): ec_* dispatches to the prime curves there as well
    ps += [dict(part="ec-alt", cfg="asan255", shards=1 if q else 2), dict(part="ec-alt", cfg="asan381", shards=1 if q else 2)]
    if not q:
        ps += [dict(part="rsa", cfg="rsa-pkcs1", shards=4), dict(part="rsa", cfg="rsa-basic", shards=4)]
    return ps


def alterations(ref, rng, every=False):
    """Structured ways in which a string can differ from the reference a decoder compares it with -> [(class, bytes)].
    One altered octet (first / last / inner, or every position), one bit, two and three octets whose differences cancel
    under exclusive-or, under addition, or are complementary, exchanged octets (same multiset), the string inverted /
    shifted by a constant / reversed / rotated, only one half correct, all zero.  A comparison is right only if it
    refuses every one of them; each family is what a particular slip of a compare-and-accumulate loop lets through."""
    ref = bytes(ref)
    L = len(ref)
    out = []

    def mod(cls, edits):
        b = bytearray(ref)
        for i, v in edits.items():
            b[i] = v & 0xFF
        if bytes(b) != ref:
            out.append((cls, bytes(b)))

    def where(i):
        return "first" if i == 0 else ("last" if i == L - 1 else "inner")
    if L < 4:
        return [("1-octet-" + where(i), ref[:i] + bytes([ref[i] ^ rng.randrange(1, 256)]) + ref[i + 1:]) for i in range(L)]
    for i in (range(L) if every else sorted({0, L - 1, rng.randrange(1, L - 1)})):
        mod("1-octet-" + where(i), {i: ref[i] ^ rng.randrange(1, 256)})
    i = rng.randrange(L)
    mod("1-bit", {i: ref[i] ^ (1 << rng.randrange(8))})
    for d in (0x01, 0x80, rng.randrange(1, 256)):
        i, j = rng.sample(range(L), 2)
        mod("2-octets-equal-xor", {i: ref[i] ^ d, j: ref[j] ^ d})
    d = rng.randrange(1, 256)
    mod("2-octets-equal-xor", {0: ref[0] ^ d, L - 1: ref[L - 1] ^ d})
    mod("2-octets-equal-xor", {0: ref[0] ^ d, 1: ref[1] ^ d})
    i, j = rng.sample(range(L), 2)
    d = rng.randrange(1, 256)
    mod("2-octets-opposite-sum", {i: ref[i] + d, j: ref[j] - d})
    mod("2-octets-complementary-xor", {i: ref[i] ^ d, j: ref[j] ^ d ^ 0xFF})
    i, j, l = rng.sample(range(L), 3)
    d1 = rng.randrange(1, 256)
    d2 = rng.choice([x for x in range(1, 256) if x != d1])
    mod("3-octets-xor-zero", {i: ref[i] ^ d1, j: ref[j] ^ d2, l: ref[l] ^ d1 ^ d2})
    pairs = [(a, b) for a in range(L) for b in range(a + 1, L) if ref[a] != ref[b]]
    if pairs:
        i, j = rng.choice(pairs)
        mod("2-octets-exchanged", {i: ref[j], j: ref[i]})
    d = rng.randrange(1, 255)
    for cls, b in (("inverted", bytes(x ^ 0xFF for x in ref)), ("all-octets-same-xor", bytes(x ^ d for x in ref)),
                   ("reversed", ref[::-1]), ("rotated", ref[1:] + ref[:1]),
                   ("first-half-only", ref[:L // 2] + bytes(rng.getrandbits(8) for _ in range(L - L // 2))),
                   ("second-half-only", bytes(rng.getrandbits(8) for _ in range(L // 2)) + ref[L // 2:]),
                   ("zero", bytes(L))):
        if b != ref:
            out.append((cls, b))
    return out


class W(object):
    """worker plumbing shared by all parts"""

    def __init__(self, ctx, R):
        self.ctx, self.R, self.rng = ctx, R, ctx.rng
        self.di = 0
        self.obs = {}

    def mine(self):
        self.di += 1
        return self.ctx.mine(self.di)

    def rbytes(self, n):
        return bytes(self.rng.getrandbits(8) for _ in range(n))

    def kinds(self, L):
        rng = self.rng
        k = rng.choice(["rand", "zero", "ff", "lead0"])
        b = {"rand": self.rbytes(L), "zero": bytes(L), "ff": b"\xff" * L, "lead0": (b"\0" + self.rbytes(L - 1)) if L else b""}[k]
        return k, b

    def ok(self, res):
        return (not res.caught) and res.i == self.R.OK

    def observe(self, what):
        self.obs[what] = self.obs.get(what, 0) + 1

    def case(self, key, desc, fn, budget=None):
        """run fn() as one journaled case.  Preparatory cases (key generation, the encryptions later cases start
        from) also run, unjournaled, while `vf replay` selects one other key."""
        ctx = self.ctx
        if not ctx.begin(key, desc, budget=budget):
            prepares = "_gen|" in key or "_gen_prv|" in key or "_enc|" in key or "_enc1|" in key or "_enc2|" in key or "_enc_prv|" in key
            if not (prepares and ctx.only is not None and key != ctx.only and key not in ctx.skip):
                return None
            ctx.cur_key, ctx.cur_desc = key, desc
        try:
            return fn()
        except MonitorViolation as e:
            ctx.fail(ctx.cur_key + "|" + e.kind, e.detail)
            return None
        finally:
            ctx.end()

    def finish(self):
        R = self.R
        if self.obs:
            self.ctx.note("observations", self.obs)
        self.ctx.note("functions_exercised", sorted(k for k in R.fn_seen if k.startswith(("cp_", "mpc_", "pc_map_", "g1_mul_", "g2_mul_", "gt_exp_"))))
        self.ctx.note("error_codes_seen", {str(k): v for k, v in R.err_codes.items()})

    # byte-oriented enc/dec call helper: fn(out, &out_len, in, in_len, *rest) -> (ok, bytes)
    def call_io(self, fn, data, rest, cap, pre=(), inplace=False):
        """inplace: the output buffer is also the input buffer (as test_cp does for decryption)"""
        R = self.R
        out = R.mem(max(cap, len(data)), 0xAA)
        ol = R.cell(cap)
        if inplace:
            if data:
                ctypes.memmove(out, bytes(data), len(data))
            ip = out
        else:
            ip = R.bytes_in(data)
        try:
            res = R.call(fn, *(list(pre) + [out, ol, ip, len(data)] + list(rest)))
            n = R.rd_sz(ol)
            good = self.ok(res)
            if good and n > cap:
                self.ctx.fail(self.ctx.cur_key + "|length-beyond-capacity", {"len": n, "cap": cap})
                return False, b"", res
            return good, (R.get(out, n) if good else b""), res
        finally:
            R.free(out)
            R.free(ol)
            if not inplace:
                R.free(ip)


# =====================================================================================================
# RSA encryption
# =====================================================================================================
class RsaEnc(W):
    def __init__(self, ctx, R):
        W.__init__(self, ctx, R)
        K = R.K
        self.pad = {K["CP_RSAPD_PKCS2"]: "oaep", K["CP_RSAPD_PKCS1"]: "pkcs1", K["CP_RSAPD_BASIC"]: "basic"}[K["CP_RSAPD"]]

    def maxlen(self, k):
        return {"oaep": k - 2 * cprt.HL - 2, "pkcs1": k - 11, "basic": k - 2}[self.pad]

    def decode(self, em, k):
        """model decoding of an encoded message of k bytes -> plaintext or None"""
        if self.pad == "oaep":
            return cprt.oaep_decode(em, k)
        if self.pad == "pkcs1":
            return cprt.pkcs1_enc_decode(em, k)
        if em[0] != 0:
            return None
        i = 1
        while i < k and em[i] == 0:
            i += 1
        if i >= k or em[i] != 0xFF:
            return None
        return em[i + 1:]

    def model_dec(self, ct, key):
        k, n, d = key["k"], key["n"], key["d"]
        if len(ct) != k:
            return None
        c = int.from_bytes(ct, "big")
        if c >= n:
            return None
        return self.decode(pow(c, d, n).to_bytes(k, "big"), k)

    def encode(self, m, k):
        if self.pad == "oaep":
            return cprt.oaep_encode(m, k, self.rbytes(cprt.HL))
        if self.pad == "pkcs1":
            ps = bytes(self.rng.randrange(1, 256) for _ in range(k - 3 - len(m)))
            return b"\x00\x02" + ps + b"\x00" + m
        return bytes(k - 1 - len(m)) + b"\xff" + m

    def keygen(self, bits, case_key=None):
        ctx, R = self.ctx, self.R

        def f():
            pub, prv = R.rsa_new(), R.rsa_new()
            res = R.call("cp_rsa_gen", pub, prv, bits)
            if not ctx.check(self.ok(res), ctx.cur_key + "|unexpected-error"):
                return None
            kp, ks = R.rsa_get(pub), R.rsa_get(prv)
            n, e, d, p, q = ks["n"], kp["e"], ks["d"], ks["p"], ks["q"]
            lam = (p - 1) * (q - 1) // math.gcd(p - 1, q - 1)
            good = kp["n"] == n and p * q == n and p != q and is_probable_prime(p) and is_probable_prime(q) and (e * d) % lam == 1
            if not ctx.check(good, ctx.cur_key + "|key-inconsistent", {"n": hx(n)}):
                return None
            return dict(pub=pub, prv=prv, n=n, e=e, d=d, k=(n.bit_length() + 7) // 8, bits=bits, nbits=n.bit_length())
        return self.case(case_key or "cp_rsa_gen|bits=%d" % bits, [bits], f, budget=300)

    def sweep(self):
        """honest round trips for every modulus length near the smallest the padding admits, around the lengths where a
        single octet of the OAEP data block sits in the top 64-bit digit (k = 2 mod 8), and a few ordinary sizes"""
        ctx, R, rng = self.ctx, self.R, self.rng
        q = ctx.quick
        pad = self.pad
        top = R.K["RLC_BN_BITS"]           # larger moduli exceed the configured precision: not judged
        kmin = {"oaep": 2 * cprt.HL + 3, "pkcs1": 12, "basic": 3}[pad]      # one octet of plaintext
        lo = max(8 * (kmin - 1) + 1, 256)
        sizes = set(range(lo, lo + 12)) | set(range(766, 771)) | set(range(top - 8, top + 1))
        sizes |= set(range(521, 531)) | set(range(583, 597))
        if not q:
            sizes |= set(range(645, 661)) | set(range(lo + 12, lo + 25)) | set(range(895, 905))
        sizes = sorted(x for x in sizes if x <= top)
        per = 2 if q else 4
        have = {}
        ctx.note("sweep_modulus_lengths", [sizes[0], sizes[-1], len(sizes)])
        for idx, nbw in enumerate(sizes):
            if not ctx.mine(idx):
                continue
            tries = 0
            while have.get(nbw, 0) < per and tries < 24:
                tries += 1
                # cp_rsa_gen(b) gives a modulus of b or b - 1 bits for even b
                key = self.keygen(nbw + 1 if nbw % 2 else nbw + 2 * (tries % 2), "cp_rsa_gen|sweep")
                if key is None or key["nbits"] != nbw:
                    continue
                have[nbw] = have.get(nbw, 0) + 1
                k = key["k"]
                mx = self.maxlen(k)
                if mx < 1:
                    def small():
                        good, ct, res = self.enc(b"\x01", key)
                        ctx.check(not good, ctx.cur_key + "|accepted", {"ct": ct.hex(), "n": hx(key["n"])})
                    self.case("cp_rsa_enc|nbits=%d,len>max" % nbw, [nbw], small)
                    continue
                sensitive = pad == "oaep" and (k - cprt.HL - 1) % 8 == 1
                # 1/256 of the ciphertexts have a zero leading octet of maskedDB: > 0.99 detection per length needs ~1200
                rounds = (600 if q else 1500) if sensitive else (24 if q else 80)
                for it in range(rounds):
                    L = (1, max(1, mx // 2), mx)[it % 3]
                    pt = self.rbytes(L)

                    def f():
                        good, ct, res = self.enc(pt, key)
                        if not ctx.check(good and len(ct) == k, ctx.cur_key + "|unexpected-error", {"len": L, "n": hx(key["n"])}):
                            return
                        md = self.model_dec(ct, key) if (it % 8 == 0 or not sensitive) else pt
                        ctx.check(md == pt, ctx.cur_key + "|model-decodes-differently", {"pt": pt.hex(), "ct": ct.hex()})
                        g2, back, r2 = self.dec(ct, key)
                        if not ctx.check(g2 and back == pt, "cp_rsa_dec|honest,nbits=%d|round-trip" % nbw,
                                         {"n": hx(key["n"]), "d": hx(key["d"]), "pt": pt.hex(), "ct": ct.hex(), "ok": g2, "got": back.hex()}):
                            # tell a wrong decryption apart from a wrong encryption
                            md2 = self.model_dec(ct, key)
                            ctx.note("sweep_last_failure_model_decodes", md2 == pt)
                    self.case("cp_rsa_enc|honest,nbits=%d" % nbw, [nbw, L, have[nbw], it], f)
        ctx.note("sweep_keys_per_length", have)

    def dec(self, ct, key, cap=None, inplace=False):
        return self.call_io("cp_rsa_dec", ct, [key["prv"]], cap if cap is not None else key["k"] + 16, inplace=inplace)

    def enc(self, pt, key, cap=None, inplace=False):
        return self.call_io("cp_rsa_enc", pt, [key["pub"]], cap if cap is not None else key["k"] + 16, inplace=inplace)

    def run_key(self, key, heavy):
        ctx, R, rng = self.ctx, self.R, self.rng
        k, n, d, e = key["k"], key["n"], key["d"], key["e"]
        mx = self.maxlen(k)
        pad = self.pad
        if mx < 1:
            def small():
                good, ct, res = self.enc(b"\x01", key)
                ctx.check(not good, ctx.cur_key + "|accepted", {"ct": ct.hex()})
            self.case("cp_rsa_enc|key-too-small,%s" % pad, [key["bits"]], small)
            return
        last = None
        # ---------------- every admissible length, plus the two sides of the boundary
        for L in list(range(0, mx + 1)) + [mx + 1, mx + 2, k, k + 5]:
            if not self.mine():
                continue
            kind, pt = self.kinds(L)
            cls = "len=0" if L == 0 else ("len>max" if L > mx else ("len=max" if L == mx else "len-ok"))

            def f():
                good, ct, res = self.enc(pt, key)
                if L > mx:
                    ctx.check(not good, ctx.cur_key + "|accepted", {"len": L, "max": mx})
                    return None
                if not ctx.check(good, ctx.cur_key + "|unexpected-error", {"len": L, "max": mx, "ret": res.i}):
                    return None
                ctx.check(len(ct) == k, ctx.cur_key + "|ciphertext-length", {"len": len(ct), "k": k})
                md = self.model_dec(ct, key)
                ctx.check(md == pt, ctx.cur_key + "|model-decodes-differently",
                          {"pt": pt.hex(), "model": None if md is None else md.hex(), "ct": ct.hex()})
                g2, back, r2 = self.dec(ct, key)
                ctx.check(g2 and back == pt, "cp_rsa_dec|%s,%s|round-trip" % (cls, pad),
                          {"pt": pt.hex(), "got": back.hex(), "ok": g2, "ct": ct.hex()})
                return ct
            ct = self.case("cp_rsa_enc|%s,%s" % (cls, pad), [key["bits"], L, kind], f)
            if ct:
                last = (pt, ct)
            if 1 <= L <= mx:
                # output buffer == input buffer, for encryption and for decryption
                def g_():
                    good, c2, res = self.enc(pt, key, inplace=True)
                    if ctx.check(good and len(c2) == k, ctx.cur_key + "|unexpected-error", {"len": L}):
                        ctx.check(self.model_dec(c2, key) == pt, ctx.cur_key + "|model-decodes-differently", {"pt": pt.hex(), "ct": c2.hex()})
                        g2, back, r2 = self.dec(c2, key, inplace=True)
                        ctx.check(g2 and back == pt, "cp_rsa_dec|out==in,%s|round-trip" % pad, {"pt": pt.hex(), "got": back.hex(), "ok": g2})
                self.case("cp_rsa_enc|out==in,%s" % pad, [key["bits"], L, kind], g_)

        # ---------------- model-built ciphertexts, valid and with crafted paddings
        def feed(cls, em, note=None):
            v = int.from_bytes(em, "big")
            if v >= n or len(em) != k:
                return
            ct = pow(v, e, n).to_bytes(k, "big")

            def f():
                md = self.decode(em, k)
                good, back, res = self.dec(ct, key)
                if md is None:
                    ctx.check(not good, ctx.cur_key + "|accepted", {"em": em.hex(), "got": back.hex()})
                else:
                    ctx.check(good and back == md, ctx.cur_key + ("|rejected" if not good else "|value"),
                              {"em": em.hex(), "got": back.hex(), "exp": md.hex()})
            self.case("cp_rsa_dec|crafted:%s,%s" % (cls, pad), [key["bits"], em.hex(), note], f)

        for it in range(ctx.n(3, 30)):
            L = rng.choice([1, 2, mx // 2, mx - 1, mx]) if mx > 2 else 1
            kind, m = self.kinds(L)
            em = self.encode(m, k)
            feed("valid", em)
            if pad == "oaep":
                seed = self.rbytes(cprt.HL)
                feed("lhash", cprt.oaep_encode(m, k, seed, lhash=H(b"x")))
                lh = bytearray(H(b""))
                lh[rng.randrange(32)] ^= 1 << rng.randrange(8)
                feed("lhash-bitflip", cprt.oaep_encode(m, k, seed, lhash=bytes(lh)))
                lh = bytearray(H(b""))
                lh[31] ^= 1
                feed("lhash-last-byte", cprt.oaep_encode(m, k, seed, lhash=bytes(lh)))
                for sp in (0, 2, 0x81, 0xFF):
                    feed("separator", cprt.oaep_encode(m, k, seed, sep=sp), sp)
                for fb in (1, 2, 0x80):
                    feed("first-octet", cprt.oaep_encode(m, k, seed, first=fb), fb)
                feed("no-separator", cprt.oaep_encode(b"", k, seed, sep=0))
                feed("empty-message", cprt.oaep_encode(b"", k, seed))
                feed("message-leading-zero", cprt.oaep_encode(b"\0\0" + m[2:], k, seed) if len(m) > 2 else cprt.oaep_encode(b"\0", k, seed))
                feed("message-leading-one", cprt.oaep_encode(b"\1" + m[1:], k, seed))
                if L < mx:
                    feed("ps-nonzero", cprt.oaep_encode(b"\x00" * 0 + m, k, seed)[:0] + self._oaep_ps(m, k, seed))
            elif pad == "pkcs1":
                ps = lambda ln: bytes(rng.randrange(1, 256) for _ in range(ln))
                feed("block-type", b"\x00\x01" + em[2:])
                feed("block-type", b"\x00\x00" + em[2:])
                feed("first-octet", b"\x01" + em[1:])
                feed("short-ps", b"\x00\x02" + ps(7) + b"\x00" + self.rbytes(k - 10))
                feed("short-ps", b"\x00\x02" + b"\x00" + self.rbytes(k - 3))
                feed("ps-8", b"\x00\x02" + ps(8) + b"\x00" + self.rbytes(k - 11))
                feed("no-separator", b"\x00\x02" + ps(k - 2))
                feed("empty-message", b"\x00\x02" + ps(k - 3) + b"\x00")
            else:
                feed("marker", bytes(k - 1 - len(m)) + b"\xfe" + m)
                feed("first-octet", b"\x01" + em[1:])
                feed("no-marker", bytes(k))
                feed("empty-message", bytes(k - 1) + b"\xff")
                feed("full", b"\x00\xff" + self.rbytes(k - 2))

        # ---------------- every decoding condition violated in structured ways (the model gives verdict and value)
        for cls, em, note in self.structured(k, mx, heavy):
            if self.mine():
                feed(cls, em, note)

        # ---------------- corrupted ciphertexts: verdict and value must equal the model's
        if last is not None:
            pt, ct = last
            cv = int.from_bytes(ct, "big")
            muts = []
            pos = range(k) if heavy else rng.sample(range(k), 12)
            for i in pos:
                if heavy and ctx.quick and (i % ctx.nshards) != ctx.shard:
                    continue
                b = bytearray(ct)
                b[i] ^= rng.randrange(1, 256)
                muts.append(("byte-mutation", bytes(b)))
            muts += [("truncated", ct[:-1]), ("truncated", ct[1:]), ("empty", b""), ("extended", ct + b"\0"),
                     ("zero-prefixed", b"\0" + ct), ("ct+N,longer", (cv + n).to_bytes(k + 1, "big")),
                     ("ct=0", bytes(k)), ("ct=1", (1).to_bytes(k, "big")), ("ct=N-1", (n - 1).to_bytes(k, "big")),
                     ("ct=N", n.to_bytes(k, "big"))]
            if (cv + n).bit_length() <= 8 * k:
                muts.append(("ct+N,same-length", (cv + n).to_bytes(k, "big")))
            for cls, c2 in muts:
                def f():
                    md = self.model_dec(c2, key)
                    good, back, res = self.dec(c2, key)
                    ctx.check(not (good and back == pt and c2 != ct and md != pt), ctx.cur_key + "|original-plaintext",
                              {"ct": c2.hex()})
                    if md is None:
                        ctx.check(not good, ctx.cur_key + "|accepted", {"ct": c2.hex(), "got": back.hex()})
                    else:
                        ctx.check(good and back == md, ctx.cur_key + ("|rejected" if not good else "|value"),
                                  {"ct": c2.hex(), "got": back.hex(), "exp": md.hex()})
                self.case("cp_rsa_dec|%s,%s" % (cls, pad), [key["bits"], c2.hex()], f)
            # capacity of the output buffers is respected

            def cap_dec():
                good, back, res = self.dec(ct, key, cap=max(0, len(pt) - 1))
                ctx.check(not good, ctx.cur_key + "|accepted", {"cap": len(pt) - 1})
            if len(pt) >= 1:
                self.case("cp_rsa_dec|capacity-too-small,%s" % pad, [key["bits"], len(pt)], cap_dec)

            def cap_enc():
                good, c3, res = self.enc(pt, key, cap=k - 1)
                ctx.check(not good, ctx.cur_key + "|accepted", {"cap": k - 1})
            self.case("cp_rsa_enc|capacity-too-small,%s" % pad, [key["bits"], k], cap_enc)

    def _oaep_block(self, seed, db, first=0):
        mdb = cprt.xor(db, cprt.mgf1(seed, len(db)))
        ms = cprt.xor(seed, cprt.mgf1(mdb, cprt.HL))
        return bytes([first]) + ms + mdb

    def structured(self, k, mx, every):
        """encoded messages that violate one condition of the decoding at a time, each in the ways listed by
        alterations(): -> [(class, EM, note)].  OAEP: lHash' != lHash, PS not all zero, separator missing / altered /
        moved, Y != 0.  EME-PKCS1-v1_5: leading octet, block type, zero octets inside the first eight of PS, separator
        missing.  Basic: leading octet, marker altered / missing."""
        rng, pad = self.rng, self.pad
        HL = cprt.HL
        out = []
        top = (0x01, 0x02, 0x04, 0x08, 0x10, 0x20, 0x40, 0x80, 0xFF)
        if pad == "oaep":
            if mx < 6:
                return out
            lh = H(b"")
            m = self.rbytes(rng.randrange(1, mx - 3))
            nps = k - len(m) - 2 * HL - 2
            seed = self.rbytes(HL)
            blk = lambda lhash=lh, ps=None, sep=b"\x01", msg=m, first=0: \
                self._oaep_block(seed, lhash + (bytes(nps) if ps is None else ps) + sep + msg, first)
            out.append(("valid", blk(), None))
            for cls, l2 in alterations(lh, rng, every):
                out.append(("lhash:" + cls, blk(lhash=l2), l2.hex()))
            # PS: one / two octets that are not zero (the value 0x01 is a separator in an earlier position: valid, the
            # message then starts with the remaining zero octets)
            for i in sorted({0, nps - 1, rng.randrange(nps)}):
                for v in (0x02, 0x80, 0xFF):
                    ps = bytearray(nps)
                    ps[i] = v
                    out.append(("ps-nonzero:1-octet", blk(ps=bytes(ps)), [i, v]))
                ps = bytearray(nps)
                ps[i] = 0x01
                out.append(("separator-earlier", blk(ps=bytes(ps)), i))
            if nps >= 2:
                for v, w in ((2, 2), (0x80, 0x80), (0x55, 0xAA), (0x01, 0xFF), (0xFF, 0x01), (0xFE, 0x02)):
                    i, j = sorted(rng.sample(range(nps), 2))
                    ps = bytearray(nps)
                    ps[i], ps[j] = v, w
                    out.append(("ps-nonzero:2-octets", blk(ps=bytes(ps)), [i, v, j, w]))
                out.append(("ps-nonzero:all", blk(ps=b"\xff" * nps), None))
                out.append(("ps-nonzero:all", blk(ps=b"\x01" * nps), None))
            # separator: every single-bit alteration, missing (the next non-zero octet of M decides), moved into M
            for v in (0x00, 0x03, 0x05, 0x09, 0x11, 0x21, 0x41, 0x81, 0xFF, 0xFE):
                out.append(("separator-value", blk(sep=bytes([v])), v))
            out.append(("separator-missing", blk(sep=b"\x00", msg=bytes(len(m))), "DB = lHash 00..00"))
            out.append(("separator-missing", blk(sep=b"\x00", msg=b"\x02" + m[1:]), "first octet of M is 2"))
            out.append(("separator-later", blk(sep=b"\x00", msg=b"\x01" + m[1:]), "00 01 M'"))
            out.append(("separator-later", blk(sep=b"\x00", msg=bytes(len(m) - 1) + b"\x01"), "00..00 01 at the end"))
            out.append(("separator-doubled", blk(msg=b"\x01" + m[1:]), None))
            for v in top:
                out.append(("first-octet", blk(first=v), v))
            # two conditions violated together must not repair each other
            l2 = bytearray(lh)
            l2[0] ^= 1
            l2[1] ^= 1
            out.append(("lhash+first-octet", blk(lhash=bytes(l2), first=1), None))
        elif pad == "pkcs1":
            if mx < 4:
                return out
            m = bytes(rng.randrange(1, 256) for _ in range(rng.randrange(1, mx - 1)))       # no zero octet inside M
            nps = k - 3 - len(m)
            nz = lambda ln: bytes(rng.randrange(1, 256) for _ in range(ln))
            blk = lambda first=0, bt=2, ps=None, sep=0, msg=m: bytes([first, bt]) + (nz(nps) if ps is None else ps) + bytes([sep]) + msg
            out.append(("valid", blk(), None))
            for v in top:
                out.append(("first-octet", blk(first=v), v))
            for v in (0x00, 0x01, 0x03, 0x06, 0x0A, 0x12, 0x22, 0x42, 0x82, 0xFF, 0xFD):
                out.append(("block-type", blk(bt=v), v))
            for i in range(min(nps, 8)):
                ps = bytearray(nz(nps))
                ps[i] = 0
                out.append(("short-ps", blk(ps=bytes(ps)), i))
            for i in sorted({8, nps - 1, rng.randrange(8, nps)} if nps > 8 else ()):
                ps = bytearray(nz(nps))
                ps[i] = 0
                out.append(("separator-earlier", blk(ps=bytes(ps)), i))
            for v in (0x01, 0x02, 0x80, 0xFF):
                out.append(("no-separator", blk(sep=v), v))
            out.append(("first-octet+block-type", blk(first=2, bt=0), None))
        else:
            if mx < 4:
                return out
            m = self.rbytes(rng.randrange(2, mx - 1))
            blk = lambda first=0, mark=0xFF, msg=m: bytes([first]) + bytes(k - 2 - len(msg)) + bytes([mark]) + msg
            out.append(("valid", blk(), None))
            for v in top:
                out.append(("first-octet", blk(first=v), v))
            for v in (0xFE, 0xFD, 0xFB, 0xF7, 0xEF, 0xDF, 0xBF, 0x7F, 0x01, 0x80):
                out.append(("marker", blk(mark=v), v))
            out.append(("no-marker", blk(mark=0, msg=bytes(len(m))), None))
            out.append(("marker-later", blk(mark=0, msg=b"\xff" + m[1:]), None))
            out.append(("marker", blk(mark=1, msg=b"\xff" + m[1:]), "01 FF M'"))
        return out

    def _oaep_ps(self, m, k, seed):
        """OAEP block whose padding string holds a non-zero octet other than the 0x01 separator"""
        lh = H(b"")
        ps = bytearray(k - len(m) - 2 * cprt.HL - 2)
        ps[self.rng.randrange(len(ps))] = self.rng.choice([2, 0x80, 0xFF])
        db = lh + bytes(ps) + b"\x01" + m
        mdb = cprt.xor(db, cprt.mgf1(seed, k - cprt.HL - 1))
        ms = cprt.xor(seed, cprt.mgf1(mdb, cprt.HL))
        return b"\x00" + ms + mdb


def run_rsa(ctx):
    R = PX(ctx.cfg)
    w = RsaEnc(ctx, R)
    ctx.note("padding", w.pad)
    w.sweep()
    sizes = [1024, 1018, 768, 600, 1017, 520] if ctx.quick else [1024, 1018, 1017, 1016, 1010, 1002, 768, 600, 536, 528, 520, 512]
    for i, bits in enumerate(sizes):
        key = w.keygen(bits)
        if key is not None:
            w.run_key(key, heavy=(i < 2))
    w.finish()



# =====================================================================================================
# Rabin, Benaloh, Paillier, generalised Paillier, subgroup Paillier
# =====================================================================================================
class Pke(W):
    # ------------------------------------------------------------------ Rabin
    def rabin(self, bits, heavy):
        ctx, R, rng = self.ctx, self.R, self.rng
        S = R.S

        def gen():
            pub, prv = S.vf_crt_new(), S.vf_crt_new()
            res = R.call("cp_rabin_gen", pub, prv, bits)
            if not ctx.check(self.ok(res), ctx.cur_key + "|unexpected-error"):
                return None
            ks, kp = R.crt_get(prv), R.crt_get(pub)
            n, p, q = ks["n"], ks["p"], ks["q"]
            good = (kp["n"] == n and p * q == n and p != q and p % 4 == 3 and q % 4 == 3 and is_probable_prime(p)
                    and is_probable_prime(q) and (ks["dp"] * p + ks["dq"] * q) == 1)
            if not ctx.check(good, ctx.cur_key + "|key-inconsistent", {"n": hx(n), "p": hx(p), "q": hx(q)}):
                return None
            return dict(pub=pub, prv=prv, n=n, p=p, q=q, k=(n.bit_length() + 7) // 8)
        key = self.case("cp_rabin_gen|bits=%d" % bits, [bits], gen, budget=300)
        if key is None:
            return
        n, k = key["n"], key["k"]
        mx = k - 10
        cap = k + 16

        def model_enc(pt):
            m = int.from_bytes(b"\xff" + pt, "big")
            m = (m << 64) | (m & ((1 << 64) - 1))
            return pow(m, 2, n).to_bytes(k, "big")
        last = None
        for L in list(range(0, mx + 1)) + [mx + 1, mx + 2, k]:
            if not self.mine():
                continue
            kind, pt = self.kinds(L)
            cls = "len=0" if L == 0 else ("len>max" if L > mx else ("len=max" if L == mx else ("len<8" if L < 8 else "len-ok")))

            def f():
                good, ct, res = self.call_io("cp_rabin_enc", pt, [key["pub"]], cap)
                if L > mx:
                    ctx.check(not good, ctx.cur_key + "|accepted", {"len": L, "max": mx})
                    return None
                if not ctx.check(good, ctx.cur_key + "|unexpected-error", {"len": L}):
                    return None
                ctx.check(ct == model_enc(pt), ctx.cur_key + "|ciphertext", {"pt": pt.hex(), "ct": ct.hex()})
                g2, back, r2 = self.call_io("cp_rabin_dec", ct, [key["prv"]], cap)
                ctx.check(g2 and back == pt, "cp_rabin_dec|%s|round-trip" % cls, {"pt": pt.hex(), "got": back.hex(), "ok": g2})
                return ct
            ct = self.case("cp_rabin_enc|%s" % cls, [bits, L, kind], f)
            if ct:
                last = (pt, ct)
            if 1 <= L <= mx:
                def g_():
                    good, c2, res = self.call_io("cp_rabin_enc", pt, [key["pub"]], cap, inplace=True)
                    if ctx.check(good, ctx.cur_key + "|unexpected-error", {"len": L}):
                        ctx.check(c2 == model_enc(pt), ctx.cur_key + "|ciphertext", {"pt": pt.hex(), "ct": c2.hex()})
                        g2, back, r2 = self.call_io("cp_rabin_dec", c2, [key["prv"]], cap, inplace=True)
                        ctx.check(g2 and back == pt, "cp_rabin_dec|out==in|round-trip", {"pt": pt.hex(), "got": back.hex(), "ok": g2})
                self.case("cp_rabin_enc|out==in", [bits, L, kind], g_)
        # ---------------- model-built blocks: the redundancy (last eight octets repeated) and the 0xFF marker violated
        # in structured ways; an accepted plaintext must at least re-encrypt to the submitted ciphertext
        def craft(cls, v, exp, note=None):
            if not (0 < v < n) or not self.mine():
                return
            c2 = pow(v, 2, n).to_bytes(k, "big")

            def f():
                good, back, res = self.call_io("cp_rabin_dec", c2, [key["prv"]], cap)
                if exp is not None:
                    ctx.check(good and back == exp, ctx.cur_key + ("|rejected" if not good else "|value"),
                              {"block": hx(v), "got": back.hex(), "exp": exp.hex()})
                elif good:
                    ctx.check(1 <= len(back) <= mx and model_enc(back) == c2, ctx.cur_key + "|accepted", {"block": hx(v), "got": back.hex()})
                else:
                    ctx.ok()
            self.case("cp_rabin_dec|crafted:%s" % cls, [bits, hx(v), note], f)
        if mx >= 9:
            for L in sorted({1, 7, 8, rng.randrange(9, mx + 1)}):
                pt = bytes(rng.randrange(1, 255) for _ in range(L))
                body = int.from_bytes(b"\xff" + pt, "big")
                low = (body & ((1 << 64) - 1)).to_bytes(8, "big")
                craft("valid", (body << 64) | int.from_bytes(low, "big"), pt, L)
                for cls, l2 in alterations(low, rng, heavy and L >= 9):
                    craft("redundancy:" + cls, (body << 64) | int.from_bytes(l2, "big"), None, [L, l2.hex()])
                if L >= 9:
                    # the copy is right, the marker is not (pt holds neither 0x00 nor 0xFF, so no later octet is one)
                    for mk in (0xFE, 0xFD, 0xFB, 0xF7, 0xEF, 0xDF, 0xBF, 0x7F, 0x01, 0x00):
                        b2 = int.from_bytes(bytes([mk]) + pt, "big")
                        craft("marker", (b2 << 64) | (b2 & ((1 << 64) - 1)), None, [L, mk])
            pt = bytes(rng.randrange(1, 255) for _ in range(mx))
            body = int.from_bytes(b"\xff" + pt, "big")
            for fb in (0x01, 0x02, 0x10, 0x80):
                craft("first-octet", (fb << (8 * (k - 1))) | (body << 64) | (body & ((1 << 64) - 1)), None, fb)
        if last:
            pt, ct = last
            muts = []
            for i in (range(k) if heavy else rng.sample(range(k), 10)):
                if heavy and ctx.quick and (i % ctx.nshards) != ctx.shard:
                    continue
                b = bytearray(ct)
                b[i] ^= rng.randrange(1, 256)
                muts.append(("byte-mutation", bytes(b)))
            muts += [("truncated", ct[:-1]), ("empty", b""), ("short", ct[:7]), ("ct=0", bytes(k)), ("ct=N", n.to_bytes(k, "big")),
                     ("ct=1", (1).to_bytes(k, "big")), ("ct=N+1", (n + 1).to_bytes(k, "big")), ("zero-prefixed", b"\0" + ct)]
            for cls, c2 in muts:
                def f():
                    good, back, res = self.call_io("cp_rabin_dec", c2, [key["prv"]], cap)
                    same = int.from_bytes(c2, "big") % n == int.from_bytes(ct, "big") % n
                    ctx.check(not (good and back == pt) or same, ctx.cur_key + "|original-plaintext", {"ct": c2.hex()})
                    if good and not same:
                        # an accepted plaintext must at least re-encrypt to the submitted ciphertext
                        ctx.check(1 <= len(back) <= mx and int.from_bytes(model_enc(back), "big") == int.from_bytes(c2, "big") % n,
                                  ctx.cur_key + "|accepted", {"ct": c2.hex(), "got": back.hex()})
                self.case("cp_rabin_dec|%s" % cls, [bits, c2.hex()], f)

    # ------------------------------------------------------------------ Benaloh
    def benaloh(self, block, bits):
        ctx, R, rng = self.ctx, self.R, self.rng
        S = R.S

        def gen():
            pub, prv = S.vf_bdpe_new(), S.vf_bdpe_new()
            res = R.call("cp_bdpe_gen", pub, prv, block, bits)
            if not ctx.check(self.ok(res), ctx.cur_key + "|unexpected-error"):
                return None
            g = lambda k, i: R.bn_val(S.vf_bdpe_field(k, i))
            n, y, p, q = g(prv, 0), g(prv, 1), g(prv, 2), g(prv, 3)
            t = R.rd_sz(S.vf_bdpe_field(prv, 4))
            phi = (p - 1) * (q - 1)
            good = (g(pub, 0) == n and g(pub, 1) == y and p * q == n and t == block and (p - 1) % t == 0
                    and math.gcd(t, (p - 1) // t) == 1 and math.gcd(t, q - 1) == 1 and pow(y, phi // t, n) != 1
                    and is_probable_prime(p) and is_probable_prime(q))
            if not ctx.check(good, ctx.cur_key + "|key-inconsistent", {"n": hx(n), "p": hx(p), "q": hx(q), "y": hx(y)}):
                return None
            return dict(pub=pub, prv=prv, n=n, y=y, t=t, e=phi // t, k=(n.bit_length() + 7) // 8)
        key = self.case("cp_bdpe_gen|block=%d" % block, [block, bits], gen, budget=300)
        if key is None:
            return
        n, y, t, ex, k = key["n"], key["y"], key["t"], key["e"], key["k"]
        cap = k + 8
        out = R.cell(0)

        def enc(m):
            o, ol = R.mem(cap, 0xAA), R.cell(cap)
            try:
                res = R.call("cp_bdpe_enc", o, ol, m, key["pub"])
                return self.ok(res), (R.get(o, R.rd_sz(ol)) if self.ok(res) and R.rd_sz(ol) <= cap else b"")
            finally:
                R.free(o)
                R.free(ol)

        def dec(ct):
            ip = R.bytes_in(ct)
            R.wr_sz(out, 0xDEAD)
            try:
                res = R.call("cp_bdpe_dec", out, ip, len(ct), key["prv"])
                return self.ok(res), R.rd_sz(out)
            finally:
                R.free(ip)
        msgs = list(range(t)) if t <= 50 else sorted(set([0, 1, 2, t // 2, t - 2, t - 1] + [rng.randrange(t) for _ in range(20)]))
        cts = {}
        for m in msgs:
            if not self.mine():
                continue

            def f():
                good, ct = enc(m)
                if not ctx.check(good and len(ct) == k, ctx.cur_key + "|unexpected-error"):
                    return
                c = int.from_bytes(ct, "big")
                # defining congruence: c^(phi/t) = y^(m phi/t)
                ctx.check(pow(c, ex, n) == pow(y, m * ex, n), ctx.cur_key + "|ciphertext", {"m": m, "ct": ct.hex()})
                g2, back = dec(ct)
                ctx.check(g2 and back == m, "cp_bdpe_dec|m<block|round-trip", {"m": m, "got": back, "ok": g2})
                cts[m] = c
            self.case("cp_bdpe_enc|m<block", [block, m], f)
        # homomorphic addition modulo t (product of ciphertexts), with and without wrap-around
        ms = list(cts)
        for _ in range(min(12, len(ms) * len(ms))):
            a, b = rng.choice(ms), rng.choice(ms)

            def f():
                ct = (cts[a] * cts[b] % n).to_bytes(k, "big")
                good, back = dec(ct)
                ctx.check(good and back == (a + b) % t, ctx.cur_key + "|value", {"a": a, "b": b, "got": back, "ok": good})
            self.case("cp_bdpe_dec|product,%s" % ("wrap" if a + b >= t else "nowrap"), [block, a, b], f)
        # outside the plaintext space
        for m, cls in ((t, "m=block"), (t + 1, "m>block"), ((1 << 63) + 5, "m>block")):
            if not self.mine():
                continue

            def f():
                good, ct = enc(m)
                ctx.check(not good, ctx.cur_key + "|accepted", {"m": m})
            self.case("cp_bdpe_enc|%s" % cls, [block, m], f)
        # wrong ciphertext lengths

        def f():
            good, back = dec(bytes(k - 1))
            ctx.check(not good, ctx.cur_key + "|accepted")
        self.case("cp_bdpe_dec|truncated", [block], f)

    # ------------------------------------------------------------------ Paillier
    def paillier(self, bits):
        ctx, R, rng = self.ctx, self.R, self.rng
        S = R.S
        pub = R.new("bn")

        def gen():
            prv = S.vf_crt_new()
            res = R.call("cp_phpe_gen", pub, prv, bits)
            if not ctx.check(self.ok(res), ctx.cur_key + "|unexpected-error"):
                return None
            ks = R.crt_get(prv)
            n, p, q = ks["n"], ks["p"], ks["q"]
            good = R.bn_val(pub) == n and p * q == n and p != q and is_probable_prime(p) and is_probable_prime(q) \
                and math.gcd(n, (p - 1) * (q - 1)) == 1
            if not ctx.check(good, ctx.cur_key + "|key-inconsistent", {"n": hx(n), "p": hx(p), "q": hx(q)}):
                return None
            return dict(prv=prv, n=n, lam=(p - 1) * (q - 1))
        key = self.case("cp_phpe_gen|bits=%d" % bits, [bits], gen, budget=300)
        if key is None:
            return
        n, lam = key["n"], key["lam"]
        n2 = n * n
        c1, c2, c3, m1, mo = [R.new("bn") for _ in range(5)]

        def enc(m, c):
            R.bn_put(m1, m)
            R.bn_put(c, rng.getrandbits(64))
            res = R.call("cp_phpe_enc", c, m1, pub)
            return self.ok(res), R.bn_get(c)

        def dec(cv):
            R.bn_put(c3, cv)
            R.bn_put(mo, rng.getrandbits(64))
            res = R.call("cp_phpe_dec", mo, c3, key["prv"])
            return self.ok(res), R.bn_get(mo)

        def holds(c, m):
            """c encrypts m  <=>  c^lambda = (1+n)^(m lambda) mod n^2"""
            return 0 < c < n2 and pow(c, lam, n2) == (1 + (m * lam % n) * n) % n2
        vals = [0, 1, 2, n - 1, n - 2, n // 2, n // 2 + 1, (1 << (n.bit_length() - 1)), rng.randrange(n), rng.randrange(n),
                rng.getrandbits(64), rng.getrandbits(8)]
        cts = {}
        for a in vals:
            if not self.mine():
                continue
            cls = "m=0" if a == 0 else ("m=n-1" if a == n - 1 else ("m>=n/2" if a >= n // 2 else "m<n/2"))

            def f():
                good, (c, used, sign, nf) = enc(a, c1)
                if not ctx.check(good, ctx.cur_key + "|unexpected-error"):
                    return
                ctx.check(nf and holds(c, a), ctx.cur_key + "|ciphertext", {"m": hx(a), "c": hx(c)})
                g2, (back, u2, s2, nf2) = dec(c)
                ctx.check(g2 and back == a and nf2, "cp_phpe_dec|%s|round-trip" % cls, {"m": hx(a), "got": hx(back) if back is not None else None})
                cts[a] = c
            self.case("cp_phpe_enc|%s" % cls, [bits, hx(a)], f)

            def g_():
                # c == m for encryption, m == c for decryption
                R.bn_put(c1, a)
                res = R.call("cp_phpe_enc", c1, c1, pub)
                if not ctx.check(self.ok(res), ctx.cur_key + "|unexpected-error"):
                    return
                c, used, sign, nf = R.bn_get(c1)
                ctx.check(nf and holds(c, a), ctx.cur_key + "|ciphertext", {"m": hx(a), "c": hx(c)})
                res = R.call("cp_phpe_dec", c1, c1, key["prv"])
                back = R.bn_get(c1)
                ctx.check(self.ok(res) and back[0] == a and back[3], "cp_phpe_dec|out==in,%s|round-trip" % cls,
                          {"m": hx(a), "got": hx(back[0]) if back[0] is not None else None})
            self.case("cp_phpe_enc|out==in,%s" % cls, [bits, hx(a)], g_)
        # model-built ciphertexts (independent of cp_phpe_enc)
        for a in vals[:8]:
            r = rng.randrange(2, n)
            c = (1 + a * n) * pow(r, n, n2) % n2

            def f():
                g2, (back, u2, s2, nf2) = dec(c)
                ctx.check(g2 and back == a and nf2, ctx.cur_key + "|value", {"m": hx(a), "got": hx(back) if back is not None else None})
            self.case("cp_phpe_dec|model-ciphertext,%s" % ("m>=n/2" if a >= n // 2 else "m<n/2"), [bits, hx(a)], f)
        # additive homomorphism with and without wrap-around
        ks_ = list(cts)
        for _ in range(min(16, len(ks_) ** 2)):
            a, b = rng.choice(ks_), rng.choice(ks_)
            if rng.random() < 0.3 and (n - 1) in cts:
                b = n - 1

            def f():
                R.bn_put(c1, cts[a])
                R.bn_put(c2, cts[b])
                alias = rng.randrange(3)
                outp = (c3, c1, c2)[alias]
                res = R.call("cp_phpe_add", outp, c1, c2, pub)
                if not ctx.check(self.ok(res), ctx.cur_key + "|unexpected-error"):
                    return
                cv = R.bn_val(outp)
                ctx.check(cv == cts[a] * cts[b] % n2, ctx.cur_key + "|ciphertext", {"got": hx(cv)})
                g2, (back, u2, s2, nf2) = dec(cv)
                ctx.check(g2 and back == (a + b) % n, ctx.cur_key + "|value", {"a": hx(a), "b": hx(b), "got": hx(back) if back is not None else None})
            self.case("cp_phpe_add|%s" % ("wrap" if a + b >= n else "nowrap"), [bits, hx(a), hx(b)], f)
        # outside the plaintext space Z_n
        for a, cls in ((n, "m>=n"), (n + 1, "m>=n"), ((1 << n.bit_length()) - 1, "m>=n"), (1 << n.bit_length(), "m>=2^bits"),
                       (-1, "m<0"), (-(n // 3), "m<0")):
            if not self.mine():
                continue

            def f():
                good, (c, used, sign, nf) = enc(a, c1)
                if good:
                    g2, (back, u2, s2, nf2) = dec(c)
                    ctx.check(False, ctx.cur_key + "|accepted", {"m": hx(a), "decrypts-to": hx(back) if back is not None else None})
                else:
                    ctx.ok()
            self.case("cp_phpe_enc|%s" % cls, [bits, hx(a)], f)
        for cv, cls in ((n2 << 8, "c>n^2"),):
            def f():
                g2, r_ = dec(cv)
                ctx.check(not g2, ctx.cur_key + "|accepted")
            self.case("cp_phpe_dec|%s" % cls, [bits], f)

    # ------------------------------------------------------------------ generalised Paillier (Damgard-Jurik)
    def ghpe(self, bits, s):
        ctx, R, rng = self.ctx, self.R, self.rng
        pub, prv = R.new("bn"), R.new("bn")

        def gen():
            res = R.call("cp_ghpe_gen", pub, prv, bits)
            if not ctx.check(self.ok(res), ctx.cur_key + "|unexpected-error"):
                return None
            n, lam = R.bn_val(pub), R.bn_val(prv)
            # lambda must be a multiple of the exponent of Z_n^* and prime to n; factor through gcd with n - 1 - lam = p + q - 2 ... keep simple:
            s_ = n + 1 - lam      # p + q
            disc = s_ * s_ - 4 * n
            r_ = math.isqrt(disc) if disc >= 0 else 0
            good = disc >= 0 and r_ * r_ == disc and is_probable_prime((s_ - r_) // 2) and is_probable_prime((s_ + r_) // 2)
            if not ctx.check(good, ctx.cur_key + "|key-inconsistent", {"n": hx(n), "prv": hx(lam)}):
                return None
            return dict(n=n, lam=lam)
        key = self.case("cp_ghpe_gen|bits=%d" % bits, [bits, s], gen, budget=300)
        if key is None:
            return
        n, lam = key["n"], key["lam"]
        ns, N = n ** s, n ** (s + 1)
        c1, m1, mo = R.new("bn"), R.new("bn"), R.new("bn")

        def holds(c, m):
            return 0 < c < N and pow(c, lam, N) == pow(1 + n, m * lam, N)

        def enc(m):
            R.bn_put(m1, m)
            res = R.call("cp_ghpe_enc", c1, m1, pub, s)
            return self.ok(res), R.bn_get(c1)

        def dec(cv):
            R.bn_put(c1, cv)
            res = R.call("cp_ghpe_dec", mo, c1, pub, prv, s)
            return self.ok(res), R.bn_get(mo)
        vals = [0, 1, n - 1, n, n + 1, ns - 1, ns // 2, rng.randrange(ns), rng.randrange(ns), rng.getrandbits(40)]
        cts = {}
        for a in vals:
            if a >= ns or not self.mine():
                continue
            cls = "s=%d,%s" % (s, "m<n" if a < n else "m>=n")

            def f():
                good, (c, used, sign, nf) = enc(a)
                if not ctx.check(good, ctx.cur_key + "|unexpected-error"):
                    return
                ctx.check(nf and holds(c, a), ctx.cur_key + "|ciphertext", {"m": hx(a), "c": hx(c)})
                g2, (back, u2, s2, nf2) = dec(c)
                ctx.check(g2 and back == a and nf2, "cp_ghpe_dec|%s|round-trip" % cls, {"m": hx(a), "got": hx(back) if back is not None else None})
                cts[a] = c
            self.case("cp_ghpe_enc|%s" % cls, [bits, s, hx(a)], f)

            def g_():
                R.bn_put(c1, a)
                res = R.call("cp_ghpe_enc", c1, c1, pub, s)
                if not ctx.check(self.ok(res), ctx.cur_key + "|unexpected-error"):
                    return
                c, used, sign, nf = R.bn_get(c1)
                ctx.check(nf and holds(c, a), ctx.cur_key + "|ciphertext", {"m": hx(a), "c": hx(c)})
                res = R.call("cp_ghpe_dec", c1, c1, pub, prv, s)
                back = R.bn_get(c1)
                ctx.check(self.ok(res) and back[0] == a and back[3], "cp_ghpe_dec|out==in,%s|round-trip" % cls,
                          {"m": hx(a), "got": hx(back[0]) if back[0] is not None else None})
            self.case("cp_ghpe_enc|out==in,%s" % cls, [bits, s, hx(a)], g_)
        ks_ = list(cts)
        for _ in range(min(8, len(ks_) ** 2)):
            a, b = rng.choice(ks_), rng.choice(ks_)
            if rng.random() < 0.4 and (ns - 1) in cts:
                b = ns - 1

            def f():
                g2, (back, u2, s2, nf2) = dec(cts[a] * cts[b] % N)
                ctx.check(g2 and back == (a + b) % ns, ctx.cur_key + "|value", {"a": hx(a), "b": hx(b), "got": hx(back) if back is not None else None})
            self.case("cp_ghpe_dec|product,s=%d,%s" % (s, "wrap" if a + b >= ns else "nowrap"), [bits, s, hx(a), hx(b)], f)
        for a, cls in ((ns, "m>=n^s"), (ns + 5, "m>=n^s"), (-3, "m<0")):
            if not self.mine():
                continue

            def f():
                good, r_ = enc(a)
                ctx.check(not good, ctx.cur_key + "|accepted", {"m": hx(a)})
            self.case("cp_ghpe_enc|s=%d,%s" % (s, cls), [bits, s, hx(a)], f)

    # ------------------------------------------------------------------ subgroup Paillier
    def shpe(self, sbits, nbits):
        ctx, R, rng = self.ctx, self.R, self.rng
        S = R.S

        def gen():
            pub, prv = S.vf_shpe_new(), S.vf_shpe_new()
            res = R.call("cp_shpe_gen", pub, prv, sbits, nbits)
            if not ctx.check(self.ok(res), ctx.cur_key + "|unexpected-error"):
                return None
            g = lambda k, i: R.bn_val(S.vf_shpe_field(k, i))
            a, b, gg, n, p, q = g(prv, 0), g(prv, 1), g(prv, 2), g(prv, 4), g(prv, 5), g(prv, 6)
            good = (p * q == n and g(pub, 4) == n and a * b == (p - 1) * (q - 1) and is_probable_prime(a) and is_probable_prime(p)
                    and is_probable_prime(q) and gg == pow(1 + n, b, n * n) and g(pub, 2) == gg)
            if not ctx.check(good, ctx.cur_key + "|key-inconsistent", {"n": hx(n), "a": hx(a)}):
                return None
            return dict(pub=pub, prv=prv, n=n, a=a, b=b)
        key = self.case("cp_shpe_gen|sbits=%d" % sbits, [sbits, nbits], gen, budget=600)
        if key is None:
            return
        n, a_, b_ = key["n"], key["a"], key["b"]
        n2 = n * n
        lam = a_ * b_
        c1, m1, mo = R.new("bn"), R.new("bn"), R.new("bn")

        def holds(c, m):
            return 0 < c < n2 and pow(c, a_, n2) == (1 + (m * lam % n) * n) % n2

        def dec(cv):
            R.bn_put(c1, cv)
            res = R.call("cp_shpe_dec", mo, c1, key["prv"])
            return self.ok(res), R.bn_get(mo)
        vals = [0, 1, n - 1, n // 2, n // 2 + 1, rng.randrange(n), rng.randrange(n), rng.getrandbits(30)]
        cts = {}
        for fn, k_ in (("cp_shpe_enc", key["pub"]), ("cp_shpe_enc_prv", key["prv"])):
            for a in vals:
                if not self.mine():
                    continue
                cls = "m>=n/2" if a >= n // 2 else "m<n/2"

                def f():
                    R.bn_put(m1, a)
                    res = R.call(fn, c1, m1, k_)
                    if not ctx.check(self.ok(res), ctx.cur_key + "|unexpected-error"):
                        return
                    c, used, sign, nf = R.bn_get(c1)
                    ctx.check(nf and holds(c, a), ctx.cur_key + "|ciphertext", {"m": hx(a), "c": hx(c)})
                    g2, (back, u2, s2, nf2) = dec(c)
                    ctx.check(g2 and back == a and nf2, "cp_shpe_dec|%s|round-trip" % cls, {"m": hx(a), "got": hx(back) if back is not None else None})
                    if a in cts and cts[a] == c:
                        self.observe("%s is deterministic (same ciphertext for the same plaintext)" % fn)
                    cts[a] = c
                self.case("%s|%s" % (fn, cls), [sbits, nbits, hx(a)], f)

                def h_():
                    R.bn_put(c1, a)
                    res = R.call(fn, c1, c1, k_)
                    if not ctx.check(self.ok(res), ctx.cur_key + "|unexpected-error"):
                        return
                    c, used, sign, nf = R.bn_get(c1)
                    ctx.check(nf and holds(c, a), ctx.cur_key + "|ciphertext", {"m": hx(a), "c": hx(c)})
                    res = R.call("cp_shpe_dec", c1, c1, key["prv"])
                    back = R.bn_get(c1)
                    ctx.check(self.ok(res) and back[0] == a and back[3], "cp_shpe_dec|out==in,%s|round-trip" % cls,
                              {"m": hx(a), "got": hx(back[0]) if back[0] is not None else None})
                self.case("%s|out==in,%s" % (fn, cls), [sbits, nbits, hx(a)], h_)
                if fn == "cp_shpe_enc" and a in cts:
                    # encrypt again to see whether any randomness enters the ciphertext
                    def g_():
                        R.bn_put(m1, a)
                        res = R.call(fn, c1, m1, k_)
                        if self.ok(res) and R.bn_val(c1) == cts[a]:
                            self.observe("cp_shpe_enc is deterministic (same ciphertext for the same plaintext)")
                        ctx.ok()
                    self.case("cp_shpe_enc|repeat", [sbits, nbits, hx(a)], g_)
        ks_ = list(cts)
        for _ in range(min(8, len(ks_) ** 2)):
            a, b = rng.choice(ks_), rng.choice(ks_)

            def f():
                g2, (back, u2, s2, nf2) = dec(cts[a] * cts[b] % n2)
                ctx.check(g2 and back == (a + b) % n, ctx.cur_key + "|value", {"a": hx(a), "b": hx(b), "got": hx(back) if back is not None else None})
            self.case("cp_shpe_dec|product,%s" % ("wrap" if a + b >= n else "nowrap"), [sbits, nbits, hx(a), hx(b)], f)


def run_pke(ctx):
    R = PX(ctx.cfg)
    w = Pke(ctx, R)
    q = ctx.quick
    if ctx.shard == 0:
        if not q:
            # block = 2 passes the primality test of cp_bdpe_gen but no prime q has gcd(2, q - 1) = 1: the search never ends
            def b2():
                pub, prv = R.S.vf_bdpe_new(), R.S.vf_bdpe_new()
                res = R.call("cp_bdpe_gen", pub, prv, 2, 256)
                ctx.check(not w.ok(res), ctx.cur_key + "|accepted")
            w.case("cp_bdpe_gen|block=2", [2, 256], b2, budget=15)
    for i, bits in enumerate([1024, 768, 520] if q else [1024, 1018, 768, 600, 520, 512]):
        w.rabin(bits, heavy=(i == 0))
    for block, bits in ([(3, 512), (47, 512), (251, 1024)] if q else [(3, 512), (47, 512), (251, 1024), (65521, 512)]):
        w.benaloh(block, bits)
    for bits in ([512, 256] if q else [512, 384, 256, 128]):
        w.paillier(bits)
    for bits, s in ([(512, 1), (256, 2), (256, 3)] if q else [(512, 1), (340, 2), (256, 2), (256, 3), (128, 4)]):
        w.ghpe(bits, s)
    B = R.K["RLC_BN_BITS"]
    for sb in ([B // 6, B // 10] if q else [B // 6, B // 8, B // 10]):
        w.shpe(sb, B // 2)
    w.finish()



# =====================================================================================================
# ECDH, ECMQV, ECIES, Pedersen commitments on the six 256-bit curves
# =====================================================================================================
class EcKa(W):
    def __init__(self, ctx, R):
        W.__init__(self, ctx, R)
        self.d1, self.d2, self.e1, self.e2 = [R.new("bn") for _ in range(4)]
        self.Q1, self.Q2, self.E1, self.E2, self.T = [R.new("ec") for _ in range(5)]

    def fe2os(self, x):
        return x.to_bytes(self.R.FC, "big")

    def keypair(self, fn, d, Q):
        R = self.R
        res = R.call(fn, d, Q)
        if not self.ok(res):
            return None
        dv = R.bn_val(d)
        P = R.pt(Q)
        return dv, P

    def key_call(self, fn, klen, args):
        R = self.R
        kb = R.mem(klen, 0xAA)
        try:
            res = R.call(fn, kb, klen, *args)
            return self.ok(res), R.get(kb, klen), res
        finally:
            R.free(kb)

    def xcls(self, x):
        return "x<2^%d" % (8 * (self.R.FC - 1)) if x < (1 << (8 * (self.R.FC - 1))) else "x-full"

    def ecdh(self, cname, n_it):
        ctx, R, rng = self.ctx, self.R, self.rng
        E, F, G, n, p = R.EC, R.FCv, R.G, R.n, R.curve["p"]
        for it in range(n_it):
            def f():
                a = self.keypair("cp_ecdh_gen", self.d1, self.Q1)
                b = self.keypair("cp_ecdh_gen", self.d2, self.Q2)
                if not ctx.check(a is not None and b is not None, ctx.cur_key + "|unexpected-error"):
                    return None
                ctx.check(0 < a[0] < n and E.eq(F.mul(a[0], G), a[1]), ctx.cur_key + "|value", {"d": hx(a[0])})
                return a, b
            kp = self.case("cp_ecdh_gen|keypair", [cname], f)
            if not kp:
                continue
            (da, QA), (db, QB) = kp
            P = F.mul(da * R.curve["h"], QB)
            klen = rng.choice([1, 16, 20, 32, 33, 64, 100])

            def g_():
                g1, k1, r1 = self.key_call("cp_ecdh_key", klen, [self.d1, self.Q2])
                g2, k2, r2 = self.key_call("cp_ecdh_key", klen, [self.d2, self.Q1])
                if not ctx.check(g1 and g2, ctx.cur_key + "|unexpected-error"):
                    return
                ctx.check(k1 == k2, ctx.cur_key + "|parties-disagree", {"k1": k1.hex(), "k2": k2.hex()})
                ctx.check(k1 == kdf2(self.fe2os(P[0]), klen), ctx.cur_key + "|value",
                          {"x": hx(P[0]), "got": k1.hex(), "exp": kdf2(self.fe2os(P[0]), klen).hex()})
            self.case("cp_ecdh_key|%s" % self.xcls(P[0]), [cname, hx(da), hx(db), klen], g_)

    def ecdh_directed(self, cname):
        """an exchange whose shared x-coordinate has a leading zero octet, found with the model"""
        ctx, R, rng = self.ctx, self.R, self.rng
        F, G, n = R.FCv, R.G, R.n
        db = rng.randrange(1, n)
        QB = F.mul(db, G)
        lim = 1 << (8 * (R.FC - 1))
        for i in range(1500):
            da = rng.randrange(1, n)
            P = F.mul(da, QB)
            if P[0] < lim:
                break
        else:
            ctx.note("ecdh_directed_not_found", cname)
            return
        R.bn_put(self.d1, da)
        R.pt_put(self.Q2, QB)

        def g_():
            g1, k1, r1 = self.key_call("cp_ecdh_key", 32, [self.d1, self.Q2])
            if ctx.check(g1, ctx.cur_key + "|unexpected-error"):
                ctx.check(k1 == kdf2(self.fe2os(P[0]), 32), ctx.cur_key + "|value",
                          {"x": hx(P[0]), "got": k1.hex(), "exp": kdf2(self.fe2os(P[0]), 32).hex(),
                           "stripped": kdf2(P[0].to_bytes((P[0].bit_length() + 7) // 8, "big"), 32).hex()})
        self.case("cp_ecdh_key|%s" % self.xcls(P[0]), [cname, hx(da), hx(db), 32, "directed"], g_)

    def ecdh_bad(self, cname):
        ctx, R, rng = self.ctx, self.R, self.rng
        p = R.curve["p"]
        kp = self.keypair("cp_ecdh_gen", self.d1, self.Q1)
        if not kp:
            return
        Q = kp[1]
        for cls, Qv in (("Q=infinity", None), ("Q-offcurve", (Q[0], (Q[1] + 1) % p)), ("Q=(0,0)", (0, 0))):
            def f():
                R.pt_put(self.Q2, Qv)
                good, k1, res = self.key_call("cp_ecdh_key", 32, [self.d1, self.Q2])
                if cls == "Q=infinity":
                    ctx.check(not good, ctx.cur_key + "|accepted", {"key": k1.hex()})
                else:
                    ctx.ok()
                    if good:
                        self.observe("cp_ecdh_key derives a key from an off-curve point (no validation of the peer's point)")
            self.case("cp_ecdh_key|%s" % cls, [cname], f)

    # ---- curves with cofactor h > 1: peer keys that are valid curve points outside the prime-order subgroup
    def small_order(self):
        """{order class: point} of points of the active curve whose order divides the cofactor, built with the affine
        model only: T = [n]R for random curve points R, and the doublings of T ({} when h = 1)"""
        R, rng = self.R, self.rng
        E, n, p, h = R.EC, R.n, R.curve["p"], R.curve["h"]
        out = {}
        if h == 1:
            return out
        a, b = R.curve["a"], R.curve["b"]

        def order(T):
            S = None
            for k in range(1, 9):
                S = E.add(S, T)
                if S is None:
                    return "ord=%d" % k
            return "ord>8"
        for _ in range(48):
            x = rng.randrange(p)
            y = sqrt_mod((x * x * x + a * x + b) % p, p)
            if y is None:
                continue
            if rng.getrandbits(1):
                y = -y % p
            T = E.mul(n, (x, y))
            for _d in range(4):
                if T is None:
                    break
                if not (E.on_curve(T) and E.mul(h, T) is None):
                    raise RuntimeError("curve model: [n]R is not in the h-torsion")
                out.setdefault(order(T), T)
                T = E.add(T, T)
            if len(out) >= (3 if h == 8 else 2):
                break
        return out

    def ecdh_cofactor(self, cname, n_it):
        """cofactor Diffie-Hellman, Z = [h d]Q for every point Q of the curve: a peer key Q + T with T of small order is a
        valid curve point and must give the key of the honest exchange (both parties, and the protocol's value); a peer
        key of small order alone has [h]Q = infinity and must be refused"""
        ctx, R, rng = self.ctx, self.R, self.rng
        E, F, G, n, h = R.EC, R.FCv, R.G, R.n, R.curve["h"]
        tors = self.small_order()
        ctx.note("small_order_classes", {cname: sorted(tors)})
        if not tors:
            return
        lim = 1 << (8 * (R.FC - 1))
        for it in range(n_it):
            for ocls, T in sorted(tors.items()):
                # the conversion of short x-coordinates is a separate (listed) matter: keep x full-length here
                while True:
                    da, db = rng.randrange(1, n), rng.randrange(1, n)
                    QA, QB = F.mul(da, G), F.mul(db, G)
                    P = F.mul(da * h, QB)
                    if P is not None and P[0] >= lim:
                        break
                T2 = rng.choice(sorted(tors.values()))
                QBt, QAt = E.add(QB, T), E.add(QA, T2)
                if not (E.on_curve(QBt) and E.eq(E.mul(h, QBt), E.mul(h, QB)) and E.eq(F.mul(db * h, QA), P)):
                    raise RuntimeError("curve model: cofactor multiplication does not clear the small-order component")
                klen = rng.choice([16, 32, 33, 64])
                exp = kdf2(self.fe2os(P[0]), klen)
                both = it % 2 == 1

                def g_():
                    R.bn_put(self.d1, da)
                    R.bn_put(self.d2, db)
                    R.pt_put(self.Q2, QBt)
                    R.pt_put(self.Q1, QAt if both else QA)
                    g1, k1, r1 = self.key_call("cp_ecdh_key", klen, [self.d1, self.Q2])
                    g2, k2, r2 = self.key_call("cp_ecdh_key", klen, [self.d2, self.Q1])
                    if not ctx.check(g1 and g2, ctx.cur_key + "|unexpected-error", {"ok": [g1, g2]}):
                        return
                    ctx.check(k1 == k2, ctx.cur_key + "|parties-disagree", {"k1": k1.hex(), "k2": k2.hex()})
                    ctx.check(k1 == exp, ctx.cur_key + "|value", {"x": hx(P[0]), "got": k1.hex(), "exp": exp.hex()})
                    ctx.check(k2 == exp, ctx.cur_key + "|value", {"x": hx(P[0]), "got": k2.hex(), "exp": exp.hex(), "party": "B"})
                self.case("cp_ecdh_key|peer+small-order,%s%s" % (ocls, ",both" if both else ""),
                          [cname, hx(da), hx(db), [hx(T[0]), hx(T[1])], klen], g_)
        for ocls, T in sorted(tors.items()):
            da = rng.randrange(1, n)

            def f():
                R.bn_put(self.d1, da)
                R.pt_put(self.Q2, T)
                good, k1, res = self.key_call("cp_ecdh_key", 32, [self.d1, self.Q2])
                ctx.check(not good, ctx.cur_key + "|accepted", {"key": k1.hex()})
            self.case("cp_ecdh_key|peer=small-order,%s" % ocls, [cname, hx(da), [hx(T[0]), hx(T[1])]], f)

    def ecmqv(self, cname, n_it):
        ctx, R, rng = self.ctx, self.R, self.rng
        E, F, G, n = R.EC, R.FCv, R.G, R.n
        l = (n.bit_length() + 1) // 2

        def avf(P):
            return (P[0] % (1 << l)) + (1 << l)
        for it in range(n_it):
            def f():
                ks = [self.keypair("cp_ecmqv_gen", d, Q) for d, Q in ((self.d1, self.Q1), (self.e1, self.E1), (self.d2, self.Q2), (self.e2, self.E2))]
                if not ctx.check(all(k is not None for k in ks), ctx.cur_key + "|unexpected-error"):
                    return None
                ctx.check(all(0 < k[0] < n and E.eq(F.mul(k[0], G), k[1]) for k in ks), ctx.cur_key + "|value")
                return ks
            ks = self.case("cp_ecmqv_gen|keypair", [cname], f)
            if not ks:
                continue
            (d1u, Q1u), (d2u, Q2u), (d1v, Q1v), (d2v, Q2v) = ks
            su = (d2u + avf(Q2u) * d1u) % n
            P = F.lin(su, Q2v, su * avf(Q2v) % n, Q1v)
            klen = rng.choice([1, 16, 32, 48, 100])
            if P is None:
                continue

            def g_():
                g1, k1, r1 = self.key_call("cp_ecmqv_key", klen, [self.d1, self.e1, self.E1, self.Q2, self.E2])
                g2, k2, r2 = self.key_call("cp_ecmqv_key", klen, [self.d2, self.e2, self.E2, self.Q1, self.E1])
                if not ctx.check(g1 and g2, ctx.cur_key + "|unexpected-error"):
                    return
                ctx.check(k1 == k2, ctx.cur_key + "|parties-disagree", {"k1": k1.hex(), "k2": k2.hex()})
                ctx.check(k1 == kdf2(self.fe2os(P[0]), klen), ctx.cur_key + "|value", {"x": hx(P[0]), "got": k1.hex()})
            self.case("cp_ecmqv_key|%s" % self.xcls(P[0]), [cname, klen], g_)

    def ecmqv_directed(self, cname):
        """an ECMQV run whose shared x-coordinate has a leading zero octet, found with the model"""
        ctx, R, rng = self.ctx, self.R, self.rng
        F, G, n = R.FCv, R.G, R.n
        l = (n.bit_length() + 1) // 2
        avf = lambda P: (P[0] % (1 << l)) + (1 << l)
        d1u, d1v, d2v = [rng.randrange(1, n) for _ in range(3)]
        Q1u, Q1v, Q2v = F.mul(d1u, G), F.mul(d1v, G), F.mul(d2v, G)
        T = F.lin(1, Q2v, avf(Q2v), Q1v)
        lim = 1 << (8 * (R.FC - 1))
        for i in range(1500):
            d2u = rng.randrange(1, n)
            Q2u = F.mul(d2u, G)
            su = (d2u + avf(Q2u) * d1u) % n
            P = F.mul(su, T)
            if P is not None and P[0] < lim:
                break
        else:
            ctx.note("ecmqv_directed_not_found", cname)
            return
        R.bn_put(self.d1, d1u)
        R.bn_put(self.e1, d2u)
        R.pt_put(self.E1, Q2u)
        R.pt_put(self.Q2, Q1v)
        R.pt_put(self.E2, Q2v)

        def g_():
            g1, k1, r1 = self.key_call("cp_ecmqv_key", 32, [self.d1, self.e1, self.E1, self.Q2, self.E2])
            if ctx.check(g1, ctx.cur_key + "|unexpected-error"):
                ctx.check(k1 == kdf2(self.fe2os(P[0]), 32), ctx.cur_key + "|value", {"x": hx(P[0]), "got": k1.hex()})
        self.case("cp_ecmqv_key|%s" % self.xcls(P[0]), [cname, "directed"], g_)

    def ecies_key(self, P):
        """(enc key, mac key) as cp_ecies_* derive them: KDF2 over the BigInteger-style x-coordinate"""
        x = P[0]
        ln = (x.bit_length() + 7) // 8
        if x.bit_length() % 8 == 0:
            ln += 1
        size = (max(128, self.level) + 7) // 8
        kk = kdf2(x.to_bytes(ln, "big"), 2 * size)
        return kk[:size], kk[size:], size

    def ecies(self, cname, heavy, structured=True):
        ctx, R, rng = self.ctx, self.R, self.rng
        E, F, G, n, p = R.EC, R.FCv, R.G, R.n, R.curve["p"]
        self.level = R.L.ep_param_level()
        kp = self.case("cp_ecies_gen|keypair", [cname], lambda: self.keypair("cp_ecies_gen", self.d1, self.Q1))
        if not kp:
            self.ctx.fail("cp_ecies_gen|keypair|unexpected-error")
            return
        d, Q = kp
        last = None
        for L in list(range(0, 67)) + [100, 255, 256, 300]:
            if not self.mine():
                continue
            kind, pt = self.kinds(L)
            cls = "len=0" if L == 0 else ("len%16=0" if L % 16 == 0 else "len-ok")
            cap = L + 16 + 32 + 16

            res = self.case("cp_ecies_enc|%s" % cls, [cname, L, kind], lambda: self.ecies_round(pt, cap, d, cls))
            if res:
                last = (pt, res[0], res[1], cap)
            if L:
                self.case("cp_ecies_enc|out==in", [cname, L, kind], lambda: self.ecies_round(pt, cap, d, "out==in", inplace=True))
        if last is None:
            return
        pt, ct, Rp, cap = last
        body = len(ct) - 32
        pos = list(range(len(ct))) if heavy else rng.sample(range(len(ct)), 10) + [body - 1, body, len(ct) - 1]
        for i in pos:
            c2 = bytearray(ct)
            c2[i] ^= rng.randrange(1, 256)
            cls = "tag-byte" if i >= body else "body-byte"
            if i == len(ct) - 1:
                cls = "tag-last-byte"

            def f():
                good, back = self.ecies_dec(bytes(c2), Rp, cap)
                ctx.check(not good, ctx.cur_key + "|accepted", {"pos": i, "got": back.hex()})
            self.case("cp_ecies_dec|mutated-%s" % cls, [cname, i, len(ct)], f)
        for cls, c2 in (("tag-truncated", ct[:-1]), ("extended", ct + b"\0"), ("tag-only", ct[-32:]), ("body-block-dropped", ct[16:]),
                        ("tag-zero", ct[:-32] + bytes(32)), ("len<tag", b""), ("len<tag", ct[-31:]), ("len<tag", ct[:1]),
                        ("len<block+tag", ct[-47:]), ("len<block+tag", ct[-33:])):
            def f():
                good, back = self.ecies_dec(c2, Rp, cap)
                ctx.check(not good, ctx.cur_key + "|accepted", {"got": back.hex()})
            self.case("cp_ecies_dec|%s" % cls, [cname, len(c2)], f)
        for cls, Rv in (("R-other", F.mul(rng.randrange(2, n), G)), ("R-offcurve", (Rp[0], (Rp[1] + 1) % p)), ("R=infinity", None),
                        ("R-negated", E.neg(Rp))):
            def f():
                good, back = self.ecies_dec(ct, Rv, cap)
                if cls == "R-negated":
                    ctx.ok()
                    if good and back == pt:
                        self.observe("cp_ecies_dec decrypts (-R, c, tag) to the same plaintext (x-only key derivation)")
                else:
                    ctx.check(not (good and back == pt), ctx.cur_key + "|original-plaintext")
                    ctx.check(not good or cls == "R-offcurve", ctx.cur_key + "|accepted", {"got": back.hex()})
            self.case("cp_ecies_dec|%s" % cls, [cname], f)

        def small():
            good, back = self.ecies_dec(ct, Rp, max(0, len(pt) - 1))
            ctx.check(not good, ctx.cur_key + "|accepted")
        if len(pt) > 16:
            self.case("cp_ecies_dec|capacity-too-small", [cname, len(pt)], small)
        if structured:
            # the tag comparison must refuse every structured difference, not only a single altered octet
            tag = ct[-32:]
            for cls, t2 in alterations(tag, rng):
                def f():
                    good, back = self.ecies_dec(ct[:-32] + t2, Rp, cap)
                    ctx.check(not good, ctx.cur_key + "|accepted", {"tag": t2.hex(), "right": tag.hex(), "got": back.hex()})
                self.case("cp_ecies_dec|tag:%s" % cls, [cname, t2.hex()], f)
            self.ecies_model(cname, d, Q)

    def ecies_model(self, cname, d, Q):
        """ciphertexts made by the model alone (ephemeral point, KDF2, AES-CBC with PKCS#7 padding from the FIPS 197 model,
        HMAC): the well-formed ones must decrypt to the plaintext; a right tag over a body whose padding is malformed must
        be refused.  (The empty plaintext is the listed matter of cp_ecies_enc|len=0 and is generated around.)"""
        ctx, R, rng = self.ctx, self.R, self.rng
        F, G, n = R.FCv, R.G, R.n
        ke = rng.randrange(1, n)
        Rp, P = F.mul(ke, G), F.mul(ke, Q)
        ek, mk, size = self.ecies_key(P)
        if size not in (16, 24, 32):
            ctx.note("ecies_model_key_size_unsupported", size)
            return
        rk = mdbc.key_expansion(ek)
        iv = bytes(16)

        def feed(cls, padded, note=None):
            exp = mdbc.pkcs7_unpad(padded)
            if exp is not None and len(exp) == 0:
                return
            body = mdbc.cbc_encrypt_raw(rk, iv, padded)
            c2 = body + hmac256(mk, body)

            def f():
                good, back = self.ecies_dec(c2, Rp, len(c2) + 16)
                if exp is None:
                    ctx.check(not good, ctx.cur_key + "|accepted", {"padded": padded.hex(), "got": back.hex()})
                else:
                    ctx.check(good and back == exp, ctx.cur_key + ("|rejected" if not good else "|value"),
                              {"padded": padded.hex(), "got": back.hex()})
            self.case("cp_ecies_dec|model-ciphertext:%s" % cls, [cname, hx(ke), padded.hex(), note], f)
        for L in sorted({1, 16, rng.randrange(2, 16), rng.randrange(17, 80)}):
            feed("valid", mdbc.pkcs7_pad(bytes(rng.randrange(17, 256) for _ in range(L))), L)
        # the conformity of bc_aes_cbc_dec to PKCS#7 is judged exhaustively by C14; here: the scheme hands every kind of
        # malformed padding on as a refusal
        mid = rng.randrange(3, 16)
        for npad in (1, mid, 16):
            # data octets are > 16, so that the model's verdict does not hinge on a look-alike
            data = bytes(rng.randrange(17, 256) for _ in range(48 - npad))
            good_pad = bytes([npad]) * npad
            for v in (0x00, 0x11, 0xFF, npad + 1, npad - 1):
                feed("padding:last-octet", data + good_pad[:-1] + bytes([v & 0xFF]), [npad, v])
            if npad == mid:
                for cls, p2 in alterations(good_pad[:-1], rng):
                    if cls.startswith(("1-octet", "2-octets-equal-xor", "2-octets-opposite-sum", "inverted", "zero", "first-half-only")):
                        feed("padding:" + cls, data + p2 + good_pad[-1:], [npad, p2.hex()])
                # a whole last block of the padding value (valid: the data then ends with look-alikes), and of zero
                feed("padding:whole-block", data[:32] + bytes([npad]) * 16, npad)
                feed("padding:whole-block", data[:32] + bytes(16), 0)

    def ecies_dec(self, ct, Rp, cap, inplace=False):
        R = self.R
        R.pt_put(self.T, Rp)
        out, ol = R.mem(max(cap, len(ct)), 0xAA), R.cell(cap)
        if inplace:
            ctypes.memmove(out, ct, len(ct))
            ip = out
        else:
            ip = R.bytes_in(ct)
        try:
            res = R.call("cp_ecies_dec", out, ol, self.T, ip, len(ct), self.d1)
            good = self.ok(res)
            nn = R.rd_sz(ol)
            if good and nn > cap:
                self.ctx.fail(self.ctx.cur_key + "|length-beyond-capacity", {"len": nn, "cap": cap})
                return False, b""
            return good, (R.get(out, nn) if good else b"")
        finally:
            R.free(out)
            R.free(ol)
            if not inplace:
                R.free(ip)

    def ecies_round(self, pt, cap, d, cls, inplace=False):
        ctx, R = self.ctx, self.R
        E, F = R.EC, R.FCv
        L = len(pt)
        good, ct, res = self.call_io("cp_ecies_enc", pt, [self.Q1], cap, pre=[self.T], inplace=inplace)
        if not ctx.check(good, ctx.cur_key + "|unexpected-error", {"len": L}):
            return None
        Rp = R.pt(self.T)
        if not ctx.check(Rp is not None and E.on_curve(Rp), ctx.cur_key + "|ephemeral-point"):
            return None
        ctx.check(len(ct) == (L // 16 + 1) * 16 + 32, ctx.cur_key + "|ciphertext-length", {"len": len(ct)})
        P = F.mul(d, Rp)
        ek, mk, size = self.ecies_key(P)
        ctx.check(ct[-32:] == hmac256(mk, ct[:-32]), ctx.cur_key + "|tag", {"x": hx(P[0])})
        g2, back = self.ecies_dec(ct, Rp, cap, inplace=inplace)
        ctx.check(g2 and back == pt, "cp_ecies_dec|%s|round-trip" % cls, {"pt": pt.hex(), "got": back.hex(), "ok": g2})
        return ct, Rp

    def pedersen(self, cname):
        ctx, R, rng = self.ctx, self.R, self.rng
        E, F, G, n = R.EC, R.FCv, R.G, R.n
        r_, x_ = self.d1, self.d2
        Hp = F.mul(rng.randrange(2, n), G)
        for rv, xv, cls in ((rng.randrange(n), rng.randrange(1, n), "in-range"), (0, 1, "in-range"), (n - 1, n - 1, "in-range"),
                            (rng.randrange(n), rng.randrange(1, n), "in-range"),
                            (5, 0, "x=0"), (5, n, "x>=n"), (5, n + 3, "x>=n")):
            def f():
                R.bn_put(r_, rv)
                R.bn_put(x_, xv)
                R.pt_put(self.Q1, Hp)
                res = R.call("cp_ped_com", self.T, self.Q1, r_, x_)
                if cls == "in-range":
                    if ctx.check(self.ok(res), ctx.cur_key + "|unexpected-error"):
                        ctx.check(E.eq(R.pt(self.T), F.lin(xv, G, rv, Hp)), ctx.cur_key + "|value", {"r": hx(rv), "x": hx(xv)})
                elif cls == "x=0":
                    ctx.ok()
                    if not self.ok(res):
                        self.observe("cp_ped_com refuses the message x = 0")
                else:
                    ctx.check(not self.ok(res), ctx.cur_key + "|accepted")
            self.case("cp_ped_com|%s" % cls, [cname, hx(rv), hx(xv)], f)

        def hinf():
            R.bn_put(r_, 3)
            R.bn_put(x_, 4)
            R.pt_put(self.Q1, None)
            ctx.check(not self.ok(R.call("cp_ped_com", self.T, self.Q1, r_, x_)), ctx.cur_key + "|accepted")
        self.case("cp_ped_com|h=infinity", [cname], hinf)


def run_ec(ctx, alt=False):
    R = PX(ctx.cfg)
    w = EcKa(ctx, R)
    ids = R.ep_param_ids()
    ctx.note("curves", [nm for nm, _ in ids])
    orders = {}
    for ci, (nm, cid) in enumerate(ids):
        pr = R.set_curve(cid)
        orders[nm] = [pr["n"].bit_length(), hx(pr["h"])]
        if alt:
            # few runs per curve: every key is recomputed from the protocol definition for both parties
            w.ecdh(nm, ctx.n(8, 100))
            w.ecdh_cofactor(nm, ctx.n(2, 24))
            w.ecdh_directed(nm)
            w.ecmqv_directed(nm)
            w.ecdh_bad(nm)
            w.pedersen(nm)
            w.ecmqv(nm, ctx.n(8, 100))
            w.ecies(nm, heavy=not ctx.quick)
            continue
        own = ctx.mine(ci)
        w.ecdh(nm, ctx.n(25, 400))
        w.ecdh_cofactor(nm, ctx.n(2, 24))      # no-op on curves of prime order
        if own or not ctx.quick:
            w.ecdh_directed(nm)
            w.ecmqv_directed(nm)
            w.ecdh_bad(nm)
            w.pedersen(nm)
        w.ecmqv(nm, ctx.n(10, 200))
        w.ecies(nm, heavy=own, structured=own or not ctx.quick)
    ctx.note("group_order_bits_and_cofactor", orders)
    w.finish()



# =====================================================================================================
# Pairing-based: IBE, BGN, SOK key agreement, PB-PSI, pairing delegation, MPC pairing
# =====================================================================================================
class Pair(W):
    def __init__(self, ctx, R):
        W.__init__(self, ctx, R)
        self.tb = R.new("bn")
        self.e1, self.e2, self.e3 = R.new("gt"), R.new("gt"), R.new("gt")
        self.P, self.P2 = R.new("g1"), R.new("g1")
        self.Q, self.Q2 = R.new("g2"), R.new("g2")
        self.gtlen = R.call("gt_size_bin", self.e1, 0).r

    def gt_bytes(self, e):
        R = self.R
        b = R.mem(self.gtlen, 0)
        try:
            R.call("gt_write_bin", b, self.gtlen, e, 0)
            return R.get(b, self.gtlen)
        finally:
            R.free(b)

    def gt_eq(self, a, b):
        return self.R.call("gt_cmp", a, b).i == self.R.EQ

    def gt_unity(self, a):
        return self.R.call("fp12_cmp_dig", a, 1).i == self.R.EQ

    def rand_pq(self):
        R = self.R
        R.call("g1_rand", self.P)
        R.call("g2_rand", self.Q)
        R.call("pc_map", self.e1, self.P, self.Q)
        return self.P, self.Q, self.e1

    # ------------------------------------------------------------------ Boneh-Franklin IBE
    def ibe(self, cname):
        ctx, R, rng = self.ctx, self.R, self.rng
        master, pub, prv = R.new("bn"), R.new("g1"), R.new("g2")
        hdr = 2 * R.K["RLC_FP_BYTES"] + 1

        def gen():
            ok = self.ok(R.call("cp_ibe_gen", master, pub))
            ctx.check(ok, ctx.cur_key + "|unexpected-error")
            return ok
        if not self.case("cp_ibe_gen|keypair", [cname], gen):
            return
        for ident in ("alice@example.org", "", "b", "x" * 200):
            idp = R.cstr(ident)
            if not self.case("cp_ibe_gen_prv|id", [cname, len(ident)], lambda: self.ok(R.call("cp_ibe_gen_prv", prv, idp, master))):
                continue
            last = None
            for L in range(0, 35):
                if not self.mine():
                    continue
                kind, pt = self.kinds(L)
                cls = "len=0" if L == 0 else ("len>hash" if L > 32 else "len-ok")
                cap = hdr + 40

                def f():
                    good, ct, res = self.call_io("cp_ibe_enc", pt, [idp, pub], cap)
                    if cls != "len-ok":
                        ctx.ok()
                        if good:
                            self.observe("cp_ibe_enc accepts %s" % cls)
                        return None
                    if not ctx.check(good, ctx.cur_key + "|unexpected-error", {"len": L}):
                        return None
                    ctx.check(len(ct) == hdr + L, ctx.cur_key + "|ciphertext-length", {"len": len(ct)})
                    # defining equation: body = pt xor H(e(U, d_id)) with U the encoded point
                    up = R.bytes_in(ct[:hdr])
                    try:
                        R.call("g1_read_bin", self.P, up, hdr)
                    finally:
                        R.free(up)
                    R.call("pc_map", self.e1, self.P, prv)
                    pad = H(self.gt_bytes(self.e1))
                    ctx.check(cprt.xor(ct[hdr:], pad) == pt, ctx.cur_key + "|ciphertext", {"ct": ct.hex()})
                    g2, back, r2 = self.call_io("cp_ibe_dec", ct, [prv], cap)
                    ctx.check(g2 and back == pt, "cp_ibe_dec|len-ok|round-trip", {"pt": pt.hex(), "got": back.hex(), "ok": g2})
                    # decryption in place (encryption in place is unsupported: the point header overwrites the input)
                    g3, back3, r3 = self.call_io("cp_ibe_dec", ct, [prv], cap, inplace=True)
                    ctx.check(g3 and back3 == pt, "cp_ibe_dec|out==in|round-trip", {"pt": pt.hex(), "got": back3.hex(), "ok": g3})
                    return ct
                ct = self.case("cp_ibe_enc|%s" % cls, [cname, len(ident), L, kind], f)
                if ct:
                    last = (pt, ct)
            if last:
                pt, ct = last
                for i in rng.sample(range(len(ct)), min(len(ct), 12)):
                    c2 = bytearray(ct)
                    c2[i] ^= rng.randrange(1, 256)

                    def f():
                        good, back, res = self.call_io("cp_ibe_dec", bytes(c2), [prv], len(ct) + 8)
                        ctx.check(not (good and back == pt), ctx.cur_key + "|original-plaintext", {"pos": i})
                    self.case("cp_ibe_dec|mutated-%s" % ("point" if i < hdr else "body"), [cname, i], f)
                for cls, c2 in (("header-only", ct[:hdr]), ("truncated-header", ct[:hdr - 1]), ("empty", b""), ("too-long", ct + bytes(40))):
                    def f():
                        good, back, res = self.call_io("cp_ibe_dec", c2, [prv], len(c2) + 8)
                        ctx.check(not good, ctx.cur_key + "|accepted", {"got": back.hex()})
                    self.case("cp_ibe_dec|%s" % cls, [cname, len(c2)], f)
            R.free(idp)

    # ------------------------------------------------------------------ Boneh-Goh-Nissim
    def bgn(self, cname):
        ctx, R, rng = self.ctx, self.R, self.rng
        S = R.S
        pub, prv = S.vf_bgn_new(), S.vf_bgn_new()

        def gen():
            ok = self.ok(R.call("cp_bgn_gen", pub, prv))
            ctx.check(ok, ctx.cur_key + "|unexpected-error")
            return ok
        if not self.case("cp_bgn_gen|keypair", [cname], gen):
            return
        out = R.cell(0)
        c1 = [R.arr("g1", 2) for _ in range(3)]
        c2 = [R.arr("g2", 2) for _ in range(3)]
        gts = [R.arr("gt", 4) for _ in range(3)]

        def dec(fn, c):
            R.wr_sz(out, 0xDEAD)
            res = R.call(fn, out, c, prv)
            return self.ok(res), R.rd_sz(out)
        for m in [0, 1, 2, 3, 10, 11, 57, 100] + [rng.randrange(60) for _ in range(3)]:
            if not self.mine():
                continue
            for enc, d, c in (("cp_bgn_enc1", "cp_bgn_dec1", c1[0]), ("cp_bgn_enc2", "cp_bgn_dec2", c2[0])):
                def f():
                    if not ctx.check(self.ok(R.call(enc, c, m, pub)), ctx.cur_key + "|unexpected-error"):
                        return
                    good, back = dec(d, c)
                    ctx.check(good and back == m, "%s|small|round-trip" % d, {"m": m, "got": back, "ok": good})
                self.case("%s|%s" % (enc, "m=0" if m == 0 else "small"), [cname, m], f, budget=40)
        for it in range(ctx.n(4, 30)):
            a, b, c, d = [rng.randrange(0, 13) for _ in range(4)]
            if it == 0:
                a = 0
            if it == 1:
                b = 0

            def f():
                R.call("cp_bgn_enc1", c1[0], a, pub)
                R.call("cp_bgn_enc1", c1[1], c, pub)
                R.call("cp_bgn_enc2", c2[0], b, pub)
                R.call("cp_bgn_enc2", c2[1], d, pub)
                # additive homomorphism in G1 / G2: componentwise addition with lower-layer arithmetic
                for i in range(2):
                    R.call("g1_add", c1[2] + i * R.ep_sz, c1[0] + i * R.ep_sz, c1[1] + i * R.ep_sz)
                    R.call("g1_norm", c1[2] + i * R.ep_sz, c1[2] + i * R.ep_sz)
                    R.call("g2_add", c2[2] + i * R.g2_sz, c2[0] + i * R.g2_sz, c2[1] + i * R.g2_sz)
                    R.call("g2_norm", c2[2] + i * R.g2_sz, c2[2] + i * R.g2_sz)
                g1_, v1 = dec("cp_bgn_dec1", c1[2])
                ctx.check(g1_ and v1 == a + c, "cp_bgn_dec1|sum|value", {"a": a, "c": c, "got": v1})
                g2_, v2 = dec("cp_bgn_dec2", c2[2])
                ctx.check(g2_ and v2 == b + d, "cp_bgn_dec2|sum|value", {"b": b, "d": d, "got": v2})
                # multiplicative homomorphism and addition of products
                ok1 = self.ok(R.call("cp_bgn_mul", gts[0], c1[0], c2[0]))
                ok2 = self.ok(R.call("cp_bgn_mul", gts[1], c1[1], c2[1]))
                if not ctx.check(ok1 and ok2, ctx.cur_key + "|unexpected-error"):
                    return
                g3, v3 = dec("cp_bgn_dec", gts[0])
                ctx.check(g3 and v3 == a * b, "cp_bgn_dec|product|value", {"a": a, "b": b, "got": v3})
                if ctx.check(self.ok(R.call("cp_bgn_add", gts[2], gts[0], gts[1])), "cp_bgn_add|products|unexpected-error"):
                    g4, v4 = dec("cp_bgn_dec", gts[2])
                    ctx.check(g4 and v4 == a * b + c * d, "cp_bgn_dec|sum-of-products|value", {"abcd": [a, b, c, d], "got": v4})
                if ctx.check(self.ok(R.call("cp_bgn_add", gts[0], gts[0], gts[0])), "cp_bgn_add|aliased|unexpected-error"):
                    g5, v5 = dec("cp_bgn_dec", gts[0])
                    ctx.check(g5 and v5 == 2 * a * b, "cp_bgn_dec|doubled|value", {"a": a, "b": b, "got": v5})
            self.case("cp_bgn_mul|%s" % ("zero-factor" if a * b == 0 else "small"), [cname, a, b, c, d], f, budget=40)

    # ------------------------------------------------------------------ SOK identity-based key agreement
    def sokaka(self, cname):
        ctx, R, rng = self.ctx, self.R, self.rng
        S, K = R.S, R.K
        master = R.new("bn")
        if not self.case("cp_sokaka_gen|master", [cname], lambda: self.ok(R.call("cp_sokaka_gen", master))):
            return
        mv = R.bn_val(master)
        pairs = [("alice", "bob"), ("bob", "alice"), ("al", "alice"), ("alice", "al"), ("", "x"), ("abc", "abd"), ("b", "abc"),
                 ("a" * 100, "a" * 99 + "b")]
        for ia, ib in pairs:
            if not self.mine():
                continue
            klen = rng.choice([1, 16, 32, 64, 100])

            def f():
                ka, kb = S.vf_sokaka_new(), S.vf_sokaka_new()
                pa, pb = R.cstr(ia), R.cstr(ib)
                try:
                    if not ctx.check(self.ok(R.call("cp_sokaka_gen_prv", ka, pa, master)) and self.ok(R.call("cp_sokaka_gen_prv", kb, pb, master)),
                                     ctx.cur_key + "|unexpected-error"):
                        return
                    b1, b2 = R.mem(klen, 0xAA), R.mem(klen, 0xAA)
                    r1 = R.call("cp_sokaka_key", b1, klen, pa, ka, pb)
                    r2 = R.call("cp_sokaka_key", b2, klen, pb, kb, pa)
                    if not ctx.check(self.ok(r1) and self.ok(r2), ctx.cur_key + "|unexpected-error"):
                        return
                    k1, k2 = R.get(b1, klen), R.get(b2, klen)
                    ctx.check(k1 == k2, ctx.cur_key + "|parties-disagree", {"k1": k1.hex(), "k2": k2.hex()})
                    # protocol value: e(H1(id_first), H2(id_second))^s, first = the smaller identity
                    first, second = (ia, ib) if (ia.encode() < ib.encode()) else (ib, ia)
                    f1, f2 = R.bytes_in(first.encode()), R.bytes_in(second.encode())
                    R.call("g1_map", self.P, f1, len(first))
                    R.call("g2_map", self.Q, f2, len(second))
                    R.free(f1)
                    R.free(f2)
                    R.bn_put(self.tb, mv)
                    R.call("g1_mul", self.P, self.P, self.tb)
                    R.call("g1_norm", self.P, self.P)
                    R.call("g2_norm", self.Q, self.Q)
                    R.call("pc_map", self.e1, self.P, self.Q)
                    ctx.check(k1 == kdf2(self.gt_bytes(self.e1), klen), ctx.cur_key + "|value", {"k1": k1.hex()})
                    R.free(b1)
                    R.free(b2)
                finally:
                    R.free(pa)
                    R.free(pb)
            rel = "prefix" if (ia.startswith(ib) or ib.startswith(ia)) else ("same-length" if len(ia) == len(ib) else "other")
            self.case("cp_sokaka_key|%s" % rel, [cname, ia[:20], ib[:20], klen], f)

        def same():
            ka, pa = S.vf_sokaka_new(), R.cstr("carol")
            R.call("cp_sokaka_gen_prv", ka, pa, master)
            b1 = R.mem(16, 0)
            res = R.call("cp_sokaka_key", b1, 16, pa, ka, pa)
            ctx.check(not self.ok(res), ctx.cur_key + "|accepted")
        self.case("cp_sokaka_key|same-identity", [cname], same)

    # ------------------------------------------------------------------ pairing-based PSI
    def pbpsi(self, cname):
        ctx, R, rng = self.ctx, self.R, self.rng
        n = R.n
        for m, l, ov in [(0, 2, 0), (1, 1, 1), (1, 3, 0), (3, 3, 0), (3, 3, 2), (3, 3, 3), (4, 2, 1), (2, 4, 2), (3, 0, 0)]:
            if not self.mine():
                continue

            def f():
                xs = rng.sample(range(1, 1 << 40), m) if rng.random() < 0.5 else [rng.randrange(1, n) for _ in range(m)]
                ys = xs[:ov] + [rng.randrange(1, n) for _ in range(l - ov)]
                rng.shuffle(ys)
                sk, ss, r_ = R.new("bn"), R.new("g1"), R.new("bn")
                s_ = R.arr("g2", m + 1)
                d_ = R.arr("g2", m + 1)
                x_, y_, z_ = R.arr("bn", max(1, m)), R.arr("bn", max(1, l)), R.arr("bn", max(1, m * max(1, l)))
                t_, u_ = R.arr("gt", max(1, l)), R.arr("g1", max(1, l))
                ln = R.cell(0)
                for i, v in enumerate(xs):
                    R.bn_put(x_ + i * R.bn_sz, v)
                for i, v in enumerate(ys):
                    R.bn_put(y_ + i * R.bn_sz, v)
                ok = self.ok(R.call("cp_pbpsi_gen", sk, ss, s_, m)) and self.ok(R.call("cp_pbpsi_ask", d_, r_, x_, s_, m)) \
                    and self.ok(R.call("cp_pbpsi_ans", t_, u_, ss, d_, y_, l)) \
                    and self.ok(R.call("cp_pbpsi_int", z_, ln, d_, x_, m, t_, u_, l))
                if not ctx.check(ok, ctx.cur_key + "|unexpected-error"):
                    return
                cnt = R.rd_sz(ln)
                got = sorted(R.bn_val(z_ + i * R.bn_sz) for i in range(min(cnt, m * max(1, l))))
                ctx.check(got == sorted(set(xs) & set(ys)), ctx.cur_key + "|intersection", {"got": [hx(v) for v in got], "x": [hx(v) for v in xs],
                                                                                           "y": [hx(v) for v in ys]})
                for q_ in (sk, ss, r_, s_, d_, x_, y_, z_, t_, u_, ln):
                    R.free(q_)
            self.case("cp_pbpsi_int|m=%d,l=%d,common=%d" % (m, l, ov), [cname], f)

    # ------------------------------------------------------------------ pairing delegation
    def delegation(self, cname):
        ctx, R, rng = self.ctx, self.R, self.rng
        c, r1 = R.new("bn"), R.new("bn")
        r3 = R.arr("bn", 3)
        u1, v1 = R.new("g1"), R.new("g1")
        u2, v2, w2 = R.new("g2"), R.new("g2"), R.new("g2")
        u1a, v1a = R.arr("g1", 2), R.arr("g1", 3)
        u2a, v2a, w2a = R.arr("g2", 2), R.arr("g2", 4), R.arr("g2", 4)
        e, ea, g, rr = R.new("gt"), R.arr("gt", 2), R.arr("gt", 4), R.new("gt")
        gs = R.gt_sz

        def tamper(kind, slot):
            a = g + slot * gs
            if kind == "unity":
                R.call("fp12_set_dig", a, 1)
            elif kind == "random":
                R.call("gt_rand", a)
            elif kind == "squared":
                R.call("fp12_sqr", a, a)
            elif kind == "zero":
                R.call("fp12_zero", a)
            elif kind == "bitflip":
                co = R.fpx_get(a, 12)[0]
                co[rng.randrange(12)] ^= 1 << rng.randrange(250)
                R.fpx_put(a, co)
            elif kind == "times-random":
                R.call("gt_rand", self.e3)
                R.call("gt_mul", a, a, self.e3)
            elif kind == "times-minus-one":
                R.call("fp12_neg", a, a)
            elif kind == "times-order-3":
                R.fpx_put(self.e3, [omega] + [0] * 11)
                R.call("fp12_mul", a, a, self.e3)
            elif kind == "times-non-member":
                nonmember(self.e3)
                R.call("fp12_mul", a, a, self.e3)

        # elements of Fp12^* outside the order-n subgroup: -1, a primitive cube root of unity of Fp, and f^n for random f
        pp_ = R.curve["p"]
        omega = 1
        gq = 2
        while omega == 1 and pp_ % 3 == 1:
            omega = pow(gq, (pp_ - 1) // 3, pp_)
            gq += 1
        nbn = R.bn(R.n)

        def nonmember(out):
            R.fpx_put(out, [rng.randrange(1, pp_) for _ in range(12)])
            R.call("fp12_exp", out, out, nbn)

        def coset(slot, target, with_c):
            """g[slot] *= h and g[target] *= h^c (or h): the algebraic relation of the verifier still holds"""
            nonmember(self.e3)
            R.call("fp12_mul", g + slot * gs, g + slot * gs, self.e3)
            if with_c:
                R.call("fp12_exp", self.e3, self.e3, c)
            R.call("fp12_mul", g + target * gs, g + target * gs, self.e3)

        def judge(fn, ret, honest):
            good = (not ret.caught)
            val_ok = self.gt_eq(rr, self.e1)
            unity = self.gt_unity(rr)
            if honest:
                ctx.check(good and ret.i == 1 and val_ok, ctx.cur_key + "|value", {"ret": ret.i, "equal": val_ok})
            else:
                # a tampered answer may only be accepted if it still yields e(P, Q); otherwise the verifier answers 0
                # and must not leave a wrong non-trivial value in r
                ctx.check(val_ok or unity or not good, ctx.cur_key + "|wrong-pairing-value", {"ret": ret.i})
                if good:
                    ctx.check(ret.i == (1 if val_ok else 0), ctx.cur_key + "|return-value", {"ret": ret.i, "r-is-unity": unity})
        protos = [("pdpub", 3), ("lvpub", 2), ("pdprv", 4), ("lvprv", 3)]
        for name, ng in protos:
            def run_once(t_kind=None, slot=0, rel=None):
                P, Q, ex = self.rand_pq()
                if name == "pdpub":
                    ok = self.ok(R.call("cp_pdpub_gen", c, r1, u1, u2, v2, e)) and self.ok(R.call("cp_pdpub_ask", v1, w2, P, Q, c, r1, u1, u2, v2)) \
                        and self.ok(R.call("cp_pdpub_ans", g, P, Q, v1, v2, w2))
                elif name == "lvpub":
                    ok = self.ok(R.call("cp_lvpub_gen", r1, u1, u2, v2, e)) and self.ok(R.call("cp_lvpub_ask", c, v1, w2, P, Q, r1, u1, u2, v2)) \
                        and self.ok(R.call("cp_lvpub_ans", g, P, Q, v1, v2, w2))
                elif name == "pdprv":
                    ok = self.ok(R.call("cp_pdprv_gen", c, r3, u1a, u2a, v2a, ea)) and self.ok(R.call("cp_pdprv_ask", v1a, w2a, P, Q, c, r3, u1a, u2a, v2a)) \
                        and self.ok(R.call("cp_pdprv_ans", g, v1a, w2a))
                else:
                    ok = self.ok(R.call("cp_lvprv_gen", c, r3, u1a, u2a, v2a, ea)) and self.ok(R.call("cp_lvprv_ask", v1a, w2a, P, Q, c, r3, u1a, u2a, v2a)) \
                        and self.ok(R.call("cp_lvprv_ans", g, v1a, w2a))
                if not ctx.check(ok, ctx.cur_key + "|unexpected-error"):
                    return
                if t_kind:
                    tamper(t_kind, slot)
                if rel:
                    coset(*rel)
                R.call("fp12_zero", rr)         # sentinel: a verifier that leaves r untouched is seen
                ret = R.call("cp_%s_ver" % name, rr, g, c, e if name.endswith("pub") else ea)
                judge(name, ret, t_kind is None and rel is None)
            for _ in range(ctx.n(2, 10)):
                self.case("cp_%s_ver|honest" % name, [cname], run_once)
            for slot in range(ng):
                for kind in ("unity", "random", "squared", "zero", "bitflip", "times-random"):
                    if not self.mine():
                        continue
                    self.case("cp_%s_ver|tampered-g%d,%s" % (name, slot, kind), [cname], lambda: run_once(kind, slot))
                # factors outside GT: acceptance depends on the random challenge (h^c = 1), so several sessions each
                for kind, sessions in (("times-minus-one", 6), ("times-order-3", 8 if omega != 1 else 0), ("times-non-member", 2)):
                    for it in range(sessions if slot == 0 else min(sessions, 2)):
                        if self.mine():
                            self.case("cp_%s_ver|tampered-g%d,%s" % (name, slot, kind), [cname, it], lambda: run_once(kind, slot))
            # g[slot] h, g[target] h^c (or h): the relation the verifier tests still holds, only membership tells
            rels = {"pdpub": [(0, 1, True), (2, 1, False)], "lvpub": [(0, 1, True)],
                    "pdprv": [(0, 3, True), (2, 3, True), (1, 3, False)], "lvprv": [(0, 2, True), (1, 2, False)]}[name]
            for rel in rels:
                for it in range(2):
                    if self.mine():
                        self.case("cp_%s_ver|coset-g%d-g%d" % (name, rel[0], rel[1]), [cname, it], lambda: run_once(None, 0, rel))
            # the precomputed e / e[i] are the client's own trusted values, not helper answers: not altered

    # ------------------------------------------------------------------ pairing on shared inputs
    def mpc_pairing(self, cname):
        ctx, R, rng = self.ctx, self.R, self.rng
        K = R.K
        ps = K["sizeof_pt_st"]
        oa, ob, oc = K["off_pt_st_a"], K["off_pt_st_b"], K["off_pt_st_c"]
        tri = R.mem(2 * ps, 0)
        for i in range(2):
            R.call("ep_set_infty", tri + i * ps + oa)
            R.call("ep2_set_infty", tri + i * ps + ob)
            R.call("fp12_zero", tri + i * ps + oc)
        p_, d_ = R.arr("g1", 2), R.arr("g1", 2)
        q_, e_ = R.arr("g2", 2), R.arr("g2", 2)
        r_ = R.arr("gt", 2)
        es, g2s, gs = R.ep_sz, R.g2_sz, R.gt_sz
        for it in range(ctx.n(3, 30)):
            def f():
                R.call("pc_map_tri", tri)
                # the triple is consistent: e(a0 + a1, b0 + b1) = c0 c1
                R.call("g1_add", self.P, tri + oa, tri + ps + oa)
                R.call("g1_norm", self.P, self.P)
                R.call("g2_add", self.Q, tri + ob, tri + ps + ob)
                R.call("g2_norm", self.Q, self.Q)
                R.call("pc_map", self.e1, self.P, self.Q)
                R.call("gt_mul", self.e2, tri + oc, tri + ps + oc)
                ctx.check(self.gt_eq(self.e1, self.e2), "pc_map_tri|random|triple-inconsistent")
                # random inputs, additively shared (one share may be the identity)
                R.call("g1_rand", self.P)
                R.call("g2_rand", self.Q)
                R.call("pc_map", self.e1, self.P, self.Q)
                if it == 1:
                    R.call("ep_set_infty", p_ + es)
                    R.call("ep2_set_infty", q_ + g2s)
                else:
                    R.call("g1_rand", p_ + es)
                    R.call("g2_rand", q_ + g2s)
                R.call("g1_sub", p_, self.P, p_ + es)
                R.call("g1_norm", p_, p_)
                R.call("g2_sub", q_, self.Q, q_ + g2s)
                R.call("g2_norm", q_, q_)
                for i in range(2):
                    R.call("pc_map_lcl", d_ + i * es, e_ + i * g2s, p_ + i * es, q_ + i * g2s, tri + i * ps)
                R.call("pc_map_bct", d_, e_)
                ctx.check(R.call("g1_cmp", d_, d_ + es).i == R.EQ and R.call("g2_cmp", e_, e_ + g2s).i == R.EQ,
                          "pc_map_bct|random|not-replicated")
                for i in range(2):
                    R.call("pc_map_mpc", r_ + i * gs, d_ + i * es, e_ + i * g2s, tri + i * ps, i)
                R.call("gt_mul", self.e2, r_, r_ + gs)
                ctx.check(self.gt_eq(self.e1, self.e2), ctx.cur_key + "|value")
            self.case("pc_map_mpc|%s" % ("identity-share" if it == 1 else "random"), [cname, it], f)


    # ------------------------------------------------------------------ scalar multiplication on shared inputs
    def mpc_scalar(self, cname):
        """g1_mul / g2_mul / gt_exp on additively shared scalar and group element with a multiplication triple"""
        ctx, R, rng = self.ctx, self.R, self.rng
        K, n = R.K, R.n
        ms = K["sizeof_mt_st"]
        oa, ob, oc, ob1, oc1 = K["off_mt_st_a"], K["off_mt_st_b"], K["off_mt_st_c"], K["off_mt_st_b1"], K["off_mt_st_c1"]
        nb = R.bn(n)
        groups = {"g1": ("g1", R.ep_sz, "g1_mul_gen", "g1_mul", "g1_add", "g1_sub", "g1_norm", "g1_cmp", "g1_rand"),
                  "g2": ("g2", R.g2_sz, "g2_mul_gen", "g2_mul", "g2_add", "g2_sub", "g2_norm", "g2_cmp", "g2_rand"),
                  "gt": ("gt", R.gt_sz, None, "gt_exp", "gt_mul", None, None, "gt_cmp", "gt_rand")}
        for gname, (kind, sz, mulgen, mul, add, sub, norm, cmp_, rnd) in groups.items():
            fn = {"g1": "g1_mul", "g2": "g2_mul", "gt": "gt_exp"}[gname]
            for it in range(ctx.n(3, 25)):
                kv = rng.choice([0, 1, n - 1]) if it == 0 else rng.randrange(n)

                def f():
                    tri = R.S.vf_c05_mt_new(2)
                    R.call("mpc_mt_gen", tri, nb)
                    P, Pexp, T = R.new(kind), R.new(kind), R.new(kind)
                    p_, d_, b_, c_ = R.arr(kind, 2), R.arr(kind, 2), R.arr(kind, 2), R.arr(kind, 2)
                    l_, kb = R.arr("bn", 2), R.new("bn")
                    gen = R.new("gt")
                    R.call("gt_get_gen", gen)

                    def smul(out, k):
                        R.bn_put(kb, k)
                        if mulgen:
                            R.call(mulgen, out, kb)
                        else:
                            R.call("gt_exp", out, gen, kb)
                    R.call(rnd, P)
                    R.bn_put(kb, kv)
                    R.call(mul, Pexp, P, kb)
                    if norm:
                        R.call(norm, Pexp, Pexp)
                    # share the element and the scalar
                    R.call(rnd, p_ + sz)
                    if gname == "gt":
                        R.call("gt_inv", T, p_ + sz)
                        R.call("gt_mul", p_, P, T)
                    else:
                        R.call(sub, p_, P, p_ + sz)
                        R.call(norm, p_, p_)
                    k1 = rng.randrange(n)
                    ks = [(kv - k1) % n, k1]
                    for i in range(2):
                        smul(b_ + i * sz, R.bn_val(tri + i * ms + ob))
                        smul(c_ + i * sz, R.bn_val(tri + i * ms + oc))
                        R.wr_sz(tri + i * ms + ob1, b_ + i * sz)
                        R.wr_sz(tri + i * ms + oc1, c_ + i * sz)
                    for i in range(2):
                        R.bn_put(kb, ks[i])
                        R.call(fn + "_lcl", l_ + i * R.bn_sz, d_ + i * sz, kb, p_ + i * sz, tri + i * ms)
                    R.call(fn + "_bct", l_, d_)
                    a = (R.bn_val(tri + oa) + R.bn_val(tri + ms + oa)) % n
                    ctx.check(R.bn_val(l_) == (kv - a) % n and R.bn_val(l_ + R.bn_sz) == R.bn_val(l_) and R.call(cmp_, d_, d_ + sz).i == R.EQ,
                              "%s_bct|random|value" % fn, {"d": hx(R.bn_val(l_))})
                    for i in range(2):
                        R.call(fn + "_mpc", d_ + i * sz, l_ + i * R.bn_sz, d_ + i * sz, tri + i * ms, i)
                    R.call(add, T, d_, d_ + sz)
                    if norm:
                        R.call(norm, T, T)
                    ctx.check(R.call(cmp_, T, Pexp).i == R.EQ, ctx.cur_key + "|value", {"k": hx(kv)})
                    for q_ in (tri, P, Pexp, T, p_, d_, b_, c_, l_, kb, gen):
                        R.free(q_)
                self.case("%s_mpc|%s" % (fn, "k-boundary" if it == 0 else "random"), [cname, hx(kv)], f)


def run_pairing(ctx):
    R = PX(ctx.cfg)
    names = R.pairing_names()
    ctx.note("curves", names)
    for nm in names:
        R.set_curve(R.E[nm], pairing=True)
        w = Pair(ctx, R)
        w.di = 1000 * names.index(nm)
        w.ibe(nm)
        w.bgn(nm)
        w.sokaka(nm)
        w.pbpsi(nm)
        w.delegation(nm)
        w.mpc_pairing(nm)
        w.mpc_scalar(nm)
        w.finish()


# =====================================================================================================
# Secret sharing, multiplication triples, factoring-based PSI
# =====================================================================================================
class Mpc(W):
    def sss(self, order, ocls):
        ctx, R, rng = self.ctx, self.R, self.rng
        ob = R.bn(order)
        for k in range(2, 6):
            for n in range(k, 7):
                if not self.mine():
                    continue
                secret = rng.choice([0, 1, order - 1, rng.randrange(order), rng.randrange(order)])

                def f():
                    x_, y_ = R.arr("bn", n), R.arr("bn", n)
                    sb, kb = R.bn(secret), R.new("bn")
                    res = R.call("mpc_sss_gen", x_, y_, sb, ob, k, n)
                    if not ctx.check(self.ok(res), ctx.cur_key + "|unexpected-error"):
                        return
                    xs = [R.bn_val(x_ + i * R.bn_sz) for i in range(n)]
                    ys = [R.bn_val(y_ + i * R.bn_sz) for i in range(n)]
                    ctx.check(len(set(x % order for x in xs)) == n and all(x % order for x in xs) and all(0 <= y < order for y in ys),
                              ctx.cur_key + "|shares-malformed", {"x": [hx(v) for v in xs]})

                    def lagrange0(idx):
                        acc = 0
                        for i in idx:
                            num, den = 1, 1
                            for j in idx:
                                if j != i:
                                    num = num * xs[j] % order
                                    den = den * (xs[j] - xs[i]) % order
                            acc = (acc + ys[i] * num * pow(den, -1, order)) % order
                        return acc
                    xa, ya = R.arr("bn", k), R.arr("bn", k)
                    for idx in itertools.combinations(range(n), k):
                        exp = lagrange0(idx)
                        ctx.check(exp == secret % order, ctx.cur_key + "|shares-not-on-polynomial", {"subset": list(idx)})
                        order_idx = list(idx)
                        if rng.random() < 0.5:
                            rng.shuffle(order_idx)
                        for t, i in enumerate(order_idx):
                            R.bn_put(xa + t * R.bn_sz, xs[i])
                            R.bn_put(ya + t * R.bn_sz, ys[i])
                        R.bn_put(kb, rng.getrandbits(60))
                        res = R.call("mpc_sss_key", kb, xa, ya, ob, k)
                        got = R.bn_get(kb)
                        ctx.check(self.ok(res) and got[0] == secret % order and got[3], "mpc_sss_key|%s,k=%d|value" % (ocls, k),
                                  {"subset": order_idx, "got": hx(got[0]) if got[0] is not None else None, "secret": hx(secret)})
                    for q_ in (x_, y_, sb, kb, xa, ya):
                        R.free(q_)
                self.case("mpc_sss_gen|%s,k=%d" % (ocls, k), [hx(order), k, n, hx(secret)], f)
        for k, n in ((1, 3), (0, 2), (4, 3)):
            def f():
                x_, y_ = R.arr("bn", max(1, n)), R.arr("bn", max(1, n))
                res = R.call("mpc_sss_gen", x_, y_, R.bn(5), ob, k, n)
                ctx.check(not self.ok(res), ctx.cur_key + "|accepted")
            self.case("mpc_sss_gen|bad-threshold", [k, n], f)

    def mt(self, order, ocls):
        ctx, R, rng = self.ctx, self.R, self.rng
        K = R.K
        ob = R.bn(order)
        ms = K["sizeof_mt_st"]
        oa, ob_, oc = K["off_mt_st_a"], K["off_mt_st_b"], K["off_mt_st_c"]
        for it in range(ctx.n(6, 60)):
            x, y = rng.randrange(order), rng.randrange(order)
            if it == 0:
                x = 0
            if it == 1:
                x, y = order - 1, order - 1

            def f():
                tri = R.S.vf_c05_mt_new(2)
                R.call("mpc_mt_gen", tri, ob)
                g = lambda i, o: R.bn_val(tri + i * ms + o)
                a, b, c = (g(0, oa) + g(1, oa)) % order, (g(0, ob_) + g(1, ob_)) % order, (g(0, oc) + g(1, oc)) % order
                ctx.check(a * b % order == c and all(0 <= g(i, o) < order for i in range(2) for o in (oa, ob_, oc)),
                          "mpc_mt_gen|%s|triple-inconsistent" % ocls, {"a": hx(a), "b": hx(b), "c": hx(c)})
                x0, y0 = rng.randrange(order), rng.randrange(order)
                xs, ys = [x0, (x - x0) % order], [y0, (y - y0) % order]
                d_, e_ = R.arr("bn", 2), R.arr("bn", 2)
                xb, yb, rb = R.new("bn"), R.new("bn"), [R.new("bn"), R.new("bn")]
                for i in range(2):
                    R.bn_put(xb, xs[i])
                    R.bn_put(yb, ys[i])
                    R.call("mpc_mt_lcl", d_ + i * R.bn_sz, e_ + i * R.bn_sz, xb, yb, ob, tri + i * ms)
                R.call("mpc_mt_bct", d_, e_, ob)
                dv, ev = R.bn_val(d_), R.bn_val(e_)
                ctx.check(dv == (x - a) % order and ev == (y - b) % order and R.bn_val(d_ + R.bn_sz) == dv and R.bn_val(e_ + R.bn_sz) == ev,
                          "mpc_mt_bct|%s|value" % ocls, {"d": hx(dv), "e": hx(ev)})
                for i in range(2):
                    R.call("mpc_mt_mul", rb[i], d_ + i * R.bn_sz, e_ + i * R.bn_sz, ob, tri + i * ms, i)
                got = (R.bn_val(rb[0]) + R.bn_val(rb[1])) % order
                ctx.check(got == x * y % order, ctx.cur_key + "|value", {"x": hx(x), "y": hx(y), "got": hx(got)})
                for q_ in (tri, d_, e_, xb, yb, rb[0], rb[1]):
                    R.free(q_)
            self.case("mpc_mt_mul|%s" % ocls, [hx(order), hx(x), hx(y)], f)

    def psi(self, kind, bits):
        ctx, R, rng = self.ctx, self.R, self.rng
        S = R.S
        g, nb = R.new("bn"), R.new("bn")
        crt = S.vf_crt_new()

        def gen():
            if kind == "rsapsi":
                ok = self.ok(R.call("cp_rsapsi_gen", g, nb, bits))
                n = R.bn_val(nb)
            else:
                ok = self.ok(R.call("cp_shipsi_gen", g, crt, bits))
                n = R.crt_get(crt)["n"]
                R.bn_put(nb, n)
            if not ctx.check(ok, ctx.cur_key + "|unexpected-error"):
                return None
            ctx.check(math.gcd(R.bn_val(g), n) == 1 and n.bit_length() >= bits - 1, ctx.cur_key + "|setup-inconsistent")
            return n
        n = self.case("cp_%s_gen|bits=%d" % (kind, bits), [bits], gen, budget=300)
        if not n:
            return
        for m, l, ov in [(0, 2, 0), (1, 1, 1), (1, 3, 0), (3, 3, 0), (3, 3, 2), (3, 3, 3), (4, 2, 1), (2, 4, 2), (3, 0, 0), (4, 4, 4)]:
            if not self.mine():
                continue

            def f():
                xs = rng.sample(range(0, 1 << 30), m) if rng.random() < 0.5 else [rng.randrange(n) for _ in range(m)]
                while len(set(xs)) < m:
                    xs = [rng.randrange(n) for _ in range(m)]
                ys = xs[:ov] + [rng.randrange(n) for _ in range(l - ov)]
                rng.shuffle(ys)
                d_, r_ = R.new("bn"), R.new("bn")
                p_, x_, z_ = R.arr("bn", max(1, m)), R.arr("bn", max(1, m)), R.arr("bn", max(1, m * max(1, l)))
                y_, t_, u_ = R.arr("bn", max(1, l)), R.arr("bn", max(1, l)), R.arr("bn", max(1, l))
                ln = R.cell(0)
                for i, v in enumerate(xs):
                    R.bn_put(x_ + i * R.bn_sz, v)
                for i, v in enumerate(ys):
                    R.bn_put(y_ + i * R.bn_sz, v)
                if kind == "rsapsi":
                    ok = self.ok(R.call("cp_rsapsi_ask", d_, r_, p_, g, nb, x_, m)) and self.ok(R.call("cp_rsapsi_ans", t_, u_, d_, g, nb, y_, l)) \
                        and self.ok(R.call("cp_rsapsi_int", z_, ln, r_, p_, nb, x_, m, t_, u_, l))
                else:
                    ok = self.ok(R.call("cp_shipsi_ask", d_, r_, p_, g, nb, x_, m)) and self.ok(R.call("cp_shipsi_ans", t_, u_, d_, g, crt, y_, l)) \
                        and self.ok(R.call("cp_shipsi_int", z_, ln, r_, p_, nb, x_, m, t_, u_, l))
                if not ctx.check(ok, ctx.cur_key + "|unexpected-error"):
                    return
                cnt = R.rd_sz(ln)
                got = sorted(R.bn_val(z_ + i * R.bn_sz) for i in range(min(cnt, m * max(1, l))))
                ctx.check(got == sorted(set(xs) & set(ys)), ctx.cur_key + "|intersection",
                          {"got": [hx(v) for v in got], "x": [hx(v) for v in xs], "y": [hx(v) for v in ys]})
                # the element-to-prime map is the documented one: distinct primes
                ps_ = [R.bn_val(p_ + i * R.bn_sz) for i in range(m)]
                ctx.check(all(is_probable_prime(v) for v in ps_) and len(set(ps_)) == m, ctx.cur_key + "|prime-map", {"p": [hx(v) for v in ps_]})
                for q_ in (d_, r_, p_, x_, z_, y_, t_, u_, ln):
                    R.free(q_)
            self.case("cp_%s_int|m=%d,l=%d,common=%d" % (kind, m, l, ov), [bits], f, budget=300)


def run_mpc(ctx):
    R = PX(ctx.cfg)
    w = Mpc(ctx, R)
    nist = 0xFFFFFFFF00000000FFFFFFFFFFFFFFFFBCE6FAADA7179E84F3B9CAC2FC632551
    orders = [(nist, "256-bit"), (251, "8-bit"), (7, "3-bit"), ((1 << 127) - 1, "127-bit")]
    if not ctx.quick:
        orders.append(((1 << 521) - 1, "521-bit"))
    for order, ocls in orders:
        w.sss(order, ocls)
        w.mt(order, ocls)
    for kind in ("rsapsi", "shipsi"):
        for bits in ([512] if ctx.quick else [512, 768, 1024]):
            w.psi(kind, bits)
    w.finish()


def run(ctx, part):
    if part == "rsa":
        run_rsa(ctx)
    elif part == "pke":
        run_pke(ctx)
    elif part == "ec":
        run_ec(ctx)
    elif part == "ec-alt":
        run_ec(ctx, alt=True)
    elif part == "pairing":
        run_pairing(ctx)
    elif part == "mpc":
        run_mpc(ctx)
    else:
        ctx.note("part-not-implemented", part)
