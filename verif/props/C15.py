"""C15 - the deterministic random generator follows Hash_DRBG (SP 800-90A, SHA-256) for every call history.

Lock-step monitor: a Python Hash_DRBG (verif/model/drbg.py, validated at run time on the CAVS vectors embedded in
/repo/test/test_rand.c) is advanced together with the library; after every call the output bytes AND the working
state read from the context (ctx->rand = prefix byte || V || C, ctx->counter, ctx->seeded) must equal the model.
bn_rand / bn_rand_mod are judged without any model of the sampling algorithm: range / bit length / sign as the
property states them; determinism (the call is repeated from the saved generator state, into another output object and
aliased with the bound, and must give the same value and the same generator state); the generator state afterwards must
be the state after k >= 1 plain generate calls (the Hash_DRBG state update does not depend on the request size), and a
rand_bytes call right after must continue the model's stream from that state.
"""
import ctypes
import hashlib
import os
import re

from ..rt import RT, MonitorViolation
from ..ctx import hx
from .. import build
from ..model import drbg

LEVEL = "exploration"
RULE = ("random call histories over {instantiate (three ways), reseed(len 1..300 and special lengths), "
        "generate(len in 0,1,31,32,33,55,56,64,65,1000,65535,65536,65537), bn_rand(bits), bn_rand_mod(bound)}; after "
        "every call output and (V, C, reseed counter, seeded) are compared with the model; directed long histories "
        "carry the reseed counter across 2^8, 2^15 and 2^16 with one-byte requests; seeds searched in the model and "
        "directly injected states force carry ripples across the H boundary (byte 23), the top (mod 2^440) and from "
        "the counter addition; every call is a case, distinct = distinct (operation, class, history position)")
ASSUMPTIONS = ["hashlib.sha256 is SHA-256",
               "verif/model/drbg.py is Hash_DRBG of SP 800-90A (checked on the CAVS vectors of test/test_rand.c at run time)",
               "a state written directly into ctx->rand / ctx->counter is a legitimate starting state for the step "
               "function (classes marked 'injected')",
               "an integer sampler consumes the generator only through generate requests (1..64 per call): the state after "
               "it is step^k of the state before it, whatever sizes it asks for"]

GEN_LENS = [0, 1, 31, 32, 33, 55, 56, 64, 65, 1000, 65535, 65536, 65537]
KNOWN_CTR = 32513          # first reseed counter for which counter + 255 does not fit an int16_t (defect repaired in ce0163b; class kept)


def parts(tier):
    q = tier == "quick"
    return [dict(part="hist", cfg="asan256", shards=6 if q else 12),
            dict(part="long", cfg="asan256", shards=4)]


def lencls(n):
    if n == 0:
        return "len0"
    if n < 32:
        return "len<32"
    if n == 32:
        return "len32"
    if n < 64:
        return "len33-63"
    if n == 64:
        return "len64"
    if n < 65536:
        return "len65+"
    if n == 65536:
        return "len65536"
    return "len>65536"


def ctrcls(c):
    if c < 256:
        return "c<256"
    if c < KNOWN_CTR:
        return "c<32513"
    return "c>=32513"


def cavs_vectors():
    """-> (seed1, seed2, seed3, result1, result2) parsed from the SHA-256 section of test/test_rand.c, or None"""
    try:
        txt = open(os.path.join(build.REPO, "test", "test_rand.c")).read()
        sec = re.search(r"#elif MD_MAP == SH256(.*?)#elif", txt, re.S).group(1)
        sl = int(re.search(r"seed1\[(\d+)\]", sec).group(1))
        arr = {}
        for n, b in re.findall(r"uint8_t (result\d)\[\] = \{(.*?)\};", sec, re.S):
            arr[n] = bytes(int(x, 16) for x in re.findall(r"0x([0-9A-Fa-f]{2})", b))
        if len(arr.get("result1", b"")) != 128 or len(arr.get("result2", b"")) != 128 or sl < 55:
            return None
        # the test fills seed1 with i for i < seedlen and 0x20 + (i - seedlen) for the nonce, seed2/3 with 0x80+i, 0xC0+i
        if "seed1[i] = 0x20 + (i - (RLC_RAND_SIZE - 1) / 2)" not in txt or "seed2[i] = 0x80 + i" not in txt \
                or "seed3[i] = 0xC0 + i" not in txt:
            return None
        seed1 = bytes(list(range(55)) + [0x20 + i for i in range(sl - 55)])
        return (seed1, bytes(0x80 + i for i in range(55)), bytes(0xC0 + i for i in range(55)),
                arr["result1"], arr["result2"])
    except Exception:
        return None


class Lock(object):
    """the library generator and the model, advanced in lock-step"""

    def __init__(self, R, ctx):
        self.R = R
        self.ctx = ctx
        self.m = drbg.HashDRBG()
        self.p_rand = R.ctx_field("rand")
        self.p_ctr = R.ctx_field("counter")
        self.p_seeded = R.ctx_field("seeded")
        self.K = R.K
        self.one = R.mem(1, 0)
        self.hist = 0
        self.step = 0
        self.resyncs = 0
        self.a = R.bn_new()
        self.b = R.bn_new()
        self.c2 = R.bn_new()
        self.DB = R.DB
        self.DIG = R.DIG
        self.stats = {"carry_from_H": 0, "ripple_past_byte22": 0, "wrap_mod_2^440": 0, "counter_ripple": 0,
                      "counter_ripple_2bytes": 0, "hashgen_increment_carry": 0}

    # ---------------------------------------------------------------- state
    def lib_state(self):
        raw = self.R.get(self.p_rand, 111)
        return raw[1:56], raw[56:111], self.R.rd_int(self.p_ctr), self.R.rd_int(self.p_seeded)

    def inject(self, V, C, counter):
        import ctypes
        raw = b"\x00" + V.to_bytes(55, "big") + C.to_bytes(55, "big")
        ctypes.memmove(self.p_rand, raw, 111)
        self.R.wr_int(self.p_ctr, counter)
        self.R.wr_int(self.p_seeded, 1)
        self.m.set_state(V, C, counter)

    def cmp_state(self, check_seeded=True):
        """compare the working state; on a deviation record it and adopt the library's state so that one defect
        yields one failure per affected call instead of a cascade"""
        ctx, m = self.ctx, self.m
        V, C, c, s = self.lib_state()
        k = ctx.cur_key
        ok = ctx.check(V == m.Vb, k + "|state-V", {"lib": V.hex(), "model": m.Vb.hex(), "hist": self.hist, "step": self.step,
                                                   "model_minus_lib": hx((m.V - int.from_bytes(V, "big")) % drbg.MOD)})
        ok &= ctx.check(C == m.Cb, k + "|state-C", {"lib": C.hex(), "model": m.Cb.hex()})
        ok &= ctx.check(c == m.counter, k + "|reseed-counter", {"lib": c, "model": m.counter})
        if check_seeded:
            ok &= ctx.check(s != 0, k + "|seeded-flag", {"lib": s})
        if not ok:
            self.m.set_state(V, C, c)
            self.resyncs += 1
        return ok

    def classify(self, n):
        """carry pattern of the coming state update (evidence only)"""
        m = self.m
        H, vc, carry, vhc = m.step_terms()
        st = self.stats
        if carry:
            st["carry_from_H"] += 1
            if (vc >> 256) & 0xFF == 0xFF:
                st["ripple_past_byte22"] += 1
        if m.V + m.C >= drbg.MOD or vc + H >= drbg.MOD or vhc + m.counter >= drbg.MOD:
            st["wrap_mod_2^440"] += 1
        if (vhc & 0xFF) + (m.counter & 0xFF) >= 256 or m.counter >= 256:
            st["counter_ripple"] += 1
            if ((vhc & 0xFFFF) + m.counter) >> 16:
                st["counter_ripple_2bytes"] += 1
        if n > 32 and (m.V & 0xFF) + (n + 31) // 32 - 1 >= 256:
            st["hashgen_increment_carry"] += 1

    # ------------------------------------------------------------------ ops
    def desc(self, **kw):
        d = {"hist": self.hist, "step": self.step}
        d.update(kw)
        return d

    def instantiate(self, seed, how):
        """how: 'flag' (clear ctx->seeded as rand_init does), 'clean' (rand_clean, as test_rand does)"""
        R, ctx = self.R, self.ctx
        self.step += 1
        if not ctx.begin("rand_seed|instantiate|%s|%s" % (how, seedcls(len(seed))), self.desc(seed=seed.hex()[:160], n=len(seed))):
            return
        try:
            if how == "clean":
                R.call("rand_clean")     # what it wipes is not specified: only that the next rand_seed instantiates
            else:
                R.wr_int(self.p_seeded, 0)
            p = R.put(seed)
            r = R.call("rand_seed", p, len(seed))
            R.free(p)
            if ctx.check(not r.caught, ctx.cur_key + "|unexpected-error", {"err": r.err}):
                self.m.instantiate(seed)
                self.cmp_state()
            else:
                self.m.set_state(*self.lib_state()[:3])
        except MonitorViolation as e:
            ctx.fail(ctx.cur_key + "|" + e.kind, e.detail)
        finally:
            ctx.end()

    def rand_init(self):
        """the entropy input of rand_init is a configuration matter (not part of the property): the state it leaves is
        adopted, the calls that follow are judged from it; whether it equals the all-zero-seed instantiate is evidence"""
        R, ctx = self.R, self.ctx
        self.step += 1
        if not ctx.begin("rand_init|adopt-state", self.desc()):
            return
        try:
            r = R.call("rand_init")
            ctx.check(not r.caught, ctx.cur_key + "|unexpected-error", {"err": r.err})
            V, C, c, sflag = self.lib_state()
            ctx.check(sflag != 0 and c == 1, ctx.cur_key + "|not-seeded", {"seeded": sflag, "counter": c})
            z = drbg.HashDRBG(bytes(64))
            ctx.add("rand_init_equals_zero_seed_instantiate" if (V, C) == (z.Vb, z.Cb) else "rand_init_other_entropy_input", 1)
            self.m.set_state(V, C, c)
        except MonitorViolation as e:
            ctx.fail(ctx.cur_key + "|" + e.kind, e.detail)
        finally:
            ctx.end()

    def reseed(self, data):
        R, ctx = self.R, self.ctx
        self.step += 1
        if not ctx.begin("rand_seed|reseed|%s|%s" % (seedcls(len(data)), ctrcls(self.m.counter)),
                         self.desc(data=data.hex()[:160], n=len(data))):
            return
        try:
            before = self.lib_state()
            p = R.put(data)
            r = R.call("rand_seed", p, len(data))
            R.free(p)
            if len(data) == 0:
                ctx.check(r.caught and r.err == self.K["ERR_NO_VALID"], ctx.cur_key + "|accepted", {"caught": r.caught, "err": r.err})
                ctx.check(self.lib_state() == before, ctx.cur_key + "|state-changed-by-refused-call", None)
            elif ctx.check(not r.caught, ctx.cur_key + "|unexpected-error", {"err": r.err}):
                self.m.reseed(data)
                self.cmp_state()
            else:
                self.m.set_state(*self.lib_state()[:3])
        except MonitorViolation as e:
            ctx.fail(ctx.cur_key + "|" + e.kind, e.detail)
        finally:
            ctx.end()

    def generate(self, n, tag=None, light=False):
        R, ctx, m = self.R, self.ctx, self.m
        self.step += 1
        key = "rand_bytes|%s%s|%s" % ((tag + "|") if tag else "", lencls(n), ctrcls(m.counter))
        if not ctx.begin(key, self.desc(n=n, counter=m.counter), nontrivial=n > 0):
            return
        try:
            if n == 1:
                buf = self.one
            else:
                buf = R.mem(max(n, 1), 0x5A)
            if n > drbg.MAX_REQUEST:
                before = self.lib_state()
                r = R.call("rand_bytes", buf, n)
                ctx.check(r.caught and r.err == self.K["ERR_NO_VALID"], key + "|accepted", {"caught": r.caught, "err": r.err})
                ctx.check(self.lib_state() == before, key + "|state-changed-by-refused-call", None)
            else:
                if not light:
                    self.classify(n)
                r = R.call("rand_bytes", buf, n)
                if ctx.check(not r.caught, key + "|unexpected-error", {"err": r.err}):
                    exp = m.generate(n)
                    got = R.get(buf, n)
                    if n == 0:
                        ctx.check(R.get(buf, 1) == b"\x5A", key + "|wrote-with-len0", None)
                    ctx.check(got == exp, key + "|output", {"first_diff": next((i for i in range(n) if got[i] != exp[i]), None),
                                                            "got": got[:48].hex(), "exp": exp[:48].hex()})
                    self.cmp_state()
                else:
                    m.set_state(*self.lib_state()[:3])
            if n != 1:
                R.free(buf)
        except MonitorViolation as e:
            ctx.fail(key + "|" + e.kind, e.detail)
        finally:
            ctx.end()

    # ------------------------------------------------- integer sampling: no model of the sampling algorithm
    def save_state(self):
        return self.R.get(self.p_rand, 111), self.R.rd_int(self.p_ctr), self.R.rd_int(self.p_seeded)

    def restore_state(self, st):
        ctypes.memmove(self.p_rand, st[0], 111)
        self.R.wr_int(self.p_ctr, st[1])
        self.R.wr_int(self.p_seeded, st[2])

    def reach(self, key, pre, post):
        """post-state must be step^k(pre-state), 1 <= k <= 64, C unchanged, no reseed; the model adopts it"""
        ctx, m = self.ctx, self.m
        m.set_state(pre[0][1:56], pre[0][56:111], pre[1])
        V, C, c = post[0][1:56], post[0][56:111], post[1]
        found = None
        if C == pre[0][56:111] and post[2] != 0 and 1 <= c - pre[1] <= 64:
            for k in range(1, c - pre[1] + 1):
                m.generate(0)
            if m.Vb == V and m.counter == c:
                found = c - pre[1]
        ctx.check(found is not None, key + "|state-not-reachable",
                  {"pre_V": pre[0][1:56].hex(), "post_V": V.hex(), "pre_counter": pre[1], "post_counter": c, "C_unchanged": C == pre[0][56:111]})
        if found is None:
            m.set_state(V, C, c)
            self.resyncs += 1
        else:
            ctx.add("sampler_generate_calls_k=%s" % (found if found < 8 else ">=8"), 1)
        return found

    def sample(self, key, call, judge, variants):
        """common scheme: call once, judge the value, repeat from the saved state in every variant, require the same
        value and the same generator state, then reachability of that state"""
        R, ctx = self.R, self.ctx
        pre = self.save_state()
        r, v = call(self.a, 0)
        if r.caught:
            return r, None
        post = self.save_state()
        judge(v)
        for name in variants:
            self.restore_state(pre)
            r2, v2 = call(self.c2, name)
            post2 = self.save_state()
            ctx.check(not r2.caught and v2[0] == v[0], key + "|determinism",
                      {"variant": name, "first": hx(v[0]) if v[0] is not None else None, "again": hx(v2[0]) if v2 and v2[0] is not None else None})
            ctx.check(post2 == post, key + "|determinism", {"variant": name, "what": "generator state differs after the repeated call"})
        self.restore_state(post)
        self.reach(key, pre, post)
        return r, v

    def bn_rand(self, bits, neg):
        R, ctx, m = self.R, self.ctx, self.m
        self.step += 1
        fits = (bits + self.DIG - 1) // self.DIG <= R.BN_SIZE
        bc = "bits0" if bits == 0 else ("whole-digits" if bits % self.DIG == 0 else "partial-digit")
        if not fits:
            bc = "beyond-capacity"
        key = "bn_rand|%s|%s|%s" % (bc, "neg" if neg else "pos", ctrcls(m.counter))
        if not ctx.begin(key, self.desc(bits=bits, neg=neg), nontrivial=bits > 0):
            return
        try:
            R.poison = ctx.rng.randrange(1, 256)
            sgn = self.K["RLC_NEG"] if neg else self.K["RLC_POS"]

            def call(obj, variant):
                R.bn_put(obj, ctx.rng.getrandbits(90) + 1 + (1 << 91 if variant else 0))
                r = R.call("bn_rand", obj, sgn, bits)
                return r, (R.bn_get(obj) if not r.caught else None)

            def judge(g):
                v, used, sign, normal = g
                ok = v is not None and abs(v) < (1 << bits) and (v == 0 or (v < 0) == neg)
                ctx.check(ok, key + "|range", {"got": hx(v) if v is not None else None, "bits": bits, "neg": neg})
                ctx.check(normal, key + "|normal-form", {"used": used, "sign": sign})
            r, g = self.sample(key, call, judge, ["other-object"])
            if g is None:
                # an integer that cannot be represented may be refused (no verdict on the state then)
                ctx.check(not fits, key + "|unexpected-error", {"err": r.err, "bits": bits})
                m.set_state(*self.lib_state()[:3])
        except MonitorViolation as e:
            ctx.fail(key + "|" + e.kind, e.detail)
        finally:
            ctx.end()
        self.generate(ctx.rng.choice([1, 32, 33]), tag="after-sampling")

    def bn_rand_mod(self, b, budget=None):
        """b >= 2 only: for b = 1 the documented result set [1, b) is empty, b <= 0 is no bound"""
        R, ctx, m = self.R, self.ctx, self.m
        self.step += 1
        if b & (b - 1) == 0:
            bc = "b=2^k"
        elif b < 256:
            bc = "b<256"
        else:
            bc = "b"
        tight = b.bit_length() + 128 > R.BN_SIZE * self.DIG      # within two 64-bit words of the precision
        if tight:
            bc = "near-capacity"
        key = "bn_rand_mod|%s|%s" % (bc, ctrcls(m.counter))
        if not ctx.begin(key, self.desc(b=hx(b)), budget=budget):
            return
        try:
            R.poison = ctx.rng.randrange(1, 256)

            def call(obj, variant):
                R.bn_put(self.b, b)
                if variant == "aliased-with-bound":
                    r = R.call("bn_rand_mod", self.b, self.b)
                    return r, (R.bn_get(self.b) if not r.caught else None)
                R.bn_put(obj, ctx.rng.getrandbits(90) + 1 + (1 << 91 if variant else 0))
                r = R.call("bn_rand_mod", obj, self.b)
                if not r.caught:
                    vb = R.bn_get(self.b)
                    ctx.check(vb[0] == b and vb[3], key + "|input-modified", {"now": repr(vb)})
                return r, (R.bn_get(obj) if not r.caught else None)

            def judge(g):
                v, used, sign, normal = g
                ctx.check(v is not None and 1 <= v < b, key + "|range", {"got": hx(v) if v is not None else None, "b": hx(b)})
                ctx.check(normal, key + "|normal-form", {"used": used, "sign": sign})
            r, g = self.sample(key, call, judge, ["other-object", "aliased-with-bound"])
            if g is None:
                # a sampler may need more precision than the bound itself: refusal accepted only near the capacity
                ctx.check(tight, key + "|unexpected-error", {"err": r.err})
                m.set_state(*self.lib_state()[:3])
        except MonitorViolation as e:
            ctx.fail(key + "|" + e.kind, e.detail)
        finally:
            ctx.end()
        self.generate(ctx.rng.choice([1, 32, 33]), tag="after-sampling")


def seedcls(n):
    if n == 0:
        return "seed0"
    if n < 55:
        return "seed<55"
    if n == 55:
        return "seed55"
    if n <= 300:
        return "seed56-300"
    return "seed>300"


def rbytes(rng, n):
    return rng.getrandbits(8 * n).to_bytes(n, "big") if n else b""


def rand_bound(rng, DIG, maxbits):
    c = rng.randrange(10)
    if c == 0:
        return rng.choice([2, 3, 4, 5, 7, 255, 256, 257])
    k = rng.choice([1, 2, 7, 8, 9, 63, 64, 65, 127, 128, 129, 255, 256, 257, 521, maxbits - 1, rng.randrange(1, maxbits)])
    k = min(k, maxbits - 1)
    if c == 1:
        return 1 << k
    if c == 2:
        return (1 << k) + 1
    if c == 3:
        return max(2, (1 << k) - 1)
    return max(2, rng.getrandbits(k) | (1 << (k - 1)))


def run_hist(ctx, R, L):
    rng = ctx.rng
    nh = ctx.n(40, 500)
    seedlens = list(range(1, 301)) + [55, 55, 63, 64, 110, 111, 440, 1000, 4096]
    bitsel = [0, 1, 7, 8, 9, 63, 64, 65, 127, 128, 129, 255, 256, 257, 1023, 1024, 1025, R.BN_SIZE * R.DIG - 1,
              R.BN_SIZE * R.DIG, R.BN_SIZE * R.DIG + 1]
    big_budget = 3
    for h in range(nh):
        L.hist = h
        L.step = 0
        how = rng.choice(["flag", "flag", "clean", "init"])
        if how == "init":
            L.rand_init()
        else:
            L.instantiate(rbytes(rng, rng.choice(seedlens)), how)
        steps = rng.choice([5, 20, 100, 300, 600])
        big = 0
        for _ in range(steps):
            c = rng.randrange(100)
            if c < 55:
                n = rng.choice(GEN_LENS + [1, 1, 31, 32, 33, 64, 65, rng.randrange(0, 300)])
                if n >= 65535:
                    big += 1
                    if big > big_budget:
                        n = rng.randrange(0, 130)
                L.generate(n)
            elif c < 63:
                L.reseed(rbytes(rng, rng.choice(seedlens)))
            elif c < 64:
                L.reseed(b"")
            elif c < 66:
                L.instantiate(rbytes(rng, rng.choice(seedlens)), rng.choice(["flag", "clean"]))
            elif c < 82:
                L.bn_rand(rng.choice(bitsel + [rng.randrange(0, 1100)] * 4), rng.random() < 0.3)
            else:
                b = rand_bound(rng, R.DIG, 1025)      # always >= 2: [1, b) is empty for b = 1, b <= 0 is no bound
                if rng.random() < 0.02:
                    b = (1 << (R.BN_SIZE * R.DIG - rng.choice([1, 8, 30, 41]))) - rng.choice([0, 1, 3])     # near the capacity
                L.bn_rand_mod(b)


def run_long(ctx, R, L):
    rng = ctx.rng
    cv = cavs_vectors()
    ctx.note("cavs_vectors", "parsed from test/test_rand.c and reproduced by the model" if cv else
             "skipped: the SHA-256 vectors of test/test_rand.c could not be parsed")
    if cv:
        seed1, seed2, seed3, r1, r2 = cv
        d = drbg.HashDRBG(seed1)
        a = d.generate(64) + d.generate(64)
        d = drbg.HashDRBG(seed1)
        d.reseed(seed2)
        b = d.generate(64)
        d.reseed(seed3)
        b += d.generate(64)
        if a != r1 or b != r2:
            raise RuntimeError("the Hash_DRBG model does not reproduce the CAVS vectors of test/test_rand.c")
    drbg.selftest()
    idx = 0

    # 0: the CAVS histories on the library itself (the lock-step compare does the work; the vectors validated the model)
    if ctx.mine(idx) and cv:
        L.hist = "cavs"
        L.step = 0
        L.instantiate(seed1, "clean")
        L.generate(64, tag="cavs")
        L.generate(64, tag="cavs")
        L.instantiate(seed1, "clean")
        L.reseed(seed2)
        L.generate(64, tag="cavs")
        L.reseed(seed3)
        L.generate(64, tag="cavs")
    idx += 1

    # 1..: long histories after one seed, tiny requests
    def long_history(name, upto, mix):
        """one seed, then tiny requests until the reseed counter reaches 'upto'"""
        L.hist = name
        L.step = 0
        L.instantiate(rbytes(rng, 48), "flag")
        while L.m.counter < upto:
            if mix and L.m.counter >= upto - 40:
                mix = False     # bn_rand_mod may draw several times: finish with single generate calls
            c = rng.randrange(100) if mix else 0
            if c < 90:
                L.generate(1 if c < 80 else rng.choice([0, 2, 31, 32, 33]), light=True)
            elif c < 95:
                L.bn_rand(rng.choice([1, 8, 9, 64, 65]), False)
            else:
                L.bn_rand_mod(rng.choice([2, 3, 5, 255, 65537]))
        ctx.note("long_" + name + "_final_counter", L.m.counter)

    if ctx.mine(idx):
        long_history("2^8", 700, True)
    idx += 1
    if ctx.mine(idx):
        # stays below the known int16 class: counter reaches 32500
        long_history("below-2^15", KNOWN_CTR - 1, True)
    idx += 1
    if ctx.mine(idx):
        long_history("2^15", (1 << 15) + 700, False)
    idx += 1
    if ctx.mine(idx):
        long_history("2^16", (1 << 16) + 400, False)
    idx += 1
    if not ctx.quick and ctx.mine(idx):
        long_history("2^17", (1 << 17) + 400, False)
    idx += 1

    # seeds searched in the model so that the first state update carries across a boundary
    if ctx.mine(idx):
        L.hist = "searched-seeds"
        found = {"ripple22": [], "ctr-ripple": [], "ripple22+ctr": []}
        tries = ctx.n(40000, 600000)
        for t in range(tries):
            seed = rbytes(rng, 32)
            d = drbg.HashDRBG(seed)
            H, vc, carry, vhc = d.step_terms()
            if carry and (vc >> 256) & 0xFF == 0xFF and len(found["ripple22"]) < 40:
                found["ripple22"].append(seed)
            if vhc & 0xFF == 0xFF and len(found["ctr-ripple"]) < 40:
                found["ctr-ripple"].append(seed)
            if carry and (vc >> 256) & 0xFF >= 0xF0 and vhc & 0xFF >= 0xF0 and len(found["ripple22+ctr"]) < 40:
                found["ripple22+ctr"].append(seed)
        for name, seeds in found.items():
            ctx.add("searched_seeds_" + name, len(seeds))
            for seed in seeds:
                L.step = 0
                L.instantiate(seed, "flag")
                L.generate(rng.choice([1, 32, 33]), tag="searched-" + name)
                L.generate(1, tag="searched-" + name)
    idx += 1

    # injected states: the step function on states no seed search will reach
    if ctx.mine(idx):
        L.hist = "injected"
        M = drbg.MOD
        FF = M - 1
        pats = []
        for c in (1, 2, 255, 256, 257, 4660, 32512):
            pats.append(("all-ones", FF, FF, c))
            pats.append(("V-max", FF, 0, c))
            pats.append(("zero", 0, 0, c))
            pats.append(("C-max", 0, FF, c))
        targets = [("sum=2^440-1", FF), ("sum=2^440-c", None), ("sum=2^256-1", (1 << 256) - 1), ("sum=2^256-c", None),
                   ("sum=low32-ones", ((rng.getrandbits(184) << 256) | ((1 << 256) - 1))),
                   ("sum=upper23-ones", (((1 << 184) - 1) << 256) | rng.getrandbits(256)),
                   ("sum=2^264-1", (1 << 264) - 1), ("sum=2^16-1", 0xFFFF), ("sum=0", 0)]
        for c in (1, 2, 200, 255, 256, 1000, 32512):
            for name, tgt in targets:
                for _ in range(2):
                    V = rng.getrandbits(440)
                    if rng.random() < 0.3:
                        V |= ((1 << 184) - 1) << 256
                    H = int.from_bytes(hashlib.sha256(b"\x03" + V.to_bytes(55, "big")).digest(), "big")
                    if tgt is None:
                        base = (M if "440" in name else (1 << 256)) - c
                    else:
                        base = tgt
                    C = (base - V - H) % M
                    pats.append((name, V, C, c))
        # V + C alone rippling through the upper bytes with a carry from H
        for _ in range(ctx.n(40, 400)):
            V = rng.getrandbits(440)
            C = ((((1 << 184) - 1) << 256) - (V & (((1 << 184) - 1) << 256))) % M | rng.getrandbits(256)
            pats.append(("V+C-upper-ones", V, C % M, rng.choice([1, 3, 255, 300])))
        for _ in range(ctx.n(200, 3000)):
            pats.append(("random", rng.getrandbits(440), rng.getrandbits(440), rng.choice([1, 2, 255, 256, 1 << 12, 32512])))
        for name, V, C, c in pats:
            L.step = 0
            L.inject(V, C, c)
            L.generate(rng.choice([1, 31, 32, 33, 64, 65]), tag="injected|" + name)
            L.generate(1, tag="injected|" + name)
        # hashgen's data = V + i increment rippling (V ends in ..FF FF, multi-block request)
        for _ in range(ctx.n(30, 300)):
            V = (rng.getrandbits(440) | ((1 << (8 * rng.choice([1, 2, 3, 8, 32, 54, 55]))) - 1)) - rng.randrange(0, 3)
            L.step = 0
            L.inject(V % M, rng.getrandbits(440), rng.choice([1, 7, 300]))
            L.generate(rng.choice([33, 64, 65, 96, 97, 200, 1000]), tag="injected|hashgen-ripple")
    idx += 1

    # rand_check (health test of repeated bytes) is not part of this property: called for sanitizer coverage only, no verdict
    if ctx.mine(idx):
        for name, data in (("all-identical", bytes([0xAB]) * 64), ("run-in-middle", bytes(range(16)) + bytes([0xFF]) * 32 + bytes(range(16))),
                           ("no-repeats", bytes(range(64))), ("empty", b""), ("one-byte", b"\x01")):
            if not ctx.begin("rand_check|coverage-only", {"data": data.hex()}, nontrivial=False):
                continue
            try:
                p = R.put(data)
                R.call("rand_check", p, len(data))
                R.free(p)
                ctx.add("rand_check_calls_without_verdict", 1)
            except MonitorViolation as e:
                ctx.fail("rand_check|coverage-only|" + e.kind, e.detail)
            finally:
                ctx.end()
    idx += 1

    # the int16 boundary of the repaired defect (DESIGN 6 #8) without a long history: injected counters around and far beyond it
    if ctx.mine(idx):
        L.hist = "injected-counter"
        for c in (32512, 32513, 32767, 32768, 40000, 65535, 65536, 70000, (1 << 24) + 5):
            for lowbyte in (0x00, 0xFE, 0xFF):
                V = rng.getrandbits(440)
                H = int.from_bytes(hashlib.sha256(b"\x03" + V.to_bytes(55, "big")).digest(), "big")
                tgt = (rng.getrandbits(432) << 8) | lowbyte
                L.step = 0
                L.inject(V, (tgt - V - H) % drbg.MOD, c)
                L.generate(1, tag="injected|counter")
    idx += 1


def run(ctx, part):
    R = RT(ctx.cfg)
    R.strict_chain = True
    L = Lock(R, ctx)
    ctx.note("digit_bits", str(R.DIG))
    ctx.note("state_layout", "ctx->rand[0] prefix, [1..55] V, [56..110] C (relic_rand_hashd.c); RLC_RAND_SIZE=%d" % R.K["RLC_RAND_SIZE"])
    if R.K["RLC_RAND_SIZE"] != 111 or R.K["RLC_MD_LEN"] != 32:
        raise RuntimeError("this build is not Hash_DRBG/SHA-256 with seedlen 440")
    if part == "hist":
        run_hist(ctx, R, L)
    else:
        run_long(ctx, R, L)
    ctx.note("carry_patterns_observed", L.stats)
    ctx.add("model_resyncs_after_deviation", L.resyncs)
    ctx.note("functions_exercised", sorted(R.fn_seen))
    ctx.note("error_codes_seen", {str(k): v for k, v in R.err_codes.items()})
