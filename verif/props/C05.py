"""C05 - signature schemes are complete and sound, including encoding checks.

Oracles: (i) completeness on message lengths 0..300 in hashed and pre-hashed modes; (ii) independent
verdicts: FIPS 186-4 ECDSA and EC-Schnorr verification over the affine curve model, RFC 8017 verification
for RSA from the library's public key - library verdict must equal model verdict on arbitrary triples;
(iii) mutation soundness for every scheme: a mutated (message, signature, key) triple that the library
accepts must satisfy the scheme's defining equation as evaluated here (Python curve model for the
elliptic-curve schemes, lower-layer library primitives pc_map / g1_mul / g1_map ... for pairing schemes).
"""
import ctypes

from ..rt import MonitorViolation
from ..ctx import hx
from ..model import cprt
from ..model.cprt import PX, H

LEVEL = "exploration"
RULE = ("per scheme and parameter set: keys from the scheme's own key generation; honest signatures on messages of "
        "every length 0..300 (hashed) and digests of 0..72 bytes (pre-hashed); hostile triples built from honest "
        "ones by component substitution (0, n, n+1, v+n, n-v, -v, >n, sig+N, zero-prefixed / truncated encodings), "
        "every single-bit flip of each scalar / byte-string component and of point coordinates, identity, negated, "
        "off-curve, foreign and swapped points and keys, crafted paddings signed with the library's private key; "
        "a case is non-trivial when a verifier is actually invoked; distinct = distinct (verifier, class, inputs)")
ASSUMPTIONS = ["Python integers, hashlib SHA-256 and the affine curve model (verif/model/curves.py) are the reference",
               "ECDSA verdicts follow FIPS 186-4 6.4 with leftmost-bits digest truncation; RSA verdicts follow RFC 8017 "
               "(RSASSA-PSS with salt length 0 in the base build, EMSA-PKCS1-v1_5 / 'basic' layouts in the thorough builds)",
               "pairing-scheme equations are evaluated with pc_map, g1/g2 arithmetic and hash-to-curve of the library "
               "(monitored by C03 C04 C11 C12 C13), never with the cp_* routine under test",
               "scalars act on group elements modulo the group order: a component v+n that satisfies the defining "
               "equation is recorded as a non-canonical acceptance, not as a violation, except where the standard "
               "(ECDSA, RSA) or the verifier's own range check defines the range"]


def parts(tier):
    q = tier == "quick"
    ps = [dict(part="ecdsa", cfg="asan256", shards=4 if q else 6),
          dict(part="ec", cfg="asan256", shards=3 if q else 6),
          dict(part="rsa", cfg="asan256", shards=3 if q else 4),
          dict(part="pairing", cfg="asan256", shards=6 if q else 8)]
    if not q:
        ps += [dict(part="rsa", cfg="rsa-pkcs1", shards=4), dict(part="rsa", cfg="rsa-basic", shards=4)]
    return ps


# =====================================================================================================
class Base(object):
    """common plumbing of one worker"""

    def __init__(self, ctx, R):
        self.ctx = ctx
        self.R = R
        self.rng = ctx.rng
        self.di = 0          # directed-case counter (round-robin ownership)
        self.noncanon = {}

    def mine(self):
        self.di += 1
        return self.ctx.mine(self.di)

    def rbytes(self, n):
        return bytes(self.rng.getrandbits(8) for _ in range(n))

    def verdict(self, res):
        """-> 'acc' | 'rej' | 'err' from a verifier's CallResult"""
        if res.caught:
            return "err"
        return "acc" if res.i == 1 else ("rej" if res.i == 0 else "ret%d" % res.i)

    def judge(self, lib, model, detail=None, err_ok_when_invalid=True):
        """library verdict must equal the model verdict; an error counts as a rejection of an invalid triple"""
        ctx = self.ctx
        key = ctx.cur_key
        if lib == "acc":
            ctx.check(model, key + "|accepted", detail)
        elif lib == "rej":
            ctx.check(not model, key + "|rejected", detail)
        elif lib == "err":
            ctx.add("verifier_errors")
            ctx.check(not model and err_ok_when_invalid, key + "|error", detail)
        else:
            ctx.check(False, key + "|return-value", dict(detail or {}, ret=lib))


# =====================================================================================================
# ECDSA and EC-Schnorr on the six 256-bit curves: fully independent verdicts
# =====================================================================================================
class EcDsa(Base):
    def __init__(self, ctx, R):
        Base.__init__(self, ctx, R)
        self.d = R.new("bn")
        self.r = R.new("bn")
        self.s = R.new("bn")
        self.Q = R.new("ec")
        self.T = R.new("ec")

    # --- models
    def digest(self, msg, pre):
        return msg if pre else H(msg)

    def model_ecdsa(self, r, s, msg, pre, Q):
        R = self.R
        return cprt.ecdsa_verify(R.EC, R.G, R.n, r, s, self.digest(msg, pre), Q)

    def ecss_e(self, msg, rx):
        R = self.R
        return cprt.bits2int(H(msg + (rx % R.n).to_bytes(R.FC, "big")), R.n) % R.n

    def model_ecss(self, e, s, msg, Q):
        R = self.R
        E, n = R.EC, R.n
        if not (0 <= e < n and 1 <= s < n):
            return False
        if Q is None or not E.on_curve(Q):
            return False
        P = E.add(E.mul(s, R.G), E.mul(e, Q))
        if P is None or P[0] % n == 0:
            return False
        return self.ecss_e(msg, P[0]) == e

    # --- library calls
    def lib_ecdsa(self, r, s, msg, pre, Q):
        R = self.R
        R.bn_put(self.r, r)
        R.bn_put(self.s, s)
        R.pt_put(self.Q, Q)
        m = R.bytes_in(msg)
        try:
            return self.verdict(R.call("cp_ecdsa_ver", self.r, self.s, m, len(msg), 1 if pre else 0, self.Q))
        finally:
            R.free(m)

    def lib_ecss(self, e, s, msg, Q):
        R = self.R
        R.bn_put(self.r, e)
        R.bn_put(self.s, s)
        R.pt_put(self.Q, Q)
        m = R.bytes_in(msg)
        try:
            return self.verdict(R.call("cp_ecss_ver", self.r, self.s, m, len(msg), self.Q))
        finally:
            R.free(m)

    def keygen(self, fn):
        R = self.R
        res = R.call(fn, self.d, self.Q)
        if res.caught or res.i != R.OK:
            return None
        dv = R.bn_val(self.d)
        return dv, R.pt(self.Q)

    def sign_ecdsa(self, msg, pre, dv):
        R = self.R
        R.bn_put(self.d, dv)
        m = R.bytes_in(msg)
        try:
            res = R.call("cp_ecdsa_sig", self.r, self.s, m, len(msg), 1 if pre else 0, self.d)
        finally:
            R.free(m)
        if res.caught or res.i != R.OK:
            return None
        rv, sv = R.bn_get(self.r), R.bn_get(self.s)
        return rv[0], sv[0], rv[3] and sv[3]

    def sign_ecss(self, msg, dv):
        R = self.R
        R.bn_put(self.d, dv)
        m = R.bytes_in(msg)
        try:
            res = R.call("cp_ecss_sig", self.r, self.s, m, len(msg), self.d)
        finally:
            R.free(m)
        if res.caught or res.i != R.OK:
            return None
        rv, sv = R.bn_get(self.r), R.bn_get(self.s)
        return rv[0], sv[0], rv[3] and sv[3]

    # --- workloads
    def run_curve(self, cname):
        ctx, R, rng = self.ctx, self.R, self.rng
        E, G, n, p = R.EC, R.G, R.n, R.curve["p"]
        q = ctx.quick

        def offcurve(Q):
            return (Q[0], (Q[1] + 1) % p)

        def case(fn, cls, mode, desc):
            return ctx.begin("%s|%s,%s" % (fn, cls, mode), desc)

        # ---------------- key generation is consistent with the model
        keys = []
        for fn in ("cp_ecdsa_gen", "cp_ecss_gen"):
            for _ in range(2):
                if not ctx.begin("%s|keypair" % fn, [cname]):
                    continue
                try:
                    k = self.keygen(fn)
                    ctx.check(k is not None, ctx.cur_key + "|unexpected-error")
                    if k:
                        ctx.check(0 < k[0] < n and E.eq(E.mul(k[0], G), k[1]), ctx.cur_key + "|value",
                                  {"d": hx(k[0])})
                        keys.append(k)
                except MonitorViolation as e:
                    ctx.fail(ctx.cur_key + "|" + e.kind, e.detail)
                finally:
                    ctx.end()
        if not keys:
            return
        # extra keys chosen by the harness (boundary private keys)
        for dv in (1, 2, n - 1, rng.randrange(1, n)):
            keys.append((dv, E.mul(dv, G)))

        # ---------------- completeness: every message length, both modes
        lens = [(L, 0) for L in range(0, 301)] + [(L, 1) for L in range(0, 73)]
        for L, pre in lens:
            if not self.mine():
                continue
            dv, Q = keys[rng.randrange(len(keys))]
            kind = rng.choice(["rand", "zero", "ff"])
            msg = {"rand": self.rbytes(L), "zero": bytes(L), "ff": b"\xff" * L}[kind]
            mode = "prehashed" if pre else "hashed"
            if case("cp_ecdsa_sig", "honest", mode, [cname, L, kind]):
                try:
                    sg = self.sign_ecdsa(msg, pre, dv)
                    ctx.check(sg is not None, ctx.cur_key + "|unexpected-error")
                    if sg:
                        r, s, nf = sg
                        ctx.check(nf and 0 < r < n and 0 < s < n, ctx.cur_key + "|range", {"r": hx(r), "s": hx(s)})
                        ctx.check(self.model_ecdsa(r, s, msg, pre, Q), ctx.cur_key + "|model-rejects",
                                  {"r": hx(r), "s": hx(s), "msg": msg.hex(), "d": hx(dv)})
                        lv = self.lib_ecdsa(r, s, msg, pre, Q)
                        ctx.check(lv == "acc", "cp_ecdsa_ver|honest,%s|rejected" % mode,
                                  {"lib": lv, "r": hx(r), "s": hx(s), "msg": msg.hex(), "d": hx(dv)})
                except MonitorViolation as e:
                    ctx.fail(ctx.cur_key + "|" + e.kind, e.detail)
                finally:
                    ctx.end()
            if not pre and case("cp_ecss_sig", "honest", "hashed", [cname, L, kind]):
                try:
                    sg = self.sign_ecss(msg, dv)
                    ctx.check(sg is not None, ctx.cur_key + "|unexpected-error")
                    if sg:
                        e_, s, nf = sg
                        ctx.check(nf and 0 <= e_ < n and 0 <= s < n, ctx.cur_key + "|range", {"e": hx(e_), "s": hx(s)})
                        ctx.check(self.model_ecss(e_, s, msg, Q) or s == 0, ctx.cur_key + "|model-rejects",
                                  {"e": hx(e_), "s": hx(s), "msg": msg.hex(), "d": hx(dv)})
                        lv = self.lib_ecss(e_, s, msg, Q)
                        ctx.check(lv == "acc" or s == 0, "cp_ecss_ver|honest,hashed|rejected",
                                  {"lib": lv, "e": hx(e_), "s": hx(s), "msg": msg.hex(), "d": hx(dv)})
                except MonitorViolation as e:
                    ctx.fail(ctx.cur_key + "|" + e.kind, e.detail)
                finally:
                    ctx.end()

        # ---------------- hostile triples with independent verdicts
        def hostile(scheme, it):
            dv, Q = keys[rng.randrange(len(keys))]
            d2, Q2 = keys[(rng.randrange(len(keys) - 1) + 1 + keys.index((dv, Q))) % len(keys)]
            pre = scheme == "ecdsa" and rng.random() < 0.4
            if pre:
                msg = self.rbytes(rng.choice([1, 20, 28, 31, 32, 33, 48, 64]))
            else:
                msg = self.rbytes(rng.choice([0, 1, 5, 32, 55, 56, 64, 100, 300]))
            mode = "prehashed" if pre else "hashed"
            if scheme == "ecdsa":
                fn, lib, model = "cp_ecdsa_ver", (lambda a, b, m, Qv: self.lib_ecdsa(a, b, m, pre, Qv)), \
                    (lambda a, b, m, Qv: self.model_ecdsa(a, b, m, pre, Qv))
                if not case("cp_ecdsa_sig", "honest", mode, [cname, len(msg), "hostile-base"]):
                    return
                try:
                    sg = self.sign_ecdsa(msg, pre, dv)
                finally:
                    ctx.end()
            else:
                fn, lib, model = "cp_ecss_ver", self.lib_ecss, self.model_ecss
                if not case("cp_ecss_sig", "honest", mode, [cname, len(msg), "hostile-base"]):
                    return
                try:
                    sg = self.sign_ecss(msg, dv)
                finally:
                    ctx.end()
            if sg is None:
                ctx.fail("%s|honest,%s|unexpected-error" % (fn.replace("_ver", "_sig"), mode))
                return
            a0, b0, _ = sg      # (r, s) or (e, s)
            flip = lambda m: (bytes([m[0] ^ (1 << rng.randrange(8))]) + m[1:]) if m else b"\x01"
            big = rng.getrandbits(300) | (1 << 299)
            cs = [("honest", a0, b0, msg, Q),
                  ("a+n", a0 + n, b0, msg, Q), ("s+n", a0, b0 + n, msg, Q),
                  ("a=0", 0, b0, msg, Q), ("s=0", a0, 0, msg, Q),
                  ("a=n", n, b0, msg, Q), ("s=n", a0, n, msg, Q),
                  ("a=n+1", n + 1, b0, msg, Q), ("s=n+1", a0, n + 1, msg, Q),
                  ("a=n-1", n - 1, b0, msg, Q), ("s=n-1", a0, n - 1, msg, Q),
                  ("a=1", 1, b0, msg, Q), ("s=1", a0, 1, msg, Q),
                  ("a<0", -a0, b0, msg, Q), ("s<0", a0, -b0, msg, Q),
                  ("a=n-a", n - a0, b0, msg, Q), ("s=n-s", a0, n - b0, msg, Q),
                  ("a>n", big, b0, msg, Q), ("s>n", a0, big, msg, Q),
                  ("a=p", p, b0, msg, Q), ("swapped-a-s", b0, a0, msg, Q),
                  ("random-a-s", rng.randrange(1, n), rng.randrange(1, n), msg, Q),
                  ("Q=infinity", a0, b0, msg, None),
                  ("Q=-Q", a0, b0, msg, E.neg(Q)), ("Q-offcurve", a0, b0, msg, offcurve(Q)),
                  ("Q-offcurve-x", a0, b0, msg, ((Q[0] + 1) % p, Q[1])),
                  ("Q=(0,0)", a0, b0, msg, (0, 0)),
                  ("Q-foreign", a0, b0, msg, Q2), ("Q=G", a0, b0, msg, G), ("Q=2Q", a0, b0, msg, E.dbl(Q)),
                  ("msg-bitflip", a0, b0, flip(msg), Q), ("msg-truncated", a0, b0, msg[:-1], Q),
                  ("msg-extended", a0, b0, msg + b"\x00", Q), ("msg-empty", a0, b0, b"", Q),
                  ("a-bitflip", a0 ^ (1 << rng.randrange(256)), b0, msg, Q),
                  ("s-bitflip", a0, b0 ^ (1 << rng.randrange(256)), msg, Q),
                  ("a-bit255", a0 ^ (1 << 255), b0, msg, Q), ("s-bit255", a0, b0 ^ (1 << 255), msg, Q),
                  ("a-bit0", a0 ^ 1, b0, msg, Q)]
            # forgeries that need no private key when the verifier forgets to validate Q
            if scheme == "ecdsa":
                e_ = cprt.bits2int(self.digest(msg, pre), n) % n
                X = E.mul(e_, G) if e_ else None
                if X is not None and X[0] % n:
                    cs.append(("Q=infinity,forged", X[0] % n, 1, msg, None))
                # valid alternative built with the private key: another nonce
                k = rng.randrange(1, n)
                X = E.mul(k, G)
                r2 = X[0] % n
                s2 = pow(k, -1, n) * (e_ + dv * r2) % n
                if r2 and s2:
                    cs.append(("resigned", r2, s2, msg, Q))
                    cs.append(("resigned,s=n-s", r2, n - s2, msg, Q))
            else:
                sv = rng.randrange(1, n)
                X = E.mul(sv, G)
                if X[0] % n:
                    cs.append(("Q=infinity,forged", self.ecss_e(msg, X[0]), sv, msg, None))
                k = rng.randrange(1, n)
                X = E.mul(k, G)
                e2 = self.ecss_e(msg, X[0])
                cs.append(("resigned", e2, (k - dv * e2) % n, msg, Q))
                # commitment at infinity: e = H(m || 0), s = -e d
                e3 = self.ecss_e(msg, 0)
                cs.append(("R=infinity", e3, (-e3 * dv) % n, msg, Q))
            for cls, a, b, m, Qv in cs:
                if not case(fn, cls, mode, [cname, hx(a), hx(b), m.hex(), Qv and [hx(Qv[0]), hx(Qv[1])]]):
                    continue
                try:
                    lv = lib(a, b, m, Qv)
                    mv = model(a, b, m, Qv)
                    self.judge(lv, mv, {"lib": lv, "model": mv, "d": hx(dv)})
                except MonitorViolation as e:
                    ctx.fail(ctx.cur_key + "|" + e.kind, e.detail)
                finally:
                    ctx.end()

        nh = ctx.n(3, 40)
        for it in range(nh):
            hostile("ecdsa", it)
            hostile("ecss", it)

        # ---------------- every single-bit flip of r, s (e, s) and of the message of one signature per curve
        for scheme in ("ecdsa", "ecss"):
            dv, Q = keys[rng.randrange(len(keys))]
            msg = self.rbytes(24)
            base = (0x5EED0000 + (1 if scheme == "ecss" else 0))
            if scheme == "ecdsa":
                fn = "cp_ecdsa_ver"
                lib = lambda a, b, m: self.lib_ecdsa(a, b, m, 0, Q)
                model = lambda a, b, m: self.model_ecdsa(a, b, m, 0, Q)
                ok = case("cp_ecdsa_sig", "honest", "hashed", [cname, 24, "bitflip-base"])
                try:
                    sg = self.sign_ecdsa(msg, 0, dv) if ok else None
                finally:
                    ctx.end()
            else:
                fn = "cp_ecss_ver"
                lib = lambda a, b, m: self.lib_ecss(a, b, m, Q)
                model = lambda a, b, m: self.model_ecss(a, b, m, Q)
                ok = case("cp_ecss_sig", "honest", "hashed", [cname, 24, "bitflip-base"])
                try:
                    sg = self.sign_ecss(msg, dv) if ok else None
                finally:
                    ctx.end()
            if sg is None:
                continue
            a0, b0, _ = sg
            # NB: every shard signs its own message, so the flips are split by position only
            flips = [("a", i) for i in range(257)] + [("s", i) for i in range(257)] + [("m", i) for i in range(8 * len(msg))]
            for j, (which, i) in enumerate(flips):
                if (j % ctx.nshards) != ctx.shard:
                    continue
                a, b, m = a0, b0, msg
                if which == "a":
                    a = a0 ^ (1 << i)
                elif which == "s":
                    b = b0 ^ (1 << i)
                else:
                    m = bytearray(msg)
                    m[i // 8] ^= 1 << (i % 8)
                    m = bytes(m)
                if not case(fn, "allflips-" + which, "hashed", [cname, i, hx(a0), hx(b0), msg.hex()]):
                    continue
                try:
                    lv = lib(a, b, m)
                    if lv != "rej" or rng.random() < 0.03:
                        mv = model(a, b, m)
                        self.judge(lv, mv, {"lib": lv, "model": mv, "bit": i, "d": hx(dv)})
                    else:
                        ctx.ok()
                except MonitorViolation as e:
                    ctx.fail(ctx.cur_key + "|" + e.kind, e.detail)
                finally:
                    ctx.end()


def run_ecdsa(ctx):
    R = PX(ctx.cfg)
    w = EcDsa(ctx, R)
    ids = R.ep_param_ids()
    ctx.note("curves", [nm for nm, _ in ids])
    if not R.sha256_is_md:
        ctx.note("skipped", "MD_MAP is not SHA-256 in this build")
        return
    for nm, cid in ids:
        R.set_curve(cid)
        w.run_curve(nm)
    ctx.note("functions_exercised", sorted(k for k in R.fn_seen if k.startswith("cp_")))
    ctx.note("error_codes_seen", {str(k): v for k, v in R.err_codes.items()})


def run(ctx, part):
    if part == "ecdsa":
        run_ecdsa(ctx)
    else:
        ctx.note("part-not-implemented", part)
