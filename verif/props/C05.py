"""C05 - signature schemes are complete and sound, including encoding checks.

Oracles: (i) completeness on message lengths 0..300 in hashed and pre-hashed modes; (ii) independent
verdicts: FIPS 186-4 ECDSA and EC-Schnorr verification over the affine curve model, RFC 8017 verification
for RSA from the library's public key - library verdict must equal model verdict on arbitrary triples;
(iii) mutation soundness for every scheme: a mutated (message, signature, key) triple that the library
accepts must satisfy the scheme's defining equation as evaluated here (Python curve model for the
elliptic-curve schemes, lower-layer library primitives pc_map / g1_mul / g1_map ... for pairing schemes).
"""
import ctypes
import re
import time

from ..rt import MonitorViolation
from ..ctx import hx
from ..model import cprt
from ..model.cprt import PX, H

LEVEL = "exploration"
RULE = ("per scheme and parameter set: keys from the scheme's own key generation; honest signatures on messages of "
        "every length 0..300 (hashed) and digests of 0..72 bytes (pre-hashed); hostile triples built from honest "
        "ones by component substitution (0, n, n+1, v+n, n-v, -v, >n, sig+N, zero-prefixed / truncated encodings), "
        "every single-bit flip of each scalar / byte-string component and of point coordinates, identity, negated, "
        "off-curve, foreign and swapped points and keys, crafted paddings signed with the library's private key; "
        "a case is non-trivial when a verifier is actually invoked; distinct = distinct (verifier, class, inputs)")
ASSUMPTIONS = ["Python integers, hashlib SHA-256 and the affine curve model (verif/model/curves.py) are the reference",
               "ECDSA verdicts follow FIPS 186-4 6.4 with leftmost-bits digest truncation; RSA verdicts follow RFC 8017 "
               "(RSASSA-PSS with salt length 0 in the base build, EMSA-PKCS1-v1_5 / 'basic' layouts in the thorough builds)",
               "pairing-scheme equations are evaluated with pc_map, g1/g2 arithmetic and hash-to-curve of the library "
               "(monitored by C03 C04 C11 C12 C13), never with the cp_* routine under test",
               "scalars act on group elements modulo the group order: a component v+n that satisfies the defining "
               "equation is recorded as a non-canonical acceptance, not as a violation, except where the standard "
               "(ECDSA, RSA) or the verifier's own range check defines the range"]


def prep(ctx, key, desc=None, **kw):
    """ctx.begin() for a preparatory case (key generation, scheme set-up, the honest signature that hostile cases
    start from).  When `vf replay` selects one other key, the preparation still has to run (unjournaled)."""
    if ctx.begin(key, desc, **kw):
        return True
    if ctx.only is not None and key != ctx.only and key not in ctx.skip:
        ctx.cur_key, ctx.cur_desc = key, desc
        return True
    return False


def parts(tier):
    q = tier == "quick"
    ps = [dict(part="ecdsa", cfg="asan256", shards=3 if q else 6),
          dict(part="ec", cfg="asan256", shards=6 if q else 8),
          dict(part="rsa", cfg="asan256", shards=2 if q else 4),
          dict(part="pairing", cfg="asan256", shards=5 if q else 8)]
    if not q:
        ps += [dict(part="rsa", cfg="rsa-pkcs1", shards=4), dict(part="rsa", cfg="rsa-basic", shards=4)]
    else:
        # reduced RSA workload on the other two padding builds (two keys; every octet of the encoded message altered)
        ps += [dict(part="rsa-alt", cfg="rsa-pkcs1", shards=1), dict(part="rsa-alt", cfg="rsa-basic", shards=1)]
    return ps


# =====================================================================================================
class Base(object):
    """common plumbing of one worker"""

    def __init__(self, ctx, R):
        self.ctx = ctx
        self.R = R
        self.rng = ctx.rng
        self.di = 0          # directed-case counter (round-robin ownership)
        self.noncanon = {}

    def mine(self):
        self.di += 1
        return self.ctx.mine(self.di)

    def rbytes(self, n):
        return bytes(self.rng.getrandbits(8) for _ in range(n))

    def verdict(self, res):
        """-> 'acc' | 'rej' | 'err' from a verifier's CallResult"""
        if res.caught:
            return "err"
        return "acc" if res.i == 1 else ("rej" if res.i == 0 else "ret%d" % res.i)

    def judge(self, lib, model, detail=None, err_ok_when_invalid=True):
        """library verdict must equal the model verdict; an error counts as a rejection of an invalid triple"""
        ctx = self.ctx
        key = ctx.cur_key
        if lib == "acc":
            ctx.check(model, key + "|accepted", detail)
        elif lib == "rej":
            ctx.check(not model, key + "|rejected", detail)
        elif lib == "err":
            ctx.add("verifier_errors")
            ctx.check(not model and err_ok_when_invalid, key + "|error", detail)
        else:
            ctx.check(False, key + "|return-value", dict(detail or {}, ret=lib))


# =====================================================================================================
# ECDSA and EC-Schnorr on the six 256-bit curves: fully independent verdicts
# =====================================================================================================
class EcDsa(Base):
    def __init__(self, ctx, R):
        Base.__init__(self, ctx, R)
        self.d = R.new("bn")
        self.r = R.new("bn")
        self.s = R.new("bn")
        self.Q = R.new("ec")
        self.T = R.new("ec")

    # --- models
    def digest(self, msg, pre):
        return msg if pre else H(msg)

    def model_ecdsa(self, r, s, msg, pre, Q):
        R = self.R
        return cprt.ecdsa_verify(R.EC, R.G, R.n, r, s, self.digest(msg, pre), Q, R.FCv.lin)

    def ecss_e(self, msg, rx):
        R = self.R
        return cprt.bits2int(H(msg + (rx % R.n).to_bytes(R.FC, "big")), R.n) % R.n

    def model_ecss(self, e, s, msg, Q):
        R = self.R
        E, n = R.EC, R.n
        if not (0 <= e < n and 1 <= s < n):
            return False
        if Q is None or not E.on_curve(Q):
            return False
        P = R.FCv.lin(s, R.G, e, Q)
        if P is None or P[0] % n == 0:
            return False
        return self.ecss_e(msg, P[0]) == e

    # --- library calls
    def lib_ecdsa(self, r, s, msg, pre, Q):
        R = self.R
        R.bn_put(self.r, r)
        R.bn_put(self.s, s)
        R.pt_put(self.Q, Q)
        m = R.bytes_in(msg)
        try:
            return self.verdict(R.call("cp_ecdsa_ver", self.r, self.s, m, len(msg), 1 if pre else 0, self.Q))
        finally:
            R.free(m)

    def lib_ecss(self, e, s, msg, Q):
        R = self.R
        R.bn_put(self.r, e)
        R.bn_put(self.s, s)
        R.pt_put(self.Q, Q)
        m = R.bytes_in(msg)
        try:
            return self.verdict(R.call("cp_ecss_ver", self.r, self.s, m, len(msg), self.Q))
        finally:
            R.free(m)

    def keygen(self, fn):
        R = self.R
        res = R.call(fn, self.d, self.Q)
        if res.caught or res.i != R.OK:
            return None
        dv = R.bn_val(self.d)
        return dv, R.pt(self.Q)

    def sign_ecdsa(self, msg, pre, dv):
        R = self.R
        R.bn_put(self.d, dv)
        m = R.bytes_in(msg)
        try:
            res = R.call("cp_ecdsa_sig", self.r, self.s, m, len(msg), 1 if pre else 0, self.d)
        finally:
            R.free(m)
        if res.caught or res.i != R.OK:
            return None
        rv, sv = R.bn_get(self.r), R.bn_get(self.s)
        return rv[0], sv[0], rv[3] and sv[3]

    def sign_ecss(self, msg, dv):
        R = self.R
        R.bn_put(self.d, dv)
        m = R.bytes_in(msg)
        try:
            res = R.call("cp_ecss_sig", self.r, self.s, m, len(msg), self.d)
        finally:
            R.free(m)
        if res.caught or res.i != R.OK:
            return None
        rv, sv = R.bn_get(self.r), R.bn_get(self.s)
        return rv[0], sv[0], rv[3] and sv[3]

    # --- workloads
    def run_curve(self, cname):
        ctx, R, rng = self.ctx, self.R, self.rng
        E, G, n, p = R.EC, R.G, R.n, R.curve["p"]
        q = ctx.quick

        def offcurve(Q):
            return (Q[0], (Q[1] + 1) % p)

        def case(fn, cls, mode, desc):
            if fn.endswith("_sig") and desc and str(desc[-1]).endswith("-base"):
                return prep(ctx, "%s|%s,%s" % (fn, cls, mode), desc)
            return ctx.begin("%s|%s,%s" % (fn, cls, mode), desc)

        # ---------------- key generation is consistent with the model
        keys = []
        for fn in ("cp_ecdsa_gen", "cp_ecss_gen"):
            for _ in range(2):
                if not prep(ctx, "%s|keypair" % fn, [cname]):
                    continue
                try:
                    k = self.keygen(fn)
                    ctx.check(k is not None, ctx.cur_key + "|unexpected-error")
                    if k:
                        ctx.check(0 < k[0] < n and E.eq(E.mul(k[0], G), k[1]), ctx.cur_key + "|value",
                                  {"d": hx(k[0])})
                        keys.append(k)
                except MonitorViolation as e:
                    ctx.fail(ctx.cur_key + "|" + e.kind, e.detail)
                finally:
                    ctx.end()
        if not keys:
            return
        # extra keys chosen by the harness (boundary private keys)
        for dv in (1, 2, n - 1, rng.randrange(1, n)):
            keys.append((dv, E.mul(dv, G)))

        # ---------------- completeness: every message length, both modes
        lens = [(L, 0) for L in range(0, 301)] + [(L, 1) for L in range(0, 73)]
        for L, pre in lens:
            if not self.mine():
                continue
            dv, Q = keys[rng.randrange(len(keys))]
            kind = rng.choice(["rand", "zero", "ff"])
            msg = {"rand": self.rbytes(L), "zero": bytes(L), "ff": b"\xff" * L}[kind]
            mode = "prehashed" if pre else "hashed"
            if case("cp_ecdsa_sig", "honest", mode, [cname, L, kind]):
                try:
                    sg = self.sign_ecdsa(msg, pre, dv)
                    ctx.check(sg is not None, ctx.cur_key + "|unexpected-error")
                    if sg:
                        r, s, nf = sg
                        ctx.check(nf and 0 < r < n and 0 < s < n, ctx.cur_key + "|range", {"r": hx(r), "s": hx(s)})
                        ctx.check(self.model_ecdsa(r, s, msg, pre, Q), ctx.cur_key + "|model-rejects",
                                  {"r": hx(r), "s": hx(s), "msg": msg.hex(), "d": hx(dv)})
                        lv = self.lib_ecdsa(r, s, msg, pre, Q)
                        ctx.check(lv == "acc", "cp_ecdsa_ver|honest,%s|rejected" % mode,
                                  {"lib": lv, "r": hx(r), "s": hx(s), "msg": msg.hex(), "d": hx(dv)})
                except MonitorViolation as e:
                    ctx.fail(ctx.cur_key + "|" + e.kind, e.detail)
                finally:
                    ctx.end()
            if not pre and case("cp_ecss_sig", "honest", "hashed", [cname, L, kind]):
                try:
                    sg = self.sign_ecss(msg, dv)
                    ctx.check(sg is not None, ctx.cur_key + "|unexpected-error")
                    if sg:
                        e_, s, nf = sg
                        ctx.check(nf and 0 <= e_ < n and 0 <= s < n, ctx.cur_key + "|range", {"e": hx(e_), "s": hx(s)})
                        ctx.check(self.model_ecss(e_, s, msg, Q) or s == 0, ctx.cur_key + "|model-rejects",
                                  {"e": hx(e_), "s": hx(s), "msg": msg.hex(), "d": hx(dv)})
                        lv = self.lib_ecss(e_, s, msg, Q)
                        ctx.check(lv == "acc" or s == 0, "cp_ecss_ver|honest,hashed|rejected",
                                  {"lib": lv, "e": hx(e_), "s": hx(s), "msg": msg.hex(), "d": hx(dv)})
                except MonitorViolation as e:
                    ctx.fail(ctx.cur_key + "|" + e.kind, e.detail)
                finally:
                    ctx.end()

        # ---------------- valid triples whose recomputed point has an x-coordinate in [n, p): constructed by
        # public-key recovery (R = (n + j, y), r = j, any s; Q = r^-1 (s R - e G)), never met at random
        if p > n + 1:
            from ..model.curves import sqrt_mod
            a_, b_ = R.curve["a"], R.curve["b"]
            cand = []
            j = 0
            while len(cand) < (3 if q else 12) and j < min(p - n, 4000):
                j += 1
                x = n + j
                y = sqrt_mod((x * x * x + a_ * x + b_) % p, p)
                if y is not None and (y * y - (x * x * x + a_ * x + b_)) % p == 0:
                    cand.append((j, (x, y if rng.random() < 0.5 else (p - y) % p)))
            for j, Rp in cand:
                for pre in (0, 1):
                    if not self.mine():
                        continue
                    mode = "prehashed" if pre else "hashed"
                    msg = self.rbytes(rng.choice([20, 32, 48]) if pre else rng.randrange(0, 80))
                    sv = rng.randrange(1, n)
                    ev = cprt.bits2int(self.digest(msg, pre), n)
                    ri = pow(j, -1, n)
                    Qc = E.add(E.mul(sv * ri % n, Rp), E.mul((-ev * ri) % n, G))
                    if Qc is None or not ctx.begin("cp_ecdsa_ver|constructed-x>=n,%s" % mode, [cname, j]):
                        continue
                    try:
                        if self.model_ecdsa(j, sv, msg, pre, Qc):      # sanity of the construction
                            lv = self.lib_ecdsa(j, sv, msg, pre, Qc)
                            ctx.check(lv == "acc", ctx.cur_key + "|rejected",
                                      {"lib": lv, "r": hx(j), "s": hx(sv), "msg": msg.hex(), "Q": [hx(Qc[0]), hx(Qc[1])],
                                       "x_R": hx(Rp[0])})
                            lv = self.lib_ecdsa(j + 1, sv, msg, pre, Qc)
                            ctx.check(lv != "acc", ctx.cur_key + "|r+1-accepted", {"lib": lv})
                        else:
                            ctx.fail(ctx.cur_key + "|construction", {"j": j})
                    except MonitorViolation as e:
                        ctx.fail(ctx.cur_key + "|" + e.kind, e.detail)
                    finally:
                        ctx.end()

        # ---------------- the final comparison v == r is exact: in pre-hashed mode anyone can steer the recomputed point
        # (pick a, b; R = aG + bQ; s' = r'/b; digest e = a s'): the verifier then recomputes exactly x(R) mod n whatever
        # r' is, so r' can be ANY structured neighbour of the right value - low digits only, high digits only, one
        # digit or octet altered, +-2^(64 j) - and must be refused unless it IS the right value
        dvk, Qk = keys[rng.randrange(len(keys))]
        for it in range(2 if q else 8):
            if not self.mine():
                continue
            a_s, b_s = rng.randrange(1, n), rng.randrange(1, n)
            Rk = E.add(E.mul(a_s, G), E.mul(b_s, Qk))
            if Rk is None:
                continue
            r0 = Rk[0] % n
            W_ = 64
            nd = (n.bit_length() + W_ - 1) // W_
            cands = [("exact", r0)]
            for j in range(1, nd):
                cands.append(("low-%d-digits" % j, r0 & ((1 << (W_ * j)) - 1)))
                cands.append(("high-digits-only", (r0 >> (W_ * j)) << (W_ * j)))
                cands.append(("plus-2^%d" % (W_ * j), r0 + (1 << (W_ * j))))
                cands.append(("minus-2^%d" % (W_ * j), r0 - (1 << (W_ * j))))
                cands.append(("digit-%d-zeroed" % j, r0 & ~(((1 << W_) - 1) << (W_ * j))))
            for sh in (0, 8, 56, 64, 120, 248):
                cands.append(("octet-altered", r0 ^ (0x01 << sh)))
                cands.append(("octet-altered", r0 ^ (0x80 << sh)))
            cands.append(("shifted-right-one-digit", r0 >> W_))
            cands.append(("shifted-left-one-digit", (r0 << W_) % (1 << (W_ * nd))))
            for lab, rp in cands:
                if not (0 < rp < n):
                    continue
                sp = rp * pow(b_s, -1, n) % n
                ev = a_s * sp % n
                if sp == 0:
                    continue
                dg = ev.to_bytes((n.bit_length() + 7) // 8, "big")
                if cprt.bits2int(dg, n) != ev:
                    continue
                if not ctx.begin("cp_ecdsa_ver|steered-point,prehashed|r=%s" % lab, [cname, hx(rp)]):
                    continue
                try:
                    mv = self.model_ecdsa(rp, sp, dg, 1, Qk)
                    lv = self.lib_ecdsa(rp, sp, dg, 1, Qk)
                    ctx.check((lv == "acc") == bool(mv), ctx.cur_key + ("|rejected" if mv else "|accepted"),
                              {"lib": lv, "model": bool(mv), "r": hx(rp), "right_r": hx(r0), "s": hx(sp), "digest": dg.hex(),
                               "Q": [hx(Qk[0]), hx(Qk[1])]})
                except MonitorViolation as e:
                    ctx.fail(ctx.cur_key + "|" + e.kind, e.detail)
                finally:
                    ctx.end()

        if p > n + 1:
            # the same construction for EC-Schnorr: P = (n + j, y), e = H(m || x_P mod n), any s, Q = e^-1 (P - s G)
            for j, Pp in cand:
                if not self.mine():
                    continue
                msg = self.rbytes(rng.randrange(0, 80))
                ev = self.ecss_e(msg, Pp[0])
                sv = rng.randrange(1, n)
                if ev == 0:
                    continue
                Qc = E.mul(pow(ev, -1, n), E.add(Pp, E.mul((-sv) % n, G)))
                if Qc is None or not ctx.begin("cp_ecss_ver|constructed-x>=n,hashed", [cname, j]):
                    continue
                try:
                    if self.model_ecss(ev, sv, msg, Qc):
                        lv = self.lib_ecss(ev, sv, msg, Qc)
                        ctx.check(lv == "acc", ctx.cur_key + "|rejected",
                                  {"lib": lv, "e": hx(ev), "s": hx(sv), "msg": msg.hex(), "Q": [hx(Qc[0]), hx(Qc[1])], "x_P": hx(Pp[0])})
                    else:
                        ctx.fail(ctx.cur_key + "|construction", {"j": j})
                except MonitorViolation as e:
                    ctx.fail(ctx.cur_key + "|" + e.kind, e.detail)
                finally:
                    ctx.end()

        # ---------------- hostile triples with independent verdicts
        def hostile(scheme, it):
            dv, Q = keys[rng.randrange(len(keys))]
            d2, Q2 = keys[(rng.randrange(len(keys) - 1) + 1 + keys.index((dv, Q))) % len(keys)]
            pre = scheme == "ecdsa" and rng.random() < 0.4
            if pre:
                msg = self.rbytes(rng.choice([1, 20, 28, 31, 32, 33, 48, 64]))
            else:
                msg = self.rbytes(rng.choice([0, 1, 5, 32, 55, 56, 64, 100, 300]))
            mode = "prehashed" if pre else "hashed"
            if scheme == "ecdsa":
                fn, lib, model = "cp_ecdsa_ver", (lambda a, b, m, Qv: self.lib_ecdsa(a, b, m, pre, Qv)), \
                    (lambda a, b, m, Qv: self.model_ecdsa(a, b, m, pre, Qv))
                if not case("cp_ecdsa_sig", "honest", mode, [cname, len(msg), "hostile-base"]):
                    return
                try:
                    sg = self.sign_ecdsa(msg, pre, dv)
                finally:
                    ctx.end()
            else:
                fn, lib, model = "cp_ecss_ver", self.lib_ecss, self.model_ecss
                if not case("cp_ecss_sig", "honest", mode, [cname, len(msg), "hostile-base"]):
                    return
                try:
                    sg = self.sign_ecss(msg, dv)
                finally:
                    ctx.end()
            if sg is None:
                ctx.fail("%s|honest,%s|unexpected-error" % (fn.replace("_ver", "_sig"), mode))
                return
            a0, b0, _ = sg      # (r, s) or (e, s)
            flip = lambda m: (bytes([m[0] ^ (1 << rng.randrange(8))]) + m[1:]) if m else b"\x01"
            big = rng.getrandbits(300) | (1 << 299)
            cs = [("honest", a0, b0, msg, Q),
                  ("a+n", a0 + n, b0, msg, Q), ("s+n", a0, b0 + n, msg, Q),
                  ("a=0", 0, b0, msg, Q), ("s=0", a0, 0, msg, Q),
                  ("a=n", n, b0, msg, Q), ("s=n", a0, n, msg, Q),
                  ("a=n+1", n + 1, b0, msg, Q), ("s=n+1", a0, n + 1, msg, Q),
                  ("a=n-1", n - 1, b0, msg, Q), ("s=n-1", a0, n - 1, msg, Q),
                  ("a=1", 1, b0, msg, Q), ("s=1", a0, 1, msg, Q),
                  ("a<0", -a0, b0, msg, Q), ("s<0", a0, -b0, msg, Q),
                  ("a=n-a", n - a0, b0, msg, Q), ("s=n-s", a0, n - b0, msg, Q),
                  ("a>n", big, b0, msg, Q), ("s>n", a0, big, msg, Q),
                  ("a=p", p, b0, msg, Q), ("swapped-a-s", b0, a0, msg, Q),
                  ("random-a-s", rng.randrange(1, n), rng.randrange(1, n), msg, Q),
                  ("Q=infinity", a0, b0, msg, None),
                  ("Q=-Q", a0, b0, msg, E.neg(Q)), ("Q-offcurve", a0, b0, msg, offcurve(Q)),
                  ("Q-offcurve-x", a0, b0, msg, ((Q[0] + 1) % p, Q[1])),
                  ("Q=(0,0)", a0, b0, msg, (0, 0)),
                  ("Q-foreign", a0, b0, msg, Q2), ("Q=G", a0, b0, msg, G), ("Q=2Q", a0, b0, msg, E.dbl(Q)),
                  ("msg-bitflip", a0, b0, flip(msg), Q), ("msg-truncated", a0, b0, msg[:-1], Q),
                  ("msg-extended", a0, b0, msg + b"\x00", Q), ("msg-empty", a0, b0, b"", Q),
                  ("a-bitflip", a0 ^ (1 << rng.randrange(256)), b0, msg, Q),
                  ("s-bitflip", a0, b0 ^ (1 << rng.randrange(256)), msg, Q),
                  ("a-bit255", a0 ^ (1 << 255), b0, msg, Q), ("s-bit255", a0, b0 ^ (1 << 255), msg, Q),
                  ("a-bit0", a0 ^ 1, b0, msg, Q)]
            # forgeries that need no private key when the verifier forgets to validate Q
            if scheme == "ecdsa":
                e_ = cprt.bits2int(self.digest(msg, pre), n) % n
                X = R.FCv.mul(e_, G) if e_ else None
                if X is not None and X[0] % n:
                    cs.append(("Q=infinity,forged", X[0] % n, 1, msg, None))
                # valid alternative built with the private key: another nonce
                k = rng.randrange(1, n)
                X = R.FCv.mul(k, G)
                r2 = X[0] % n
                s2 = pow(k, -1, n) * (e_ + dv * r2) % n
                if r2 and s2:
                    cs.append(("resigned", r2, s2, msg, Q))
                    cs.append(("resigned,s=n-s", r2, n - s2, msg, Q))
            else:
                sv = rng.randrange(1, n)
                X = R.FCv.mul(sv, G)
                if X[0] % n:
                    cs.append(("Q=infinity,forged", self.ecss_e(msg, X[0]), sv, msg, None))
                k = rng.randrange(1, n)
                X = R.FCv.mul(k, G)
                e2 = self.ecss_e(msg, X[0])
                cs.append(("resigned", e2, (k - dv * e2) % n, msg, Q))
                # commitment at infinity: e = H(m || 0), s = -e d
                e3 = self.ecss_e(msg, 0)
                cs.append(("R=infinity", e3, (-e3 * dv) % n, msg, Q))
            for cls, a, b, m, Qv in cs:
                if not case(fn, cls, mode, [cname, hx(a), hx(b), m.hex(), Qv and [hx(Qv[0]), hx(Qv[1])]]):
                    continue
                try:
                    lv = lib(a, b, m, Qv)
                    mv = model(a, b, m, Qv)
                    self.judge(lv, mv, {"lib": lv, "model": mv, "d": hx(dv)})
                except MonitorViolation as e:
                    ctx.fail(ctx.cur_key + "|" + e.kind, e.detail)
                finally:
                    ctx.end()

        nh = ctx.n(3, 40)
        for it in range(nh):
            hostile("ecdsa", it)
            hostile("ecss", it)

        # ---------------- every single-bit flip of r, s (e, s) and of the message of one signature per curve
        for scheme in ("ecdsa", "ecss"):
            dv, Q = keys[rng.randrange(len(keys))]
            msg = self.rbytes(24)
            base = (0x5EED0000 + (1 if scheme == "ecss" else 0))
            if scheme == "ecdsa":
                fn = "cp_ecdsa_ver"
                lib = lambda a, b, m: self.lib_ecdsa(a, b, m, 0, Q)
                model = lambda a, b, m: self.model_ecdsa(a, b, m, 0, Q)
                ok = case("cp_ecdsa_sig", "honest", "hashed", [cname, 24, "bitflip-base"])
                try:
                    sg = self.sign_ecdsa(msg, 0, dv) if ok else None
                finally:
                    ctx.end()
            else:
                fn = "cp_ecss_ver"
                lib = lambda a, b, m: self.lib_ecss(a, b, m, Q)
                model = lambda a, b, m: self.model_ecss(a, b, m, Q)
                ok = case("cp_ecss_sig", "honest", "hashed", [cname, 24, "bitflip-base"])
                try:
                    sg = self.sign_ecss(msg, dv) if ok else None
                finally:
                    ctx.end()
            if sg is None:
                continue
            a0, b0, _ = sg
            # NB: every shard signs its own message, so the flips are split by position only
            flips = [("a", i) for i in range(257)] + [("s", i) for i in range(257)] + [("m", i) for i in range(8 * len(msg))]
            for j, (which, i) in enumerate(flips):
                if (j % ctx.nshards) != ctx.shard:
                    continue
                a, b, m = a0, b0, msg
                if which == "a":
                    a = a0 ^ (1 << i)
                elif which == "s":
                    b = b0 ^ (1 << i)
                else:
                    m = bytearray(msg)
                    m[i // 8] ^= 1 << (i % 8)
                    m = bytes(m)
                if not case(fn, "allflips-" + which, "hashed", [cname, i, hx(a0), hx(b0), msg.hex()]):
                    continue
                try:
                    lv = lib(a, b, m)
                    if lv != "rej" or rng.random() < 0.03:
                        mv = model(a, b, m)
                        self.judge(lv, mv, {"lib": lv, "model": mv, "bit": i, "d": hx(dv)})
                    else:
                        ctx.ok()
                except MonitorViolation as e:
                    ctx.fail(ctx.cur_key + "|" + e.kind, e.detail)
                finally:
                    ctx.end()


def run_ecdsa(ctx):
    R = PX(ctx.cfg)
    w = EcDsa(ctx, R)
    ids = R.ep_param_ids()
    ctx.note("curves", [nm for nm, _ in ids])
    if not R.sha256_is_md:
        ctx.note("skipped", "MD_MAP is not SHA-256 in this build")
        return
    for nm, cid in ids:
        R.set_curve(cid)
        w.run_curve(nm)
    ctx.note("functions_exercised", sorted(k for k in R.fn_seen if k.startswith("cp_")))
    ctx.note("error_codes_seen", {str(k): v for k, v in R.err_codes.items()})



# =====================================================================================================
# Generic mutation engine: a scheme instance exposes named components living in library memory
# =====================================================================================================
class Comp(object):
    """one component of a (message, signature, key) triple"""

    def __init__(self, name, kind, role, ptr=None, val=None, full=False):
        self.name, self.kind, self.role, self.ptr, self.val, self.full = name, kind, role, ptr, val, full


class Scheme(Base):
    """subclasses define: name, verfn, setup(), sign(msg) -> bool, comps() -> [Comp], ver() -> CallResult,
    eqn() -> True / False / None (None: the definition does not decide this input)"""
    msg_kind = "bytes"       # 'bytes' | 'bn' | None
    maxlen = 300
    directed_only = ()       # (component, class) pairs produced only by a directed case (fatal on some trees)
    curve_model = True       # the Python curve model is available for 'ec' components

    def __init__(self, ctx, R):
        Base.__init__(self, ctx, R)
        self.tmp = {}

    # ------------------------------------------------------------------ component access
    def snap(self, c):
        R = self.R
        if c.kind == "bytes":
            return c.val
        return R.snap(c.ptr, R.size_of(c.kind))

    def restore(self, c, s):
        if c.kind == "bytes":
            c.val = s
        else:
            self.R.restore(c.ptr, s)

    def describe(self):
        R = self.R
        out = {}
        for c in self.comps():
            if c.kind == "bytes":
                out[c.name] = c.val.hex()
            elif c.kind == "bn":
                v = R.bn_get(c.ptr)[0]
                out[c.name] = hx(v) if v is not None else None
            else:
                out[c.name] = R.snap(c.ptr, R.size_of(c.kind)).hex()
        return out

    # ------------------------------------------------------------------ mutation generators
    def muts(self, c, full):
        """-> list of (class, apply()) ; apply writes the mutated value into the component"""
        R, rng = self.R, self.rng
        n = R.n
        out = []
        if c.kind == "bn":
            v = R.bn_get(c.ptr)[0]

            def put(x):
                return lambda: R.bn_put(c.ptr, x)
            for cls, x in (("zero", 0), ("one", 1), ("n", n), ("n+-1", n + 1), ("n+-1", n - 1), ("v+kn", v + n), ("v+kn", v + 2 * n),
                           ("n-v", n - v), ("neg", -v), ("v+-1", v + 1), ("v+-1", v - 1),
                           ("big", rng.getrandbits(300) | (1 << 299)), ("random", rng.randrange(n))):
                if x != v:
                    out.append((cls, put(x)))
            bits = range(257) if full else rng.sample(range(257), 4)
            for b in bits:
                out.append(("bitflip", put(v ^ (1 << b))))
        elif c.kind == "bytes":
            v = c.val

            def setv(x):
                def f():
                    c.val = x
                return f
            nb = 8 * len(v)
            bits = range(nb) if (full and nb <= 512) else rng.sample(range(nb), min(nb, 6))
            for b in bits:
                m = bytearray(v)
                m[b // 8] ^= 1 << (b % 8)
                out.append(("bitflip", setv(bytes(m))))
            if v:
                out.append(("truncated", setv(v[:-1])))
                out.append(("truncated", setv(v[1:])))
                out.append(("empty", setv(b"")))
            out.append(("extended", setv(v + b"\x00")))
            out.append(("extended", setv(b"\x00" + v)))
            out.append(("random", setv(self.rbytes(max(1, len(v))))))
        elif c.kind in ("ec", "g1"):
            p = R.curve["p"]
            E = R.EC
            P = R.pt(c.ptr)

            def putp(Q):
                return lambda: R.pt_put(c.ptr, Q)
            out.append(("identity", putp(None)))
            out.append(("random-valid", putp(R.FCv.mul(rng.randrange(1, n), R.G))))
            out.append(("generator", putp(R.G)))
            out.append(("zero-zero", putp((0, 0))))
            if P is not None:
                out.append(("negated", putp(E.neg(P))))
                out.append(("offcurve", putp((P[0], (P[1] + 1) % p))))
                out.append(("offcurve", putp(((P[0] + 1) % p, P[1]))))
                out.append(("doubled", putp(E.dbl(P))))
                out.append(("plus-G", putp(E.add(P, R.G))))
                bits = range(256) if full else rng.sample(range(256), 3)
                for b in bits:
                    out.append(("bitflip", putp(((P[0] ^ (1 << b)) % p, P[1]))))
                for b in (range(256) if full else rng.sample(range(256), 3)):
                    out.append(("bitflip", putp((P[0], (P[1] ^ (1 << b)) % p))))
        elif c.kind == "g2":
            p = R.curve["p"]
            x, y, z, _ = R.ep2_get(c.ptr)
            out.append(("identity", lambda: R.call("ep2_set_infty", c.ptr)))
            out.append(("random-valid", lambda: R.call("g2_rand", c.ptr)))
            out.append(("generator", lambda: R.call("g2_get_gen", c.ptr)))
            out.append(("zero-zero", lambda: R.ep2_put(c.ptr, (0, 0), (0, 0))))
            if z != (0, 0):
                out.append(("negated", lambda: R.call("g2_neg", c.ptr, c.ptr)))
                out.append(("offcurve", lambda: R.ep2_put(c.ptr, x, ((y[0] + 1) % p, y[1]))))
                out.append(("offcurve", lambda: R.ep2_put(c.ptr, (x[0], (x[1] + 1) % p), y)))

                def dbl():
                    R.call("g2_dbl", c.ptr, c.ptr)
                    R.call("g2_norm", c.ptr, c.ptr)
                out.append(("doubled", dbl))
                out.append(("non-subgroup", lambda: self.g2_nonmember(c.ptr)))
                out.append(("plus-non-subgroup", lambda: self.g2_plus_nonmember(c.ptr)))
                for b in (range(256) if full else rng.sample(range(256), 3)):
                    i = rng.randrange(2)

                    def fl(b=b, i=i):
                        xx = list(x)
                        xx[i] = (xx[i] ^ (1 << b)) % p
                        R.ep2_put(c.ptr, tuple(xx), y)
                    out.append(("bitflip", fl))
                for b in rng.sample(range(256), 3):
                    i = rng.randrange(2)

                    def fl(b=b, i=i):
                        yy = list(y)
                        yy[i] = (yy[i] ^ (1 << b)) % p
                        R.ep2_put(c.ptr, x, tuple(yy))
                    out.append(("bitflip", fl))
        elif c.kind == "gt":
            p = R.curve["p"]
            co = R.fpx_get(c.ptr, 12)[0]
            out.append(("unity", lambda: R.call("fp12_set_dig", c.ptr, 1)))
            out.append(("zero", lambda: R.call("fp12_zero", c.ptr)))
            out.append(("squared", lambda: R.call("fp12_sqr", c.ptr, c.ptr)))
            out.append(("inverted", lambda: R.call("fp12_inv", c.ptr, c.ptr)))
            out.append(("random-gt", lambda: R.call("gt_rand", c.ptr)))
            for _ in range(12 if full else 3):
                i, b = rng.randrange(12), rng.randrange(256)

                def fl(i=i, b=b):
                    cc = list(co)
                    cc[i] = (cc[i] ^ (1 << b)) % p
                    R.fpx_put(c.ptr, cc)
                out.append(("bitflip", fl))
        return out

    # ------------------------------------------------------------------ the engine
    def mutate(self, cname, full_names=(), sample=0.05, swaps=True, only=None, light=False):
        """run every mutation of every component (or of those selected by `only`) of the current honest instance"""
        ctx, R, rng = self.ctx, self.R, self.rng
        comps = self.comps()
        self.all_identity(cname)
        for c in comps:
            if only is not None and not only(c):
                continue
            full = c.name in full_names
            saved = self.snap(c)
            lst = self.muts(c, full)
            if swaps:
                for o in comps:
                    if o is not c and o.kind == c.kind and c.kind != "bytes":
                        so = self.snap(o)
                        if so != saved:
                            lst.append(("swapped", (lambda so=so: self.restore(c, so))))
            if light and not full:
                # one case per class and component (many-member rings: the swap partners alone are quadratic)
                seen, l2 = set(), []
                rng.shuffle(lst)
                for cls, apply in lst:
                    if cls not in seen:
                        seen.add(cls)
                        l2.append((cls, apply))
                lst = l2
            for cls, apply in lst:
                if (c.name, cls) in self.directed_only:
                    continue
                key = "%s|%s:%s" % (self.verfn, re.sub(r"\d*\[\d+\]|\d+$", "", c.name), cls)
                if not ctx.begin(key, [cname, self.name]):
                    continue
                try:
                    apply()
                    ctx.cur_desc = [cname, self.describe()]
                    lv = self.verdict(self.ver())
                    if lv != "rej" or rng.random() < sample:
                        ev = self.eqn()
                        if ev is None:
                            ctx.add("undecided_by_definition")
                        else:
                            self.judge(lv, ev, {"lib": lv, "equation": ev})
                            if lv == "acc" and ev and cls in ("v+kn", "neg", "big", "n", "n+-1"):
                                self.noncanon[key] = self.noncanon.get(key, 0) + 1
                    else:
                        ctx.ok()
                except MonitorViolation as e:
                    ctx.fail(ctx.cur_key + "|" + e.kind, e.detail)
                finally:
                    self.restore(c, saved)
                    ctx.end()

    def all_identity(self, cname):
        """every group-element component of signature and key replaced by the identity at once"""
        ctx, R = self.ctx, self.R
        comps = [c for c in self.comps() if c.kind in ("ec", "g1", "g2")]
        if len(comps) < 2 or any((c.name, "identity") in self.directed_only for c in comps):
            return
        if not ctx.begin("%s|all-points:identity" % self.verfn, [cname, self.name]):
            return
        saved = [(c, self.snap(c)) for c in comps]
        try:
            for c in comps:
                R.call("ep2_set_infty" if c.kind == "g2" else "ep_set_infty", c.ptr)
            ctx.cur_desc = [cname, self.describe()]
            lv = self.verdict(self.ver())
            ev = self.eqn()
            if ev is not None:
                self.judge(lv, ev, {"lib": lv, "equation": ev})
        except MonitorViolation as e:
            ctx.fail(ctx.cur_key + "|" + e.kind, e.detail)
        finally:
            for c, sv in saved:
                self.restore(c, sv)
            ctx.end()

    def correlated(self, cname, maxpairs=10, eq_rate=0.3):
        """correlated alterations of two components of the same group, built from the accepted signature alone:
        (x + D, y - D), (y, x), (x + [k]y, y), (x, y + [k]x).  Verifiers that test several equations must not merge
        them in a way that lets such pairs cancel; the verdict must equal the defining-equation oracle."""
        ctx, R, rng = self.ctx, self.R, self.rng
        n = R.n
        groups = {}
        for c in self.comps():
            if c.kind in ("bn", "ec", "g1", "g2"):
                groups.setdefault("g1" if c.kind in ("ec", "g1") else c.kind, []).append(c)
        tmp = None
        for kind, cs in groups.items():
            pairs = [(x, y) for i, x in enumerate(cs) for y in cs[i + 1:]]
            rng.shuffle(pairs)
            if kind == "g2" and tmp is None:
                tmp = (R.new("g2"), R.new("bn"))
            for x, y in pairs[:maxpairs]:
                sx, sy = self.snap(x), self.snap(y)
                d, k = rng.randrange(1, n), rng.randrange(2, n)
                for variant in ("x+D,y-D", "swapped", "x+[k]y", "y+[k]x"):
                    if variant == "swapped" and sx == sy:
                        continue
                    if not ctx.begin("%s|pair-%s:%s" % (self.verfn, kind, variant), [cname, self.name, x.name, y.name]):
                        continue
                    try:
                        if variant == "swapped":
                            self.restore(x, sy)
                            self.restore(y, sx)
                        elif kind == "bn":
                            vx, vy = R.bn_get(x.ptr)[0], R.bn_get(y.ptr)[0]
                            if variant == "x+D,y-D":
                                R.bn_put(x.ptr, (vx + d) % n)
                                R.bn_put(y.ptr, (vy - d) % n)
                            elif variant == "x+[k]y":
                                R.bn_put(x.ptr, (vx + k * vy) % n)
                            else:
                                R.bn_put(y.ptr, (vy + k * vx) % n)
                        elif kind == "g1":
                            E, F = R.EC, R.FCv
                            P, Q = R.pt(x.ptr), R.pt(y.ptr)
                            if variant == "x+D,y-D":
                                D = F.mul(d, R.G)
                                R.pt_put(x.ptr, E.add(P, D))
                                R.pt_put(y.ptr, E.add(Q, E.neg(D)))
                            elif variant == "x+[k]y":
                                R.pt_put(x.ptr, E.add(P, F.mul(k, Q)))
                            else:
                                R.pt_put(y.ptr, E.add(Q, F.mul(k, P)))
                        else:
                            T, kb = tmp
                            if variant == "x+D,y-D":
                                R.call("g2_rand", T)
                                R.call("g2_add", x.ptr, x.ptr, T)
                                R.call("g2_norm", x.ptr, x.ptr)
                                R.call("g2_sub", y.ptr, y.ptr, T)
                                R.call("g2_norm", y.ptr, y.ptr)
                            else:
                                a_, b_ = (x, y) if variant == "x+[k]y" else (y, x)
                                R.bn_put(kb, k)
                                R.call("g2_mul", T, b_.ptr, kb)
                                R.call("g2_add", a_.ptr, a_.ptr, T)
                                R.call("g2_norm", a_.ptr, a_.ptr)
                        ctx.cur_desc = [cname, x.name, y.name, self.describe()]
                        lv = self.verdict(self.ver())
                        if lv != "rej" or rng.random() < eq_rate:
                            ev = self.eqn()
                            if ev is None:
                                ctx.add("undecided_by_definition")
                            else:
                                self.judge(lv, ev, {"lib": lv, "equation": ev})
                        else:
                            ctx.ok()
                    except MonitorViolation as e:
                        ctx.fail(ctx.cur_key + "|" + e.kind, e.detail)
                    finally:
                        self.restore(x, sx)
                        self.restore(y, sy)
                        ctx.end()
        if tmp:
            R.free(tmp[0])
            R.free(tmp[1])
        self.special(cname)

    def special(self, cname):
        """scheme-specific constructions (override)"""

    def honest(self, cname, msg, what="honest", eq_rate=1.0):
        """sign msg and require acceptance by the library and (on a sample) by the equation"""
        ctx = self.ctx
        L = len(msg) if isinstance(msg, (bytes, bytearray)) else None
        key, desc = "%s|%s" % (self.sigfn, what), [cname, L if L is not None else hx(msg)]
        if not (prep(ctx, key, desc) if what == "mutation-base" else ctx.begin(key, desc)):
            return False
        ok = False
        try:
            ok = self.sign(msg)
            ctx.check(ok, ctx.cur_key + "|unexpected-error")
            if ok:
                ctx.cur_desc = [cname, self.describe()]
                lv = self.verdict(self.ver())
                ctx.check(lv == "acc", "%s|%s|rejected" % (self.verfn, what), {"lib": lv})
                if eq_rate >= 1.0 or self.rng.random() < eq_rate:
                    ev = self.eqn()
                    ctx.check(ev is not False, "%s|%s|equation-fails" % (self.sigfn, what))
        except MonitorViolation as e:
            ctx.fail(ctx.cur_key + "|" + e.kind, e.detail)
        finally:
            ctx.end()
        return ok

    def finish(self):
        if self.noncanon:
            self.ctx.note("noncanonical_accepted", sorted(set(self.ctx.info.get("noncanonical_accepted", [])) | set(self.noncanon)))


# =====================================================================================================
# EC schemes with Python models: vBNN-IBS, PoK / SoK of discrete logarithms, extendable ring signatures
# =====================================================================================================
class EcScheme(Scheme):
    def scal(self, c):
        return self.R.bn_get(c)[0]

    def lin(self, k1, P1, k2, P2):
        """k1 P1 + k2 P2 in the model"""
        return self.R.FCv.lin(k1, P1, k2, P2)

    def points_ok(self, *pts):
        E = self.R.EC
        return all(P is None or E.on_curve(P) for P in pts)

    def hn(self, data):
        return int.from_bytes(H(data), "big") % self.R.n


class Vbnn(EcScheme):
    name, sigfn, verfn = "vbnn", "cp_vbnn_sig", "cp_vbnn_ver"

    def setup(self):
        R = self.R
        self.msk, self.mpk = R.new("bn"), R.new("ec")
        self.sk, self.pk = R.new("bn"), R.new("ec")
        self.r, self.z, self.h = R.new("ec"), R.new("bn"), R.new("bn")
        self.id = Comp("id", "bytes", "key", val=self.rbytes(self.rng.choice([0, 1, 10, 40])))
        self.msg = Comp("msg", "bytes", "msg", val=b"")
        if R.call("cp_vbnn_gen", self.msk, self.mpk).i != R.OK:
            return False
        i = R.bytes_in(self.id.val)
        try:
            return R.call("cp_vbnn_gen_prv", self.sk, self.pk, self.msk, i, len(self.id.val)).i == R.OK
        finally:
            R.free(i)

    def sign(self, msg):
        R = self.R
        self.msg.val = msg
        i, m = R.bytes_in(self.id.val), R.bytes_in(msg)
        try:
            res = R.call("cp_vbnn_sig", self.r, self.z, self.h, i, len(self.id.val), m, len(msg), self.sk, self.pk)
        finally:
            R.free(i)
            R.free(m)
        return not res.caught and res.i == R.OK

    def comps(self):
        return [Comp("R", "ec", "sig", self.r), Comp("z", "bn", "sig", self.z), Comp("h", "bn", "sig", self.h),
                self.id, self.msg, Comp("mpk", "ec", "pk", self.mpk)]

    def ver(self):
        R = self.R
        i, m = R.bytes_in(self.id.val), R.bytes_in(self.msg.val)
        try:
            return R.call("cp_vbnn_ver", self.r, self.z, self.h, i, len(self.id.val), m, len(self.msg.val), self.mpk)
        finally:
            R.free(i)
            R.free(m)

    def eqn(self):
        R = self.R
        E, n = R.EC, R.n
        Rp, mpk = R.pt(self.r), R.pt(self.mpk)
        z, h = self.scal(self.z), self.scal(self.h)
        if not self.points_ok(Rp, mpk) or Rp is None or mpk is None:
            return False
        c = self.hn(self.id.val + R.enc(Rp))
        T = self.lin(c, mpk, 1, Rp)
        Z = self.lin(z, R.G, -h, T)
        return self.hn(self.id.val + self.msg.val + R.enc(Rp) + R.enc(Z)) == h


class PokDl(EcScheme):
    name, sigfn, verfn = "pokdl", "cp_pokdl_prv", "cp_pokdl_ver"
    msg_kind = None

    def setup(self):
        R = self.R
        self.c, self.r, self.x, self.y = R.new("bn"), R.new("bn"), R.new("bn"), R.new("ec")
        xv = self.rng.randrange(1, R.n)
        R.bn_put(self.x, xv)
        R.pt_put(self.y, R.EC.mul(xv, R.G))
        return True

    def sign(self, msg):
        R = self.R
        res = R.call("cp_pokdl_prv", self.c, self.r, self.y, self.x)
        return not res.caught and res.i == R.OK

    def comps(self):
        return [Comp("c", "bn", "sig", self.c), Comp("r", "bn", "sig", self.r), Comp("y", "ec", "pk", self.y)]

    def ver(self):
        return self.R.call("cp_pokdl_ver", self.c, self.r, self.y)

    def eqn(self):
        R = self.R
        Y = R.pt(self.y)
        if not self.points_ok(Y):
            return False
        c, r = self.scal(self.c), self.scal(self.r)
        T = self.lin(r, R.G, c, Y)
        buf = R.enc(R.G) + R.enc(Y) + R.enc(T)
        buf += bytes(3 * (R.FC + 1) - len(buf))
        return self.hn(buf) == c


class SokDl(PokDl):
    name, sigfn, verfn = "sokdl", "cp_sokdl_sig", "cp_sokdl_ver"
    msg_kind = "bytes"

    def setup(self):
        self.msg = Comp("msg", "bytes", "msg", val=b"")
        return PokDl.setup(self)

    def sign(self, msg):
        R = self.R
        self.msg.val = msg
        m = R.bytes_in(msg)
        try:
            res = R.call("cp_sokdl_sig", self.c, self.r, m, len(msg), self.y, self.x)
        finally:
            R.free(m)
        return not res.caught and res.i == R.OK

    def comps(self):
        return PokDl.comps(self) + [self.msg]

    def ver(self):
        R = self.R
        m = R.bytes_in(self.msg.val)
        try:
            return R.call("cp_sokdl_ver", self.c, self.r, m, len(self.msg.val), self.y)
        finally:
            R.free(m)

    def eqn(self):
        R = self.R
        Y = R.pt(self.y)
        if not self.points_ok(Y):
            return False
        c, r = self.scal(self.c), self.scal(self.r)
        T = self.lin(r, R.G, c, Y)
        if Y is None or T is None:
            return None     # shorter encodings leave never-written bytes of the hashed buffer
        return self.hn(self.msg.val + R.enc(R.G) + R.enc(Y) + R.enc(T)) == c


class PokOr(EcScheme):
    """disjunctive proofs; with_msg selects the signature-of-knowledge form, gens the two-generator form"""
    msg_kind = None

    def __init__(self, ctx, R, with_msg=False, gens=False, first=0):
        EcScheme.__init__(self, ctx, R)
        self.with_msg, self.gens, self.first = with_msg, gens, first
        if with_msg:
            self.name = "sokor" + ("-g" if gens else "") + ("-first" if first else "")
            self.sigfn, self.verfn = "cp_sokor_sig", "cp_sokor_ver"
            self.msg_kind = "bytes"
        else:
            self.name, self.sigfn, self.verfn = "pokor", "cp_pokor_prv", "cp_pokor_ver"

    def setup(self):
        R, rng = self.R, self.rng
        E = R.EC
        bs, es = R.bn_sz, R.ep_sz
        self.c, self.r, self.y = R.arr("bn", 2), R.arr("bn", 2), R.arr("ec", 2)
        self.g = R.arr("ec", 2) if self.gens else 0
        self.x = R.new("bn")
        self.msg = Comp("msg", "bytes", "msg", val=b"")
        xv = rng.randrange(1, R.n)
        R.bn_put(self.x, xv)
        gs = [R.G, R.G]
        if self.gens:
            gs = [R.G, E.mul(rng.randrange(2, R.n), R.G)]
            for i in range(2):
                R.pt_put(self.g + i * es, gs[i])
        known = 0 if (self.with_msg and self.first) else 1
        for i in range(2):
            R.pt_put(self.y + i * es, E.mul(xv, gs[i]) if i == known else E.mul(rng.randrange(1, R.n), R.G))
        return True

    def sign(self, msg):
        R = self.R
        if not self.with_msg:
            res = R.call("cp_pokor_prv", self.c, self.r, self.y, self.x)
        else:
            self.msg.val = msg
            m = R.bytes_in(msg)
            try:
                res = R.call("cp_sokor_sig", self.c, self.r, m, len(msg), self.y, self.g, self.x, self.first)
            finally:
                R.free(m)
        return not res.caught and res.i == R.OK

    def comps(self):
        R = self.R
        bs, es = R.bn_sz, R.ep_sz
        cs = [Comp("c0", "bn", "sig", self.c), Comp("c1", "bn", "sig", self.c + bs),
              Comp("r0", "bn", "sig", self.r), Comp("r1", "bn", "sig", self.r + bs),
              Comp("y0", "ec", "pk", self.y), Comp("y1", "ec", "pk", self.y + es)]
        if self.gens:
            cs += [Comp("g0", "ec", "pk", self.g), Comp("g1", "ec", "pk", self.g + es)]
        if self.with_msg:
            cs.append(self.msg)
        return cs

    def ver(self):
        R = self.R
        if not self.with_msg:
            return R.call("cp_pokor_ver", self.c, self.r, self.y)
        m = R.bytes_in(self.msg.val)
        try:
            return R.call("cp_sokor_ver", self.c, self.r, m, len(self.msg.val), self.y, self.g)
        finally:
            R.free(m)

    def orproof(self, c, r, ys, gs, msg, sized):
        """the disjunction check shared by pokor / sokor / ers: None when the hashed buffer is not fully written"""
        R = self.R
        buf = b""
        for i in range(2):
            if not self.points_ok(ys[i], gs[i]):
                return False
            T = self.lin(r[i], gs[i], c[i], ys[i])
            buf += R.enc(gs[i]) + R.enc(ys[i]) + R.enc(T)
        full = 6 * (R.FC + 1)
        if len(buf) < full:
            if not sized:
                return None
            buf += bytes(full - len(buf))
        return (self.hn(msg + buf) - c[0] - c[1]) % R.n == 0

    def eqn(self):
        R = self.R
        bs, es = R.bn_sz, R.ep_sz
        c = [self.scal(self.c), self.scal(self.c + bs)]
        r = [self.scal(self.r), self.scal(self.r + bs)]
        ys = [R.pt(self.y), R.pt(self.y + es)]
        gs = [R.pt(self.g), R.pt(self.g + es)] if self.gens else [R.G, R.G]
        return self.orproof(c, r, ys, gs, self.msg.val if self.with_msg else b"", not self.with_msg)


class Ers(PokOr):
    """extendable ring signature: ring of `size` members built by cp_ers_sig + cp_ers_ext"""

    def __init__(self, ctx, R, size=1, linkable=False):
        EcScheme.__init__(self, ctx, R)
        self.size, self.linkable = size, linkable
        self.name = ("smlers" if linkable else "ers") + "-%d" % size
        self.pre = "cp_smlers" if linkable else "cp_ers"
        self.sigfn, self.verfn = self.pre + "_sig", self.pre + "_ver"
        self.msg_kind = "bytes"

    def setup(self):
        R = self.R
        K = R.K
        self.st = K["sizeof_smlers_st"] if self.linkable else K["sizeof_ers_st"]
        N = self.size
        self.ring = R.mem(self.st * N, 0)
        for i in range(N):
            for off in self.bn_offsets():
                R.call("bn_make", self.ring + i * self.st + off, R.BN_SIZE)
                R.bn_put(self.ring + i * self.st + off, 0)
            for off in self.ec_offsets():
                R.call("ep_set_infty", self.ring + i * self.st + off)
        self.td, self.pp = R.new("bn"), R.new("ec")
        self.sks = [R.new("bn") for _ in range(N)]
        self.pks = [R.new("ec") for _ in range(N)]
        self.cnt = R.cell(0)
        self.msg = Comp("msg", "bytes", "msg", val=b"")
        self.gm = R.new("ec")
        if R.call("cp_ers_gen", self.pp).i != R.OK:
            return False
        R.call("ep_norm", self.pp, self.pp)
        for i in range(N):
            if R.call("cp_ers_gen_key", self.sks[i], self.pks[i]).i != R.OK:
                return False
        return True

    def bn_offsets(self):
        K, bs = self.R.K, self.R.bn_sz
        if self.linkable:
            o = K["off_smlers_st_sig"]
            return [o + K["off_ers_st_c"], o + K["off_ers_st_c"] + bs, o + K["off_ers_st_r"], o + K["off_ers_st_r"] + bs,
                    K["off_smlers_st_c"], K["off_smlers_st_c"] + bs, K["off_smlers_st_r"], K["off_smlers_st_r"] + bs]
        return [K["off_ers_st_c"], K["off_ers_st_c"] + bs, K["off_ers_st_r"], K["off_ers_st_r"] + bs]

    def ec_offsets(self):
        K = self.R.K
        if self.linkable:
            o = K["off_smlers_st_sig"]
            return [o + K["off_ers_st_h"], o + K["off_ers_st_pk"], K["off_smlers_st_tau"]]
        return [K["off_ers_st_h"], K["off_ers_st_pk"]]

    def sign(self, msg):
        R = self.R
        self.msg.val = msg
        m = R.bytes_in(msg)
        try:
            res = R.call(self.pre + "_sig", self.td, self.ring, m, len(msg), self.sks[0], self.pks[0], self.pp)
            if res.caught or res.i != R.OK:
                return False
            R.wr_sz(self.cnt, 1)
            for i in range(1, self.size):
                res = R.call(self.pre + "_ext", self.td, self.ring, self.cnt, m, len(msg), self.pks[i], self.pp)
                if res.caught or res.i != R.OK:
                    return False
            return R.rd_sz(self.cnt) == self.size
        finally:
            R.free(m)

    def comps(self):
        cs = [Comp("td", "bn", "sig", self.td), Comp("pp", "ec", "pk", self.pp), self.msg]
        bn_names = ["c0", "c1", "r0", "r1", "lc0", "lc1", "lr0", "lr1"]
        ec_names = ["h", "pk", "tau"]
        for i in range(self.size):
            b = self.ring + i * self.st
            for nm, off in zip(bn_names, self.bn_offsets()):
                cs.append(Comp("%s[%d]" % (nm, i), "bn", "sig", b + off))
            for nm, off in zip(ec_names, self.ec_offsets()):
                cs.append(Comp("%s[%d]" % (nm, i), "ec", "pk" if nm == "pk" else "sig", b + off))
        return cs

    def ver(self):
        R = self.R
        m = R.bytes_in(self.msg.val)
        try:
            return R.call(self.verfn, self.td, self.ring, self.size, m, len(self.msg.val), self.pp)
        finally:
            R.free(m)

    def eqn(self):
        R = self.R
        E = R.EC
        msg = self.msg.val
        bo, eo = self.bn_offsets(), self.ec_offsets()
        pp = R.pt(self.pp)
        if not self.points_ok(pp):
            return False
        acc = R.FCv.mul(self.scal(self.td), R.G)
        members = []
        for i in range(self.size):
            b = self.ring + i * self.st
            sc = [self.scal(b + o) for o in bo]
            pts = [R.pt(b + o) for o in eo]
            if not self.points_ok(*pts):
                return False
            acc = E.add(acc, pts[0])
            members.append((sc, pts))
        if not E.eq(acc, pp):
            return False
        und = False
        if self.linkable:
            m = R.bytes_in(msg)
            try:
                R.call("ec_map", self.gm, m, len(msg))      # hash-to-curve: lower layer (C13)
            finally:
                R.free(m)
            gm = R.pt(self.gm)
        for sc, pts in members:
            v = self.orproof(sc[0:2], sc[2:4], [pts[0], pts[1]], [R.G, R.G], msg, False)
            if v is False:
                return False
            und = und or v is None
            if self.linkable:
                v = self.orproof(sc[4:6], sc[6:8], [pts[0], pts[2]], [R.G, gm], msg, False)
                if v is False:
                    return False
                und = und or v is None
        return None if und else True


class Etrs(PokOr):
    """extendable threshold ring signature: completeness of sign / extend / join and the binding of message and
    membership proofs.  The threshold relation between trapdoors and ring is not judged (see module report)."""

    def __init__(self, ctx, R, mode="ext"):
        EcScheme.__init__(self, ctx, R)
        self.mode = mode
        self.name = "etrs-" + mode
        self.sigfn, self.verfn = "cp_etrs_sig", "cp_etrs_ver"
        self.msg_kind = "bytes"
        self.max = 3

    def setup(self):
        R, K = self.R, self.R.K
        self.st = K["sizeof_etrs_st"]
        N = 3
        self.ring = R.mem(self.st * N, 0)
        bs = R.bn_sz
        self.boff = [K["off_etrs_st_c"], K["off_etrs_st_c"] + bs, K["off_etrs_st_r"], K["off_etrs_st_r"] + bs, K["off_etrs_st_y"]]
        self.eoff = [K["off_etrs_st_h"], K["off_etrs_st_pk"]]
        for i in range(N):
            for off in self.boff:
                R.call("bn_make", self.ring + i * self.st + off, R.BN_SIZE)
                R.bn_put(self.ring + i * self.st + off, 0)
            for off in self.eoff:
                R.call("ep_set_infty", self.ring + i * self.st + off)
        self.td, self.y = R.arr("bn", self.max), R.arr("bn", self.max)
        self.pp = R.new("ec")
        self.sks = [R.new("bn") for _ in range(N)]
        self.pks = [R.new("ec") for _ in range(N)]
        self.cnt = R.cell(0)
        self.msg = Comp("msg", "bytes", "msg", val=b"")
        if R.call("cp_ers_gen", self.pp).i != R.OK:
            return False
        for i in range(N):
            if R.call("cp_ers_gen_key", self.sks[i], self.pks[i]).i != R.OK:
                return False
        return True

    def sign(self, msg):
        R = self.R
        self.msg.val = msg
        m = R.bytes_in(msg)
        try:
            res = R.call("cp_etrs_sig", self.td, self.y, self.max, self.ring, m, len(msg), self.sks[0], self.pks[0], self.pp)
            if res.caught or res.i != R.OK:
                return False
            R.wr_sz(self.cnt, 1)
            self.thres, self.skip = 1, 0
            if self.mode in ("ext", "ext2"):
                res = R.call("cp_etrs_ext", self.td, self.y, self.max, self.ring, self.cnt, m, len(msg), self.pks[1], self.pp)
                self.skip = 1
                if self.mode == "ext2" and not res.caught and res.i == R.OK:
                    res = R.call("cp_etrs_ext", self.td, self.y, self.max, self.ring, self.cnt, m, len(msg), self.pks[2], self.pp)
                    self.skip = 2
            elif self.mode == "uni":
                res = R.call("cp_etrs_uni", 1, self.td, self.y, self.max, self.ring, self.cnt, m, len(msg), self.sks[1], self.pks[1], self.pp)
                self.thres = 2
            if res.caught or res.i != R.OK:
                return False
            self.size = R.rd_sz(self.cnt)
            return True
        finally:
            R.free(m)

    def comps(self):
        cs = [self.msg]
        for i in range(self.size):
            b = self.ring + i * self.st
            for nm, off in zip(["c0", "c1", "r0", "r1"], self.boff):
                cs.append(Comp("%s[%d]" % (nm, i), "bn", "sig", b + off))
            cs.append(Comp("pk[%d]" % i, "ec", "pk", b + self.eoff[1]))
        return cs

    def ver(self):
        R = self.R
        m = R.bytes_in(self.msg.val)
        try:
            return R.call("cp_etrs_ver", self.thres, self.td + self.skip * R.bn_sz, self.y + self.skip * R.bn_sz, self.max - self.skip,
                          self.ring, self.size, m, len(self.msg.val), self.pp)
        finally:
            R.free(m)

    def eqn(self):
        """necessary condition only: every membership proof verifies for the message (None = not decided here)"""
        R = self.R
        for i in range(self.size):
            b = self.ring + i * self.st
            sc = [self.scal(b + o) for o in self.boff[:4]]
            pts = [R.pt(b + o) for o in self.eoff]
            if not self.points_ok(*pts):
                return False
            v = self.orproof(sc[0:2], sc[2:4], pts, [R.G, R.G], self.msg.val, False)
            if v is False:
                return False
        return None


def run_ec(ctx):
    R = PX(ctx.cfg)
    rng = ctx.rng
    ids = R.ep_param_ids()
    ctx.note("curves", [nm for nm, _ in ids])
    q = ctx.quick
    di = 0
    for ci, (nm, cid) in enumerate(ids):
        R.set_curve(cid)
        schemes = [Vbnn(ctx, R), PokDl(ctx, R), SokDl(ctx, R), PokOr(ctx, R),
                   PokOr(ctx, R, True, False, 0), PokOr(ctx, R, True, False, 1),
                   PokOr(ctx, R, True, True, 0), PokOr(ctx, R, True, True, 1),
                   Ers(ctx, R, 1), Ers(ctx, R, 2), Ers(ctx, R, 3), Ers(ctx, R, 4),
                   Ers(ctx, R, 1, True), Ers(ctx, R, 2, True), Ers(ctx, R, 3, True),
                   Etrs(ctx, R, "sig"), Etrs(ctx, R, "ext"), Etrs(ctx, R, "uni"), Etrs(ctx, R, "ext2")]
        for si, sch in enumerate(schemes):
            di += 1
            sch.di = di * 1000
            if not prep(ctx, "%s|setup" % sch.sigfn, [nm, sch.name]):
                continue
            try:
                ok = sch.setup()
                ctx.check(ok, ctx.cur_key + "|unexpected-error")
            except MonitorViolation as e:
                ctx.fail(ctx.cur_key + "|" + e.kind, e.detail)
                ok = False
            finally:
                ctx.end()
            if not ok:
                continue
            # completeness over message lengths (split over shards)
            heavy = isinstance(sch, (Ers, Etrs))
            t0 = time.time()
            if sch.msg_kind == "bytes":
                stride = (7 if getattr(sch, "size", 1) in (1, 3) else 19) if heavy else (5 if sch.name.startswith("sokor-") else 1)
                if isinstance(sch, Etrs):
                    stride = 23
                if q and stride == 1 and (ci + si) % 6:
                    stride = 4          # every length on one curve per scheme, every fourth on the other five
                for L in range(ci % stride, 301, stride):
                    if sch.mine():
                        sch.honest(nm, sch.rbytes(L), eq_rate=0.1)
            else:
                sch.honest(nm, b"")
            ctx.add("seconds_completeness:" + sch.name, round(time.time() - t0, 1))
            # mutation soundness: one owner shard per (curve, scheme); exhaustive bit flips on a third of them
            if not ctx.mine(di) and q:
                continue
            if q and isinstance(sch, Etrs) and (ci + si) % 2:
                continue
            if q and (sch.name.startswith("sokor-") or (heavy and getattr(sch, "size", 1) > 1)) and (ci + si) % 2:
                continue        # variants of one verifier: three of the six curves each, same classes
            if not sch.honest(nm, sch.rbytes(rng.choice([1, 5, 20])) if sch.msg_kind == "bytes" else b"", "mutation-base"):
                continue
            full = ()
            if (ci + si) % 3 == 0 or not q:
                scal = [c.name for c in sch.comps() if c.kind in ("bn", "bytes")]
                full = set(scal if not heavy else scal[:4])
            t0 = time.time()
            if isinstance(sch, Etrs):
                full = ()
            elif heavy and sch.size > 1 and q:
                # every member position (first, middle, last) is altered; exhaustive flips only on the trapdoor
                full = set(["td"]) if full else ()
            sch.mutate(nm, full_names=full, sample=0.02 if heavy else 0.05, light=q and heavy and getattr(sch, "size", 2) > 1)
            sch.correlated(nm, maxpairs=6 if q else 20)
            ctx.add("seconds_mutation:" + sch.name, round(time.time() - t0, 1))
            sch.finish()
    ctx.note("functions_exercised", sorted(k for k in R.fn_seen if k.startswith("cp_")))
    ctx.note("error_codes_seen", {str(k): v for k, v in R.err_codes.items()})



# =====================================================================================================
# RSA signatures: independent RFC 8017 verdicts computed from the library's public key
# =====================================================================================================
class Rsa(Base):
    def __init__(self, ctx, R):
        Base.__init__(self, ctx, R)
        K = R.K
        pd = K["CP_RSAPD"]
        self.pad = {K["CP_RSAPD_PKCS2"]: "pss", K["CP_RSAPD_PKCS1"]: "pkcs1", K["CP_RSAPD_BASIC"]: "basic"}[pd]
        self.cap = 300
        self.sig = R.mem(self.cap, 0xAA)
        self.sl = R.cell(0)

    # ------------------------------------------------------------------ model
    def mhash(self, msg, pre):
        return msg if pre else H(msg)

    def encode(self, mh, pre, key):
        """the encoded message the configured padding defines for digest mh"""
        k, nb = key["k"], key["nbits"]
        if self.pad == "pss":
            return cprt.pss_encode(mh, nb - 1)
        if self.pad == "pkcs1":
            return cprt.pkcs1_sig_encode(mh, k, digestinfo=not pre)
        return bytes(k - 1 - len(mh)) + b"\xff" + mh

    def em_valid(self, em_int, mh, pre, key):
        k, nb = key["k"], key["nbits"]
        if len(mh) != cprt.HL:
            return False
        if self.pad == "pss":
            emlen = (nb - 1 + 7) // 8
            if em_int >> (8 * emlen):
                return False
            return cprt.pss_verify(mh, em_int.to_bytes(emlen, "big"), nb - 1, 0)
        return em_int.to_bytes(k, "big") == self.encode(mh, pre, key)

    def model(self, sig, msg, pre, key):
        if len(sig) != key["k"]:
            return False
        s = int.from_bytes(sig, "big")
        if s >= key["n"]:
            return False
        return self.em_valid(pow(s, key["e"], key["n"]), self.mhash(msg, pre), pre, key)

    # ------------------------------------------------------------------ library
    def lib_ver(self, sig, msg, pre, key):
        R = self.R
        sp, mp = R.bytes_in(sig), R.bytes_in(msg)
        try:
            return self.verdict(R.call("cp_rsa_ver", sp, len(sig), mp, len(msg), 1 if pre else 0, key["pub"]))
        finally:
            R.free(sp)
            R.free(mp)

    def lib_sig(self, msg, pre, key):
        R = self.R
        mp = R.bytes_in(msg)
        ctypes.memset(self.sig, 0xAA, self.cap)
        R.wr_sz(self.sl, self.cap)
        try:
            res = R.call("cp_rsa_sig", self.sig, self.sl, mp, len(msg), 1 if pre else 0, key["prv"])
        finally:
            R.free(mp)
        if res.caught or res.i != R.OK:
            return None
        n = R.rd_sz(self.sl)
        if n > self.cap:
            return None
        return R.get(self.sig, n)

    def keygen(self, bits, case_key=None):
        ctx, R = self.ctx, self.R
        if not prep(ctx, case_key or "cp_rsa_gen|bits=%d" % bits, [bits], budget=300):
            return None
        try:
            pub, prv = R.rsa_new(), R.rsa_new()
            res = R.call("cp_rsa_gen", pub, prv, bits)
            if not ctx.check(not res.caught and res.i == R.OK, ctx.cur_key + "|unexpected-error"):
                return None
            kp, ks = R.rsa_get(pub), R.rsa_get(prv)
            n, e, d, p, q = ks["n"], kp["e"], ks["d"], ks["p"], ks["q"]
            from ..model.curves import is_probable_prime
            import math
            lam = (p - 1) * (q - 1) // math.gcd(p - 1, q - 1)
            good = (kp["n"] == n and p * q == n and p != q and is_probable_prime(p) and is_probable_prime(q)
                    and e > 1 and (e * d) % lam == 1 and 2 * (bits // 2) - 1 <= n.bit_length() <= bits)
            if R.K["CP_CRT"]:
                good = good and ks["dp"] == d % (p - 1) and ks["dq"] == d % (q - 1) and (ks["qi"] * q) % p == 1
            ctx.check(good, ctx.cur_key + "|key-inconsistent", {"n": hx(n), "e": hx(e), "p": hx(p), "q": hx(q)})
            if not good:
                return None
            return dict(pub=pub, prv=prv, n=n, e=e, d=d, nbits=n.bit_length(), k=(n.bit_length() + 7) // 8, bits=bits)
        except MonitorViolation as ex:
            ctx.fail(ctx.cur_key + "|" + ex.kind, ex.detail)
            return None
        finally:
            ctx.end()

    def kcls(self, key):
        m = key["nbits"] % 8
        return "nbits%8=" + ("0" if m == 0 else ("1" if m == 1 else "other"))

    def overlong(self, sig, key):
        """'basic' layout only: the recovered block is 00.. FF D with D longer than a digest.  cp_rsa_ver copies D
        into a digest-sized stack buffer (fatal on the unchanged tree), so this input class is produced by its
        directed case only and the other generators draw around it."""
        if self.pad != "basic" or not sig:
            return False
        em = pow(int.from_bytes(sig, "big") % key["n"], key["e"], key["n"]).to_bytes(key["k"], "big")
        i = 0
        while i < len(em) and em[i] == 0:
            i += 1
        return 0 < i < len(em) and em[i] == 0xFF and len(em) - i - 1 > cprt.HL

    def one(self, cls, mode, key, sig, msg, pre, extra=None):
        """one verdict comparison"""
        ctx = self.ctx
        if pre and len(msg) != cprt.HL:
            # a pre-hashed "message" that is not a digest of the configured hash: class of its own
            cls = "digest-empty" if not msg else ("digest-len<%d" % cprt.HL if len(msg) < cprt.HL else "digest-len>%d" % cprt.HL)
        if cls != "overlong-digest" and self.overlong(sig, key):
            ctx.add("drawn_around_overlong_digest")
            return
        if not ctx.begin("cp_rsa_ver|%s,%s,%s" % (cls, mode, self.kcls(key)),
                         [key["bits"], sig.hex(), msg.hex() if len(msg) <= 64 else [len(msg), H(msg).hex()], extra]):
            return
        try:
            lv = self.lib_ver(sig, msg, pre, key)
            mv = self.model(sig, msg, pre, key)
            self.judge(lv, mv, {"lib": lv, "model": mv, "n": hx(key["n"])})
        except MonitorViolation as e:
            ctx.fail(ctx.cur_key + "|" + e.kind, e.detail)
        finally:
            ctx.end()

    def directed_overlong(self, key):
        """first case of shard 0 in the 'basic' build"""
        n, d, k = key["n"], key["d"], key["k"]
        msg = b"abc"
        mh = H(msg)
        for em in (bytes(k - 2 - len(mh) - 60) + b"\xff" + mh + self.rbytes(60), b"\x00\xff" + self.rbytes(k - 2 - len(mh)) + mh):
            self.one("overlong-digest", "hashed", key, pow(int.from_bytes(em, "big"), d, n).to_bytes(k, "big"), msg, 0)

    # ------------------------------------------------------------------ every modulus length near the minimum / multiples of 8
    def min_nbits(self):
        """smallest modulus the configured padding can sign a SHA-256 digest with"""
        if self.pad == "pss":
            return 8 * (cprt.HL + 0 + 2 - 1) + 2          # emLen = ceil((nbits - 1) / 8) >= hLen + sLen + 2, sLen = 0
        if self.pad == "pkcs1":
            return 8 * (11 + len(cprt.SHA256_DI) + cprt.HL - 1) + 1
        return 8 * (cprt.HL + 2 - 1) + 1

    def sweep_class(self, sg, key):
        """class of an honest signature computed from the inputs: besides the modulus length, whether the masked data
        block of the PSS encoding has fewer 64-bit digits than its length implies (its leading octets are zero)"""
        nb = key["nbits"]
        if nb % 8 == 1:
            return "nbits%8=1"
        if self.pad != "pss":
            return "regular"
        emlen = (nb + 6) // 8
        L = emlen - cprt.HL - 1
        mdb = pow(int.from_bytes(sg, "big"), key["e"], key["n"]) >> (8 * (cprt.HL + 1))
        W = self.R.DIG
        used = max(1, (mdb.bit_length() + W - 1) // W)
        return "maskedDB-short" if 1 < used <= (8 * L - 1) // W else "regular"

    def directed_small(self):
        """PSS moduli with emLen < hLen + 8: cp_rsa_sig builds M' = 00^8 || mHash in a scratch buffer of emLen octets
        (fatal on some trees).  Returns True when the class may be produced at full rate."""
        ctx, R = self.ctx, self.R
        if self.pad != "pss":
            return True
        lo = self.min_nbits()
        key = None
        for bits in (lo, lo + 1, lo + 2, lo + 3):
            key = self.keygen(bits, "cp_rsa_gen|sweep")
            if key is not None and lo <= key["nbits"] < 8 * (cprt.HL + 8 - 1) + 2:
                break
        else:
            return False
        if not ctx.begin("cp_rsa_sig|emLen<%d" % (cprt.HL + 8), [key["bits"], key["nbits"]]):
            return False        # crashed earlier in this run (or another key is being replayed): draw around it
        try:
            msg = b"abc"
            sg = self.lib_sig(msg, 0, key)
            if ctx.check(sg is not None, ctx.cur_key + "|unexpected-error"):
                ctx.check(self.model(sg, msg, 0, key), ctx.cur_key + "|model-rejects", {"sig": sg.hex(), "n": hx(key["n"])})
        except MonitorViolation as ex:
            ctx.fail(ctx.cur_key + "|" + ex.kind, ex.detail)
        finally:
            ctx.end()
        return True

    def sweep(self, small_ok):
        ctx, R, rng = self.ctx, self.R, self.rng
        q = ctx.quick
        lo = self.min_nbits()
        safe = 8 * (cprt.HL + 8 - 1) + 2 if self.pad == "pss" else lo
        top = R.K["RLC_BN_BITS"]           # larger moduli exceed the configured precision (ERR_NO_PRECI inside bn_div): not judged
        sizes = set(range(safe, safe + 25))
        if small_ok and ctx.shard == 0:
            sizes |= set(range(lo, min(safe, lo + 25)))
        for base in (768, 1016, 1024) + (() if q else (392, 400, 456, 464, 648, 656, 896, 904, 960)):
            sizes |= set(range(base - 2, base + 3))
        for base in (520, 584) + (() if q else (648, 712)):
            sizes |= set(range(base - 2, base + 11))         # emLen = 2 mod 8: a single octet of the data block in the top digit
        sizes = sorted(x for x in sizes if lo <= x <= top)
        per = 2 if q else 4
        have = {}
        ctx.note("sweep_modulus_lengths", [sizes[0], sizes[-1], len(sizes)])
        for idx, nbw in enumerate(sizes):
            if not (nbw < safe or ctx.mine(idx)):
                continue
            tries = 0
            while have.get(nbw, 0) < per and tries < 12:
                tries += 1
                key = self.keygen(nbw + (tries % 2), "cp_rsa_gen|sweep")
                if key is None or key["nbits"] != nbw:
                    continue
                have[nbw] = have.get(nbw, 0) + 1
                emlen = (nbw + 6) // 8
                special = self.pad == "pss" and (emlen - cprt.HL - 1) % 8 == 1      # one octet in the top digit
                for it in range((100 if q else 300) if special else (20 if q else 60)):
                    pre = it % 2
                    msg = self.rbytes(32) if pre else self.rbytes(rng.choice([0, 1, 20, 55, 64]))
                    if not prep(ctx, "cp_rsa_sig|honest,nbits=%d" % nbw, [nbw, len(msg), pre]):
                        continue
                    try:
                        sg = self.lib_sig(msg, pre, key)
                        if not ctx.check(sg is not None, ctx.cur_key + "|unexpected-error", {"n": hx(key["n"])}):
                            continue
                        ctx.check(len(sg) == key["k"], ctx.cur_key + "|length", {"len": len(sg)})
                        cls = self.sweep_class(sg, key)
                        ctx.check(self.model(sg, msg, pre, key), "cp_rsa_sig|honest,nbits=%d,%s|model-rejects" % (nbw, cls),
                                  {"sig": sg.hex(), "msg": msg.hex(), "n": hx(key["n"])})
                        lv = self.lib_ver(sg, msg, pre, key)
                        ctx.check(lv == "acc", "cp_rsa_ver|honest,nbits=%d,%s|rejected" % (nbw, cls),
                                  {"lib": lv, "n": hx(key["n"]), "e": hx(key["e"]), "msg": msg.hex(), "prehashed": pre, "sig": sg.hex()})
                    except MonitorViolation as ex:
                        ctx.fail(ctx.cur_key + "|" + ex.kind, ex.detail)
                    finally:
                        ctx.end()
        ctx.note("sweep_keys_per_length", have)

    def run_key(self, key, heavy):
        ctx, R, rng = self.ctx, self.R, self.rng
        n, e, d, k, nb = key["n"], key["e"], key["d"], key["k"], key["nbits"]
        kc = self.kcls(key)
        # ---------------- completeness on every message length
        lens = [(L, 0) for L in range(0, 301)] + [(32, 1)] * 6
        last = None
        for L, pre in lens:
            if not self.mine():
                continue
            kind = rng.choice(["rand", "zero", "ff"])
            msg = {"rand": self.rbytes(L), "zero": bytes(L), "ff": b"\xff" * L}[kind]
            mode = "prehashed" if pre else "hashed"
            if not prep(ctx, "cp_rsa_sig|honest,%s,%s" % (mode, kc), [key["bits"], L, kind]):
                continue
            try:
                sg = self.lib_sig(msg, pre, key)
                if ctx.check(sg is not None, ctx.cur_key + "|unexpected-error"):
                    ctx.check(len(sg) == k, ctx.cur_key + "|length", {"len": len(sg), "k": k})
                    ctx.check(self.model(sg, msg, pre, key), ctx.cur_key + "|model-rejects", {"sig": sg.hex(), "msg": msg.hex()})
                    lv = self.lib_ver(sg, msg, pre, key)
                    ctx.check(lv == "acc", "cp_rsa_ver|honest,%s,%s|rejected" % (mode, kc), {"lib": lv, "sig": sg.hex()})
                    last = (sg, msg, pre)
            except MonitorViolation as ex:
                ctx.fail(ctx.cur_key + "|" + ex.kind, ex.detail)
            finally:
                ctx.end()

        # ---------------- hostile encodings of honest signatures
        for it in range(ctx.n(2, 20)):
            pre = rng.random() < 0.4
            msg = self.rbytes(32) if pre else self.rbytes(rng.choice([0, 1, 20, 64, 200]))
            mode = "prehashed" if pre else "hashed"
            if not prep(ctx, "cp_rsa_sig|honest,%s,%s" % (mode, kc), [key["bits"], len(msg), "hostile-base"]):
                continue
            try:
                sg = self.lib_sig(msg, pre, key)
            finally:
                ctx.end()
            if sg is None:
                ctx.fail("cp_rsa_sig|honest,%s,%s|unexpected-error" % (mode, kc))
                continue
            sv = int.from_bytes(sg, "big")
            tob = lambda v, ln=k: v.to_bytes(ln, "big")
            flipm = (bytes([msg[0] ^ (1 << rng.randrange(8))]) + msg[1:]) if msg else b"\x01"
            cs = [("honest", sg, msg), ("msg-bitflip", sg, flipm), ("msg-truncated", sg, msg[:-1]), ("msg-extended", sg, msg + b"\0"),
                  ("sig+N,longer", tob(sv + n, k + 1), msg), ("sig+2N,longer", tob(sv + 2 * n, k + 1), msg),
                  ("zero-prefixed", b"\0" + sg, msg), ("zero-prefixed", b"\0\0\0" + sg, msg),
                  ("truncated", sg[:-1], msg), ("empty", b"", msg),
                  ("extended", sg + b"\0", msg),
                  ("sig=0", bytes(k), msg), ("sig=1", tob(1), msg), ("sig=N-1", tob(n - 1), msg), ("sig=N", tob(n), msg),
                  ("sig=N-s", tob(n - sv), msg), ("sig-random", tob(rng.randrange(n)), msg),
                  ("sig-bitflip", tob(sv ^ (1 << rng.randrange(8 * k))), msg)]
            if (sv + n).bit_length() <= 8 * k:
                cs.append(("sig+N,same-length", tob(sv + n), msg))
            cs.append(("leading-zero-stripped" if sg[0] == 0 else "truncated", sg[1:], msg))
            if pre:
                cs += [("digest", sg, b""), ("digest", sg, msg[:31]), ("digest", sg, msg[:1]),
                       ("digest", sg, msg + b"\0"), ("digest", sg, msg + msg)]
            for cls, sb, mb in cs:
                self.one(cls, mode, key, sb, mb, pre)

        # ---------------- crafted encoded messages, signed here with the library's private exponent
        def craft(cls, em, msg, pre, extra=None):
            v = int.from_bytes(em, "big")
            if v >= n:
                return
            self.one("crafted:" + cls, "prehashed" if pre else "hashed", key, pow(v, d, n).to_bytes(k, "big"), msg, pre, extra)

        for it in range(ctx.n(2, 12)):
            pre = rng.random() < 0.3
            msg = self.rbytes(32) if pre else self.rbytes(rng.choice([0, 3, 33, 100]))
            mh = self.mhash(msg, pre)
            em = self.encode(mh, pre, key)
            craft("valid", em, msg, pre)
            if self.pad == "pss":
                embits = nb - 1
                emlen = (embits + 7) // 8
                for t in (0xBB, 0xBD, 0x00, 0x3C, 0xCC, 0xFF):
                    craft("trailer", cprt.pss_encode(mh, embits, trailer=t), msg, pre, t)
                for sl in (1, 8, 32):
                    if emlen - sl - cprt.HL - 2 < 0:
                        continue
                    craft("salted", cprt.pss_encode(mh, embits, salt=self.rbytes(sl)), msg, pre, sl)
                for sp in (0, 2, 0x81, 0xFF):
                    craft("separator", cprt.pss_encode(mh, embits, sep=sp), msg, pre, sp)
                craft("other-digest", cprt.pss_encode(H(mh), embits), msg, pre)
                zb = 8 * emlen - embits
                if zb:
                    for b in range(zb):
                        v = int.from_bytes(em, "big") | (1 << (8 * emlen - 1 - b))
                        craft("top-bits-set", v.to_bytes(emlen, "big"), msg, pre, b)
                if emlen < k:
                    craft("leading-octet-set", b"\x01" + em, msg, pre)
                # non-zero padding octet inside DB: rebuild DB with one PS byte set
                hh = em[emlen - cprt.HL - 1:-1]
                mask = cprt.mgf1(hh, emlen - cprt.HL - 1)
                for pos in rng.sample(range(emlen - cprt.HL - 2), 3) + [0, emlen - cprt.HL - 3]:
                    db = bytearray(cprt.xor(em[:emlen - cprt.HL - 1], mask))
                    db[pos] ^= 1 << rng.randrange(8)
                    if pos == 0 and zb:
                        db[0] &= 0xFF >> zb
                        if not db[0]:
                            db[0] = 1
                    mdb = bytearray(cprt.xor(bytes(db), mask))
                    if zb:
                        mdb[0] &= 0xFF >> zb
                    craft("ps-nonzero", bytes(mdb) + hh + b"\xbc", msg, pre, pos)
            else:
                t = em[em.index(b"\x00", 1) + 1:] if self.pad == "pkcs1" else em[em.index(b"\xff") + 1:]
                if self.pad == "pkcs1":
                    craft("block-type", b"\x00\x02" + em[2:], msg, pre)
                    craft("block-type", b"\x00\x00" + em[2:], msg, pre)
                    craft("first-octet", b"\x01" + em[1:], msg, pre)
                    for pos in (2, 3, k - len(t) - 2):
                        e2 = bytearray(em)
                        e2[pos] = 0xFE
                        craft("ps-not-ff", bytes(e2), msg, pre, pos)
                        e2[pos] = 0x00
                        craft("ps-zero", bytes(e2), msg, pre, pos)
                    craft("short-ps", b"\x00\x01" + b"\xff" * 4 + b"\x00" + t + self.rbytes(k - 7 - len(t)), msg, pre)
                    craft("no-digestinfo" if not pre else "with-digestinfo",
                          cprt.pkcs1_sig_encode(mh, k, digestinfo=bool(pre)), msg, pre)
                    if not pre:
                        di = bytearray(cprt.SHA256_DI)
                        di[14] = 0x02       # SHA-384 object identifier with a SHA-256 sized digest
                        craft("digestinfo-altered", b"\x00\x01" + b"\xff" * (k - 3 - len(t)) + b"\x00" + bytes(di) + mh, msg, pre)
                    craft("trailing-garbage", b"\x00\x01" + b"\xff" * 8 + b"\x00" + t + self.rbytes(k - 11 - len(t)), msg, pre)
                else:
                    craft("marker", bytes(k - 1 - len(mh)) + b"\xfe" + mh, msg, pre)
                    # a payload one octet short is zero-extended by the verifier: equal to the digest iff its last octet is 0
                    craft("digest-short" + (",last-octet-zero" if mh[-1] == 0 else ""), bytes(k - len(mh)) + b"\xff" + mh[:-1], msg, pre)
                    mz = self.rbytes(8)
                    for _ in range(600):
                        if H(mz)[-1] == 0:
                            break
                        mz = self.rbytes(8)
                    if H(mz)[-1] == 0 and not pre:
                        craft("digest-short,last-octet-zero", bytes(k - cprt.HL) + b"\xff" + H(mz)[:-1], mz, 0)
                    craft("double-marker", bytes(k - 2 - len(mh)) + b"\xff\xff" + mh, msg, pre)
                craft("other-digest", self.encode(H(mh), pre, key), msg, pre)
            if heavy and it == 0:
                emi = int.from_bytes(em, "big")
                for b in range(8 * len(em)):
                    if (b % ctx.nshards) != ctx.shard and ctx.quick:
                        continue
                    # a flipped bit at or above emBits is the "leftmost bits must be zero" class of its own
                    top = self.pad == "pss" and b >= nb - 1
                    craft("top-bits-set" if top else "em-allflips", (emi ^ (1 << b)).to_bytes(len(em), "big"), msg, pre, b)

        # ---------------- every octet of the encoded message altered (flip / +1 / 00 / FF), signed here with d
        if heavy:
            for pre in (0, 1):
                msg = self.rbytes(32) if pre else self.rbytes(11)
                em = self.encode(self.mhash(msg, pre), pre, key)
                for pos in range(len(em)):
                    if ctx.quick and ctx.nshards > 1 and (pos % ctx.nshards) != ctx.shard:
                        continue
                    o = em[pos]
                    for v in sorted(set([o ^ (1 << rng.randrange(8)), (o + 1) & 0xFF, 0x00, 0xFF]) - set([o])):
                        em2 = em[:pos] + bytes([v]) + em[pos + 1:]
                        # (PSS) an alteration that sets a bit at or above emBits is the "leftmost bits" class of its own
                        top = self.pad == "pss" and (int.from_bytes(em2, "big") >> (nb - 1)) != 0
                        craft("top-bits-set" if top else "em-allbytes", em2, msg, pre, [pos, v])

        # ---------------- every single-bit flip of one honest signature
        if heavy and last is not None:
            sg, msg, pre = last
            sv = int.from_bytes(sg, "big")
            for b in range(8 * k):
                self.one("sig-allflips", "prehashed" if pre else "hashed", key, (sv ^ (1 << b)).to_bytes(k, "big"), msg, pre, b)


def run_rsa(ctx):
    R = PX(ctx.cfg)
    w = Rsa(ctx, R)
    ctx.note("padding", w.pad)
    if not R.sha256_is_md:
        ctx.note("skipped", "MD_MAP is not SHA-256 in this build")
        return
    sizes = [1024, 1018, 768, 1010, 1017, 520] if ctx.quick else [1024, 1018, 1017, 1016, 1010, 1009, 1002, 768, 521, 520, 512]
    seen = {}
    small_ok = w.directed_small() if ctx.shard == 0 else False      # fatal on some trees: first, in one shard
    w.sweep(small_ok)
    # every worker generates its own keys (the library's generator is deterministic per process: same keys in
    # every shard); a modulus whose bit length is 1 mod 8 (emLen = k - 1) is searched for explicitly
    for i, bits in enumerate(sizes):
        key = w.keygen(bits)
        if key is None:
            continue
        c = w.kcls(key)
        seen[c] = seen.get(c, 0) + 1
        if i == 0 and ctx.shard == 0 and w.pad == "basic":
            w.directed_overlong(key)
        w.run_key(key, heavy=(i < 2))
    for bits in (1002, 994, 986, 978, 970, 962, 954, 946, 938, 930, 922, 914):
        if "nbits%8=1" in seen:
            break
        key = w.keygen(bits)
        if key is not None and w.kcls(key) == "nbits%8=1":
            seen["nbits%8=1"] = 1
            w.run_key(key, heavy=True)
    ctx.note("modulus_classes", seen)
    ctx.note("functions_exercised", sorted(k for k in R.fn_seen if k.startswith("cp_")))
    ctx.note("error_codes_seen", {str(k): v for k, v in R.err_codes.items()})



# =====================================================================================================
# Pairing-based schemes: equations evaluated with lower-layer library primitives
# =====================================================================================================
class PairScheme(Scheme):
    hashed_flag = False       # the scheme has a hash / pre-hashed flag
    maxlen = 300

    def base_setup(self):
        R = self.R
        self.t1, self.t1b = R.new("g1"), R.new("g1")
        self.t2, self.t2b = R.new("g2"), R.new("g2")
        self.e1, self.e2 = R.new("gt"), R.new("gt")
        self.tb = R.new("bn")
        self.g2gen = R.new("g2")
        R.call("g2_get_gen", self.g2gen)
        self.g1gen = R.new("g1")
        R.call("g1_get_gen", self.g1gen)
        self.msg = Comp("msg", "bytes", "msg", val=b"")
        self.pre = 0

    # ----------------------------------------------------------- lower-layer helpers
    def on1(self, P):
        return self.R.call("ep_on_curve", P).i == 1

    def inf1(self, P):
        return self.R.call("ep_is_infty", P).i == 1

    def valid2(self, Q):
        return self.R.call("g2_is_valid", Q).i == 1

    def pair_eq(self, P1, Q1, P2, Q2):
        """e(P1, Q1) == e(P2, Q2) for normalised inputs"""
        R = self.R
        R.call("pc_map", self.e1, P1, Q1)
        R.call("pc_map", self.e2, P2, Q2)
        return R.call("gt_cmp", self.e1, self.e2).i == R.EQ

    def m_int(self, b, hashed):
        """message bytes -> scalar as the schemes define it"""
        return int.from_bytes(H(b) if hashed else b, "big") % self.R.n

    def g1_lin(self, out, terms):
        """out = sum k_i P_i (lower-layer g1 arithmetic), normalised"""
        R = self.R
        R.call("ep_set_infty", out)
        for k, P in terms:
            R.bn_put(self.tb, k)
            R.call("g1_mul", self.t1b, P, self.tb)
            R.call("g1_add", out, out, self.t1b)
        R.call("g1_norm", out, out)
        return out

    def g2_lin(self, out, terms):
        R = self.R
        R.call("ep2_set_infty", out)
        for k, P in terms:
            R.bn_put(self.tb, k)
            R.call("g2_mul", self.t2b, P, self.tb)
            R.call("g2_add", out, out, self.t2b)
        R.call("g2_norm", out, out)
        return out

    def g2_nonmember(self, Q):
        """a point of the twist outside the order-n subgroup, from fp2 arithmetic of the lower layer"""
        R, rng = self.R, self.rng
        p = R.curve["p"]
        x = R.fpx_new(2)
        y = R.fpx_new(2)
        try:
            for _ in range(50):
                xv = (rng.randrange(p), rng.randrange(p))
                R.fpx_put(x, xv)
                R.call("ep2_rhs", y, x)
                if R.call("fp2_srt", y, y).i == 1:
                    yv = R.fpx_get(y, 2)[0]
                    R.ep2_put(Q, xv, tuple(yv))
                    return
        finally:
            R.free(x)
            R.free(y)

    def g2_plus_nonmember(self, Q):
        """Q + T with T = [n]P' of cofactor order"""
        R = self.R
        T = R.new("g2")
        try:
            self.g2_nonmember(T)
            R.bn_put(self.tb, R.n)
            R.call("ep2_mul_basic", T, T, self.tb)
            R.call("ep2_add_basic", Q, Q, T)
            R.call("ep2_norm", Q, Q)
        finally:
            R.free(T)

    def with_msg(self, fn, *args_before_after):
        raise NotImplementedError

    def call_m(self, fn, pre, post, msg):
        """call fn(*pre, msg, len, *post)"""
        R = self.R
        m = R.bytes_in(msg)
        try:
            return R.call(fn, *(list(pre) + [m, len(msg)] + list(post)))
        finally:
            R.free(m)

    def okres(self, res):
        return not res.caught and res.i == self.R.OK


class Bls(PairScheme):
    name, sigfn, verfn = "bls", "cp_bls_sig", "cp_bls_ver"

    def setup(self):
        R = self.R
        self.base_setup()
        self.d, self.q, self.s = R.new("bn"), R.new("g2"), R.new("g1")
        return self.okres(R.call("cp_bls_gen", self.d, self.q))

    def sign(self, msg):
        self.msg.val = msg
        return self.okres(self.call_m("cp_bls_sig", [self.s], [self.d], msg))

    def comps(self):
        return [Comp("s", "g1", "sig", self.s), self.msg, Comp("q", "g2", "pk", self.q)]

    def ver(self):
        return self.call_m("cp_bls_ver", [self.s], [self.q], self.msg.val)

    def eqn(self):
        R = self.R
        if not self.on1(self.s) or not self.valid2(self.q):
            return False
        m = R.bytes_in(self.msg.val)
        try:
            R.call("g1_map", self.t1, m, len(self.msg.val))
        finally:
            R.free(m)
        R.call("g1_norm", self.t1, self.t1)
        return self.pair_eq(self.t1, self.q, self.s, self.g2gen)


class Bbs(PairScheme):
    name, sigfn, verfn = "bbs", "cp_bbs_sig", "cp_bbs_ver"
    hashed_flag = True

    def setup(self):
        R = self.R
        self.base_setup()
        self.d, self.q, self.z, self.s = R.new("bn"), R.new("g2"), R.new("gt"), R.new("g1")
        return self.okres(R.call("cp_bbs_gen", self.d, self.q, self.z))

    def sign(self, msg):
        self.msg.val = msg
        return self.okres(self.call_m("cp_bbs_sig", [self.s], [self.pre, self.d], msg))

    def comps(self):
        return [Comp("s", "g1", "sig", self.s), self.msg, Comp("q", "g2", "pk", self.q), Comp("z", "gt", "pk", self.z)]

    def ver(self):
        return self.call_m("cp_bbs_ver", [self.s], [self.pre, self.q, self.z], self.msg.val)

    def eqn(self):
        R = self.R
        if not self.on1(self.s) or self.inf1(self.s) or R.call("ep2_on_curve", self.q).i != 1:
            return False
        m = self.m_int(self.msg.val, not self.pre)
        self.g2_lin(self.t2, [(m, self.g2gen), (1, self.q)])
        R.call("pc_map", self.e1, self.s, self.t2)
        return R.call("gt_cmp", self.e1, self.z).i == R.EQ


class Zss(PairScheme):
    name, sigfn, verfn = "zss", "cp_zss_sig", "cp_zss_ver"
    hashed_flag = True

    def setup(self):
        R = self.R
        self.base_setup()
        self.d, self.q, self.z, self.s = R.new("bn"), R.new("g1"), R.new("gt"), R.new("g2")
        return self.okres(R.call("cp_zss_gen", self.d, self.q, self.z))

    def sign(self, msg):
        self.msg.val = msg
        return self.okres(self.call_m("cp_zss_sig", [self.s], [self.pre, self.d], msg))

    def comps(self):
        return [Comp("s", "g2", "sig", self.s), self.msg, Comp("q", "g1", "pk", self.q), Comp("z", "gt", "pk", self.z)]

    def ver(self):
        return self.call_m("cp_zss_ver", [self.s], [self.pre, self.q, self.z], self.msg.val)

    def eqn(self):
        R = self.R
        if not self.on1(self.q) or not self.valid2(self.s):
            return False
        m = self.m_int(self.msg.val, not self.pre)
        self.g1_lin(self.t1, [(m, self.g1gen), (1, self.q)])
        R.call("pc_map", self.e1, self.t1, self.s)
        return R.call("gt_cmp", self.e1, self.z).i == R.EQ


class Cls(PairScheme):
    name, sigfn, verfn = "cls", "cp_cls_sig", "cp_cls_ver"
    maxlen = 128

    def setup(self):
        R = self.R
        self.base_setup()
        self.u, self.v, self.x, self.y = R.new("bn"), R.new("bn"), R.new("g2"), R.new("g2")
        self.a, self.b, self.c = R.new("g1"), R.new("g1"), R.new("g1")
        return self.okres(R.call("cp_cls_gen", self.u, self.v, self.x, self.y))

    def sign(self, msg):
        self.msg.val = msg
        return self.okres(self.call_m("cp_cls_sig", [self.a, self.b, self.c], [self.u, self.v], msg))

    def comps(self):
        return [Comp("a", "g1", "sig", self.a), Comp("b", "g1", "sig", self.b), Comp("c", "g1", "sig", self.c), self.msg,
                Comp("x", "g2", "pk", self.x), Comp("y", "g2", "pk", self.y)]

    def ver(self):
        return self.call_m("cp_cls_ver", [self.a, self.b, self.c], [self.x, self.y], self.msg.val)

    def special(self, cname):
        """b' = b + [k]T, c' = c - [k]T + [mk]c with T = a + [m]b: cancels in e(a,Y) e(a+[m]b,X) e(b+c,-g) when the two
        equations of the scheme are merged without random weights; it satisfies neither equation on its own"""
        ctx, R, rng = self.ctx, self.R, self.rng
        E, F, n = R.EC, R.FCv, R.n
        if not ctx.begin("cp_cls_ver|pair-g1:batching-forgery", [cname, self.name]):
            return
        sb, sc = R.snap(self.b, R.ep_sz), R.snap(self.c, R.ep_sz)
        try:
            m = self.m_int(self.msg.val, False)
            a, b, c = R.pt(self.a), R.pt(self.b), R.pt(self.c)
            k = rng.randrange(2, n)
            kT = F.lin(k, a, k * m % n, b)
            R.pt_put(self.b, E.add(b, kT))
            R.pt_put(self.c, E.add(E.add(c, E.neg(kT)), F.mul(m * k % n, c)))
            ctx.cur_desc = [cname, self.describe()]
            lv = self.verdict(self.ver())
            self.judge(lv, self.eqn(), {"lib": lv})
        except MonitorViolation as e:
            ctx.fail(ctx.cur_key + "|" + e.kind, e.detail)
        finally:
            R.restore(self.b, sb)
            R.restore(self.c, sc)
            ctx.end()

    def eqn(self):
        for P in (self.a, self.b, self.c):
            if not self.on1(P) or self.inf1(P):
                return False
        if not (self.valid2(self.x) and self.valid2(self.y)):
            return False
        if not self.pair_eq(self.a, self.y, self.b, self.g2gen):
            return False
        m = self.m_int(self.msg.val, False)
        self.g1_lin(self.t1, [(m, self.b), (1, self.a)])
        return self.pair_eq(self.t1, self.x, self.c, self.g2gen)


class Cli(PairScheme):
    name, sigfn, verfn = "cli", "cp_cli_sig", "cp_cli_ver"
    maxlen = 128

    def setup(self):
        R = self.R
        self.base_setup()
        self.t, self.u, self.v = R.new("bn"), R.new("bn"), R.new("bn")
        self.x, self.y, self.z = R.new("g2"), R.new("g2"), R.new("g2")
        self.pts = [R.new("g1") for _ in range(5)]      # a A b B c
        self.r = R.new("bn")
        return self.okres(R.call("cp_cli_gen", self.t, self.u, self.v, self.x, self.y, self.z))

    def sign(self, msg):
        R = self.R
        self.msg.val = msg
        R.bn_put(self.r, self.rng.randrange(R.n))
        return self.okres(self.call_m("cp_cli_sig", self.pts, [self.r, self.t, self.u, self.v], msg))

    def comps(self):
        a, A, b, B, c = self.pts
        return [Comp("a", "g1", "sig", a), Comp("A", "g1", "sig", A), Comp("b", "g1", "sig", b), Comp("B", "g1", "sig", B),
                Comp("c", "g1", "sig", c), self.msg, Comp("r", "bn", "sig", self.r),
                Comp("x", "g2", "pk", self.x), Comp("y", "g2", "pk", self.y), Comp("z", "g2", "pk", self.z)]

    def ver(self):
        return self.call_m("cp_cli_ver", self.pts, [self.r, self.x, self.y, self.z], self.msg.val)

    def eqn(self):
        R = self.R
        a, A, b, B, c = self.pts
        for P in self.pts:
            if not self.on1(P) or self.inf1(P):
                return False
        if not (self.valid2(self.x) and self.valid2(self.y) and self.valid2(self.z)):
            return False
        g = self.g2gen
        if not (self.pair_eq(a, self.z, A, g) and self.pair_eq(a, self.y, b, g) and self.pair_eq(A, self.y, B, g)):
            return False
        m = self.m_int(self.msg.val, False)
        r = R.bn_get(self.r)[0]
        self.g1_lin(self.t1, [(m, b), (r, B), (1, a)])
        return self.pair_eq(self.t1, self.x, c, g)


class Clb(PairScheme):
    name, sigfn, verfn = "clb", "cp_clb_sig", "cp_clb_ver"
    maxlen = 128
    msg_kind = "bytes"

    def __init__(self, ctx, R, l=3):
        PairScheme.__init__(self, ctx, R)
        self.l = l

    def setup(self):
        R, l = self.R, self.l
        self.base_setup()
        self.t, self.u, self.v = R.new("bn"), R.new("bn"), R.arr("bn", l - 1)
        self.x, self.y, self.z = R.new("g2"), R.new("g2"), R.arr("g2", l - 1)
        self.a, self.b, self.c = R.new("g1"), R.new("g1"), R.new("g1")
        self.A, self.B = R.arr("g1", l - 1), R.arr("g1", l - 1)
        self.msgs = [Comp("msg%d" % i, "bytes", "msg", val=b"") for i in range(l)]
        self.msg = self.msgs[0]
        return self.okres(R.call("cp_clb_gen", self.t, self.u, self.v, self.x, self.y, self.z, l))

    def marshal(self):
        R = self.R
        blocks = [R.bytes_in(c.val) for c in self.msgs]
        ms = R.ptr_array(blocks)
        ls = R.ptr_array([len(c.val) for c in self.msgs])
        return blocks, ms, ls

    def release(self, blocks, ms, ls):
        for b in blocks + [ms, ls]:
            self.R.free(b)

    def sign(self, msg):
        R = self.R
        self.msgs[0].val = msg
        for c in self.msgs[1:]:
            c.val = self.rbytes(self.rng.choice([0, 1, 16, 32]))
        blocks, ms, ls = self.marshal()
        try:
            return self.okres(R.call("cp_clb_sig", self.a, self.A, self.b, self.B, self.c, ms, ls, self.t, self.u, self.v, self.l))
        finally:
            self.release(blocks, ms, ls)

    def comps(self):
        R, l = self.R, self.l
        cs = [Comp("a", "g1", "sig", self.a), Comp("b", "g1", "sig", self.b), Comp("c", "g1", "sig", self.c)]
        for i in range(l - 1):
            cs.append(Comp("A[%d]" % i, "g1", "sig", self.A + i * R.ep_sz))
            cs.append(Comp("B[%d]" % i, "g1", "sig", self.B + i * R.ep_sz))
        cs += self.msgs
        cs += [Comp("x", "g2", "pk", self.x), Comp("y", "g2", "pk", self.y)]
        for i in range(l - 1):
            cs.append(Comp("z[%d]" % i, "g2", "pk", self.z + i * R.g2_sz))
        return cs

    def ver(self):
        R = self.R
        blocks, ms, ls = self.marshal()
        try:
            return R.call("cp_clb_ver", self.a, self.A, self.b, self.B, self.c, ms, ls, self.x, self.y, self.z, self.l)
        finally:
            self.release(blocks, ms, ls)

    def eqn(self):
        R, l = self.R, self.l
        g = self.g2gen
        As = [self.A + i * R.ep_sz for i in range(l - 1)]
        Bs = [self.B + i * R.ep_sz for i in range(l - 1)]
        zs = [self.z + i * R.g2_sz for i in range(l - 1)]
        for P in [self.a, self.b, self.c] + As + Bs:
            if not self.on1(P) or self.inf1(P):
                return False
        for Q in [self.x, self.y] + zs:
            if not self.valid2(Q):
                return False
        for i in range(l - 1):
            if not self.pair_eq(self.a, zs[i], As[i], g):
                return False
            if not self.pair_eq(As[i], self.y, Bs[i], g):
                return False
        if not self.pair_eq(self.a, self.y, self.b, g):
            return False
        terms = [(self.m_int(self.msgs[0].val, False), self.b), (1, self.a)]
        for i in range(1, l):
            terms.append((self.m_int(self.msgs[i].val, False), Bs[i - 1]))
        self.g1_lin(self.t1, terms)
        return self.pair_eq(self.t1, self.x, self.c, g)


class Pss(PairScheme):
    name, sigfn, verfn = "pss", "cp_pss_sig", "cp_pss_ver"
    msg_kind = "bn"

    def setup(self):
        R = self.R
        self.base_setup()
        self.u, self.v = R.new("bn"), R.new("bn")
        self.g, self.x, self.y = R.new("g2"), R.new("g2"), R.new("g2")
        self.a, self.b, self.m = R.new("g1"), R.new("g1"), R.new("bn")
        return self.okres(R.call("cp_pss_gen", self.u, self.v, self.g, self.x, self.y))

    def sign(self, msg):
        R = self.R
        R.bn_put(self.m, msg)
        return self.okres(R.call("cp_pss_sig", self.a, self.b, self.m, self.u, self.v))

    def comps(self):
        return [Comp("a", "g1", "sig", self.a), Comp("b", "g1", "sig", self.b), Comp("m", "bn", "msg", self.m),
                Comp("g", "g2", "pk", self.g), Comp("x", "g2", "pk", self.x), Comp("y", "g2", "pk", self.y)]

    def ver(self):
        return self.R.call("cp_pss_ver", self.a, self.b, self.m, self.g, self.x, self.y)

    def eqn(self):
        R = self.R
        for P in (self.a, self.b):
            if not self.on1(P):
                return False
        if self.inf1(self.a):
            return False
        for Q in (self.g, self.x, self.y):
            if not self.valid2(Q):
                return False
        m = R.bn_get(self.m)[0]
        self.g2_lin(self.t2, [(m % R.n, self.y), (1, self.x)])
        return self.pair_eq(self.a, self.t2, self.b, self.g)


class Psb(PairScheme):
    name, sigfn, verfn = "psb", "cp_psb_sig", "cp_psb_ver"
    msg_kind = "bn"

    def __init__(self, ctx, R, l=3):
        PairScheme.__init__(self, ctx, R)
        self.l = l

    def setup(self):
        R, l = self.R, self.l
        self.base_setup()
        self.r, self.s = R.new("bn"), R.arr("bn", l)
        self.g, self.x, self.y = R.new("g2"), R.new("g2"), R.arr("g2", l)
        self.a, self.b, self.ms = R.new("g1"), R.new("g1"), R.arr("bn", l)
        return self.okres(R.call("cp_psb_gen", self.r, self.s, self.g, self.x, self.y, l))

    def sign(self, msg):
        R = self.R
        R.bn_put(self.ms, msg)
        for i in range(1, self.l):
            R.bn_put(self.ms + i * R.bn_sz, self.rng.randrange(R.n))
        return self.okres(R.call("cp_psb_sig", self.a, self.b, self.ms, self.r, self.s, self.l))

    def comps(self):
        R, l = self.R, self.l
        cs = [Comp("a", "g1", "sig", self.a), Comp("b", "g1", "sig", self.b)]
        cs += [Comp("m[%d]" % i, "bn", "msg", self.ms + i * R.bn_sz) for i in range(l)]
        cs += [Comp("g", "g2", "pk", self.g), Comp("x", "g2", "pk", self.x)]
        cs += [Comp("y[%d]" % i, "g2", "pk", self.y + i * R.g2_sz) for i in range(l)]
        return cs

    def ver(self):
        return self.R.call("cp_psb_ver", self.a, self.b, self.ms, self.g, self.x, self.y, self.l)

    def eqn(self):
        R, l = self.R, self.l
        ys = [self.y + i * R.g2_sz for i in range(l)]
        for P in (self.a, self.b):
            if not self.on1(P):
                return False
        if self.inf1(self.a):
            return False
        for Q in [self.g, self.x] + ys:
            if not self.valid2(Q):
                return False
        terms = [(R.bn_get(self.ms + i * R.bn_sz)[0] % R.n, ys[i]) for i in range(l)] + [(1, self.x)]
        self.g2_lin(self.t2, terms)
        return self.pair_eq(self.a, self.t2, self.b, self.g)


class Mklhs(PairScheme):
    """multi-key linearly homomorphic signature: S signers, L tags, linear function f"""
    name, sigfn, verfn = "mklhs", "cp_mklhs_sig", "cp_mklhs_ver"
    msg_kind = "bn"

    def __init__(self, ctx, R, S=2, L=2):
        PairScheme.__init__(self, ctx, R)
        self.S, self.L = S, L
        self.name = "mklhs-%dx%d" % (S, L)

    def setup(self):
        R, rng = self.R, self.rng
        S, L = self.S, self.L
        self.base_setup()
        self.sks = [R.new("bn") for _ in range(S)]
        self.pk = R.arr("g2", S)
        self.mu = R.arr("bn", S)
        self.m = R.new("bn")
        self.sig = R.new("g1")
        self.tmpsig = R.new("g1")
        self.msgs = [R.arr("bn", L) for _ in range(S)]
        self.sigs = [R.arr("g1", L) for _ in range(S)]
        self.data = Comp("data", "bytes", "key", val=b"database-%d" % rng.randrange(100))
        self.ids = [Comp("id[%d]" % i, "bytes", "key", val=[b"Alice", b"Bob", b"Carol"][i]) for i in range(S)]
        self.tags = [Comp("tag[%d]" % j, "bytes", "key", val=b"t%d" % j) for j in range(L)]
        self.f = [[rng.randrange(1, 1 << 32) for _ in range(L)] for _ in range(S)]
        for i in range(S):
            if not self.okres(R.call("cp_mklhs_gen", self.sks[i], self.pk + i * R.g2_sz)):
                return False
        return True

    @staticmethod
    def cs(b):
        return b.split(b"\0")[0]

    def sign(self, msg):
        R, rng = self.R, self.rng
        S, L, n = self.S, self.L, R.n
        dp = R.put(self.cs(self.data.val) + b"\0")
        blocks = [dp]
        try:
            R.call("ep_set_infty", self.sig)
            total = 0
            for i in range(S):
                ip = R.put(self.cs(self.ids[i].val) + b"\0")
                blocks.append(ip)
                mv = []
                for j in range(L):
                    v = msg % n if (i == 0 and j == 0) else rng.randrange(n)
                    mv.append(v)
                    R.bn_put(self.msgs[i] + j * R.bn_sz, v)
                    tp = R.put(self.cs(self.tags[j].val) + b"\0")
                    blocks.append(tp)
                    if not self.okres(R.call("cp_mklhs_sig", self.sigs[i] + j * R.ep_sz, self.msgs[i] + j * R.bn_sz, dp, ip, tp, self.sks[i])):
                        return False
                fp = R.dig_array(self.f[i])
                blocks.append(fp)
                if not self.okres(R.call("cp_mklhs_fun", self.mu + i * R.bn_sz, self.msgs[i], fp, L)):
                    return False
                exp = sum(a * b for a, b in zip(mv, self.f[i])) % n
                if R.bn_val(self.mu + i * R.bn_sz) != exp:
                    self.ctx.fail("cp_mklhs_fun|linear|value", {"got": hx(R.bn_val(self.mu + i * R.bn_sz)), "exp": hx(exp)})
                    return False
                total = (total + exp) % n
                if not self.okres(R.call("cp_mklhs_evl", self.tmpsig, self.sigs[i], fp, L)):
                    return False
                R.call("g1_add", self.sig, self.sig, self.tmpsig)
            R.call("g1_norm", self.sig, self.sig)
            R.bn_put(self.m, total)
            return True
        finally:
            for b in blocks:
                R.free(b)

    def comps(self):
        R = self.R
        cs = [Comp("sig", "g1", "sig", self.sig), Comp("m", "bn", "msg", self.m)]
        cs += [Comp("mu[%d]" % i, "bn", "msg", self.mu + i * R.bn_sz) for i in range(self.S)]
        cs += [Comp("pk[%d]" % i, "g2", "pk", self.pk + i * R.g2_sz) for i in range(self.S)]
        cs += [self.data] + self.ids + self.tags
        return cs

    def ver(self):
        R = self.R
        S, L = self.S, self.L
        blocks = []

        def keep(p):
            blocks.append(p)
            return p
        try:
            dp = keep(R.put(self.cs(self.data.val) + b"\0"))
            idv = keep(R.ptr_array([keep(R.put(self.cs(c.val) + b"\0")) for c in self.ids]))
            tgv = keep(R.ptr_array([keep(R.put(self.cs(c.val) + b"\0")) for c in self.tags]))
            fv = keep(R.ptr_array([keep(R.dig_array(self.f[i])) for i in range(S)]))
            fl = keep(R.ptr_array([L] * S))
            return R.call("cp_mklhs_ver", self.sig, self.m, self.mu, dp, idv, tgv, fv, fl, self.pk, S)
        finally:
            for b in blocks:
                R.free(b)

    def offline_online(self, cname):
        """cp_mklhs_off + cp_mklhs_onv must give the verdict of cp_mklhs_ver on the honest and on a spoiled signature"""
        ctx, R = self.ctx, self.R
        S, L = self.S, self.L
        if not ctx.begin("cp_mklhs_onv|honest-and-spoiled", [cname, self.name]):
            return
        blocks = []

        def keep(p):
            blocks.append(p)
            return p
        try:
            dp = keep(R.put(self.cs(self.data.val) + b"\0"))
            idv = keep(R.ptr_array([keep(R.put(self.cs(c.val) + b"\0")) for c in self.ids]))
            tgv = keep(R.ptr_array([keep(R.put(self.cs(c.val) + b"\0")) for c in self.tags]))
            fv = keep(R.ptr_array([keep(R.dig_array(self.f[i])) for i in range(S)]))
            fl = keep(R.ptr_array([L] * S))
            hh, ft = keep(R.arr("g1", S)), keep(R.dig_array([0] * S))
            res = R.call("cp_mklhs_off", hh, ft, idv, tgv, fv, fl, S)
            if ctx.check(not res.caught and res.i == R.OK, ctx.cur_key + "|unexpected-error"):
                ftv = [int.from_bytes(R.get(ft + i * R.DB, R.DB), "little") for i in range(S)]
                ctx.check(ftv == [sum(self.f[i]) % (1 << R.DIG) for i in range(S)], "cp_mklhs_off|coefficients|value", {"ft": ftv})
                r1 = R.call("cp_mklhs_onv", self.sig, self.m, self.mu, dp, idv, hh, ft, self.pk, S)
                ctx.check(self.verdict(r1) == "acc", "cp_mklhs_onv|honest|rejected", {"lib": self.verdict(r1)})
                sv = R.snap(self.sig, R.ep_sz)
                R.call("g1_dbl", self.sig, self.sig)
                R.call("g1_norm", self.sig, self.sig)
                r2 = R.call("cp_mklhs_onv", self.sig, self.m, self.mu, dp, idv, hh, ft, self.pk, S)
                R.restore(self.sig, sv)
                ctx.check(self.verdict(r2) != "acc", "cp_mklhs_onv|sig:doubled|accepted")
        except MonitorViolation as e:
            ctx.fail(ctx.cur_key + "|" + e.kind, e.detail)
        finally:
            for b in blocks:
                R.free(b)
            ctx.end()

    def eqn(self):
        R = self.R
        S, L, n = self.S, self.L, R.n
        if not self.on1(self.sig):
            return False
        mus = [R.bn_get(self.mu + i * R.bn_sz)[0] for i in range(S)]
        mv = R.bn_get(self.m)[0]
        if mv != sum(mus) % n:       # the verifier compares m with the reduced sum (bn_cmp): m itself must be reduced
            return False
        data = self.cs(self.data.val)
        R.call("fp12_set_dig", self.e2, 1)
        hd, hl = R.new("g1"), R.new("g1")
        try:
            for i in range(S):
                pk = self.pk + i * R.g2_sz
                if not self.valid2(pk):
                    return False
                ident = self.cs(self.ids[i].val)
                b = R.bytes_in(data + ident)
                R.call("g1_map", hd, b, len(data + ident))
                R.free(b)
                R.call("ep_set_infty", self.t1)
                for j in range(L):
                    tg = self.cs(self.tags[j].val)
                    b = R.bytes_in(ident + tg)
                    R.call("g1_map", hl, b, len(ident + tg))
                    R.free(b)
                    R.call("g1_add", hl, hl, hd)
                    R.bn_put(self.tb, self.f[i][j])
                    R.call("g1_mul", hl, hl, self.tb)
                    R.call("g1_add", self.t1, self.t1, hl)
                R.bn_put(self.tb, mus[i] % n)
                R.call("g1_mul_gen", hl, self.tb)
                R.call("g1_add", self.t1, self.t1, hl)
                R.call("g1_norm", self.t1, self.t1)
                R.call("pc_map", self.e1, self.t1, pk)
                R.call("gt_mul", self.e2, self.e2, self.e1)
            R.call("pc_map", self.e1, self.sig, self.g2gen)
            return R.call("gt_cmp", self.e1, self.e2).i == R.EQ
        finally:
            R.free(hd)
            R.free(hl)


class _Res(object):
    """verdict carrier for verifiers that answer through an output element"""

    def __init__(self, caught, i):
        self.caught, self.i = caught, i


class Mpss(PairScheme):
    """two-party Pointcheval-Sanders signatures on shared messages (l = 0: the simple form, else the block form)"""
    msg_kind = "bn"

    def __init__(self, ctx, R, l=0, with_v=False):
        PairScheme.__init__(self, ctx, R)
        self.l, self.with_v = l, with_v
        self.pre_ = "cp_mpsb" if l else "cp_mpss"
        self.name = ("mpsb-%d%s" % (l, "-v" if with_v else "")) if l else "mpss"
        self.sigfn, self.verfn = self.pre_ + "_sig", self.pre_ + "_ver"

    def setup(self):
        R, K = self.R, self.R.K
        l = max(1, self.l)
        self.base_setup()
        ms, ps = K["sizeof_mt_st"], K["sizeof_pt_st"]
        self.ms = ms
        nb = R.bn(R.n)
        self.tri = [R.S.vf_c05_mt_new(2) for _ in range(3)]
        for t in self.tri:
            R.call("mpc_mt_gen", t, nb)
        self.pt = R.mem(2 * ps, 0)
        for i in range(2):
            R.call("ep_set_infty", self.pt + i * ps + K["off_pt_st_a"])
            R.call("ep2_set_infty", self.pt + i * ps + K["off_pt_st_b"])
            R.call("fp12_zero", self.pt + i * ps + K["off_pt_st_c"])
        R.call("pc_map_tri", self.pt)
        # GT images of the third triple (what the stock test builds with gt_exp_gen)
        self.bt, self.ct = R.arr("gt", 2), R.arr("gt", 2)
        gen = R.new("gt")
        R.call("gt_get_gen", gen)
        for i in range(2):
            R.call("gt_exp", self.bt + i * R.gt_sz, gen, self.tri[2] + i * ms + K["off_mt_st_b"])
            R.call("gt_exp", self.ct + i * R.gt_sz, gen, self.tri[2] + i * ms + K["off_mt_st_c"])
            R.wr_sz(self.tri[2] + i * ms + K["off_mt_st_b1"], self.bt + i * R.gt_sz)
            R.wr_sz(self.tri[2] + i * ms + K["off_mt_st_c1"], self.ct + i * R.gt_sz)
        self.r = R.arr("bn", 2)
        self.s = R.arr("bn", 2 * l)
        self.h, self.x, self.y = R.new("g2"), R.arr("g2", 2), R.arr("g2", 2 * l)
        self.a, self.b, self.m = R.new("g1"), R.arr("g1", 2), R.arr("bn", 2 * l)
        self.e = R.new("gt")
        if self.l:
            ok = self.okres(R.call("cp_mpsb_gen", self.r, self.s, self.h, self.x, self.y, self.l)) and \
                self.okres(R.call("cp_mpsb_bct", self.x, self.y, self.l))
        else:
            ok = self.okres(R.call("cp_mpss_gen", self.r, self.s, self.h, self.x, self.y)) and \
                self.okres(R.call("cp_mpss_bct", self.x, self.y))
        return ok

    def sign(self, msg):
        R, rng = self.R, self.rng
        n = R.n
        l = max(1, self.l)
        for j in range(l):
            mv = msg % n if j == 0 else rng.randrange(n)
            m0 = rng.randrange(n)
            R.bn_put(self.m + (2 * j) * R.bn_sz, m0)
            R.bn_put(self.m + (2 * j + 1) * R.bn_sz, (mv - m0) % n)
        if self.l:
            return self.okres(R.call("cp_mpsb_sig", self.a, self.b, self.m, self.r, self.s, self.tri[0], self.tri[1], self.l))
        return self.okres(R.call("cp_mpss_sig", self.a, self.b, self.m, self.r, self.s, self.tri[0], self.tri[1]))

    def comps(self):
        R = self.R
        l = max(1, self.l)
        cs = [Comp("a", "g1", "sig", self.a), Comp("b[0]", "g1", "sig", self.b), Comp("b[1]", "g1", "sig", self.b + R.ep_sz)]
        for j in range(l):
            cs.append(Comp("m[%d]" % (2 * j), "bn", "msg", self.m + (2 * j) * R.bn_sz))
            cs.append(Comp("m[%d]" % (2 * j + 1), "bn", "msg", self.m + (2 * j + 1) * R.bn_sz))
        cs += [Comp("h", "g2", "pk", self.h), Comp("x", "g2", "pk", self.x)]
        if not self.with_v:
            for j in range(l):
                cs.append(Comp("y[%d]" % (2 * j), "g2", "pk", self.y + (2 * j) * R.g2_sz))
        return cs

    def ver(self):
        R = self.R
        R.call("fp12_zero", self.e)
        if self.l:
            res = R.call("cp_mpsb_ver", self.e, self.a, self.b, self.m, self.h, self.x, self.y, self.s if self.with_v else 0,
                         self.tri[2], self.pt, self.l)
        else:
            res = R.call("cp_mpss_ver", self.e, self.a, self.b, self.m, self.h, self.x, self.y, self.tri[2], self.pt)
        if res.caught:
            return _Res(True, 0)
        return _Res(False, 1 if R.call("fp12_cmp_dig", self.e, 1).i == R.EQ else 0)

    def eqn(self):
        R = self.R
        n = R.n
        l = max(1, self.l)
        b0, b1 = self.b, self.b + R.ep_sz
        for P in (self.a, b0, b1):
            if not self.on1(P):
                return False
        if self.inf1(self.a):
            return False
        if not (self.valid2(self.h) and self.valid2(self.x)):
            return False
        mv = [R.bn_get(self.m + i * R.bn_sz)[0] for i in range(2 * l)]
        if self.with_v:
            sv = [R.bn_get(self.s + i * R.bn_sz)[0] for i in range(2 * l)]
            t = sum((sv[2 * j] + sv[2 * j + 1]) * (mv[2 * j] + mv[2 * j + 1]) for j in range(l)) % n
            self.g2_lin(self.t2, [(t, self.h), (1, self.x)])
        elif not self.l:
            if not self.valid2(self.y):
                return False
            self.g2_lin(self.t2, [((mv[0] + mv[1]) % n, self.y), (1, self.x)])
        else:
            terms = []
            for i in range(2 * l):
                Y = self.y + i * R.g2_sz
                if not self.valid2(Y):
                    return False
                terms.append((mv[i] % n, Y))
            self.g2_lin(self.t2, terms + [(1, self.x)])
        R.call("g1_add", self.t1, b0, b1)
        R.call("g1_norm", self.t1, self.t1)
        return self.pair_eq(self.a, self.t2, self.t1, self.h)


def run_pairing(ctx):
    R = PX(ctx.cfg)
    rng = ctx.rng
    q = ctx.quick
    names = R.pairing_names()
    ctx.note("curves", names)
    di = 0
    for ci, nm in enumerate(names):
        R.set_curve(R.E[nm], pairing=True)
        schemes = [Bls(ctx, R), Bbs(ctx, R), Zss(ctx, R), Cls(ctx, R), Cli(ctx, R), Clb(ctx, R, 3), Pss(ctx, R), Psb(ctx, R, 3),
                   Mklhs(ctx, R, 1, 1), Mklhs(ctx, R, 2, 2), Mklhs(ctx, R, 2, 3),
                   Mpss(ctx, R), Mpss(ctx, R, 3), Mpss(ctx, R, 2, True)]
        for si, sch in enumerate(schemes):
            di += 1
            sch.di = di * 1000
            if not prep(ctx, "%s|setup" % sch.sigfn.replace("_sig", "_gen"), [nm, sch.name]):
                continue
            try:
                ok = sch.setup()
                ctx.check(ok, ctx.cur_key + "|unexpected-error")
            except MonitorViolation as e:
                ctx.fail(ctx.cur_key + "|" + e.kind, e.detail)
                ok = False
            finally:
                ctx.end()
            if not ok:
                continue
            t0 = time.time()
            n = R.n
            # completeness
            if sch.msg_kind == "bytes":
                heavy = sch.name in ("cli", "clb")
                stride = 5 if heavy else 1
                if q and stride == 1 and (ci + si) % 2:
                    stride = 3          # every length on one of the two curves, every third on the other
                for L in range(ci % stride, sch.maxlen + 1, stride):
                    if sch.mine():
                        sch.pre = 0
                        sch.honest(nm, sch.rbytes(L), eq_rate=0.05)
                if sch.hashed_flag:
                    for L in range(0, 73):
                        if sch.mine():
                            sch.pre = 1
                            sch.honest(nm, sch.rbytes(L), "honest,prehashed", eq_rate=0.05)
                    sch.pre = 0
            else:
                for mv in [0, 1, 2, n - 1, n, n + 1, 2 * n + 5, 1 << 255, (1 << 256) - 1, rng.getrandbits(300)] + \
                          [rng.randrange(n) for _ in range(6)]:
                    if sch.mine():
                        sch.honest(nm, mv, "honest,m>=n" if mv >= n else "honest", eq_rate=0.3)
            ctx.add("seconds_completeness:" + sch.name, round(time.time() - t0, 1))
            # mutation soundness
            if not ctx.mine(di) and q:
                continue
            t0 = time.time()
            for pre in ([0, 1] if sch.hashed_flag else [0]):
                sch.pre = pre
                base = sch.rbytes(rng.choice([1, 5, 20])) if sch.msg_kind == "bytes" else rng.randrange(n)
                if not sch.honest(nm, base, "mutation-base"):
                    continue
                if isinstance(sch, Mklhs):
                    sch.offline_online(nm)
                full = ()
                if sch.name in ("bls", "bbs", "zss", "pss", "cls") or not q:
                    full = set(c.name for c in sch.comps() if c.kind in ("bn", "bytes"))
                only = None
                if q and ci % 2 and len(sch.comps()) > 8:
                    # many-component schemes: every second component on the second curve (same classes as on the first)
                    names = [c.name for c in sch.comps()]
                    only = lambda c, names=names: names.index(c.name) % 2 == ctx.seed % 2
                sch.mutate(nm, full_names=full, sample=0.03, only=only)
                sch.correlated(nm, maxpairs=6 if q else 20)
                if sch.name in ("cls", "cli", "clb") and not pre:
                    # messages that encode 0: the message-dependent terms vanish, plain exchanges of components remain
                    if sch.honest(nm, rng.choice([b"", b"\x00", bytes(7)]), "mutation-base"):
                        sch.correlated(nm, maxpairs=6 if q else 20)
            sch.pre = 0
            ctx.add("seconds_mutation:" + sch.name, round(time.time() - t0, 1))
            sch.finish()
    ctx.note("functions_exercised", sorted(k for k in R.fn_seen if k.startswith("cp_")))
    ctx.note("error_codes_seen", {str(k): v for k, v in R.err_codes.items()})


def run_rsa_alt(ctx):
    R = PX(ctx.cfg)
    w = Rsa(ctx, R)
    ctx.note("padding", w.pad)
    if not R.sha256_is_md:
        ctx.note("skipped", "MD_MAP is not SHA-256 in this build")
        return
    for i, bits in enumerate([768, 1024]):
        key = w.keygen(bits)
        if key is None:
            continue
        if i == 0 and w.pad == "basic":
            w.directed_overlong(key)        # fatal on some trees: first
        w.run_key(key, heavy=(i == 0))
    ctx.note("functions_exercised", sorted(k for k in R.fn_seen if k.startswith("cp_")))
    ctx.note("error_codes_seen", {str(k): v for k, v in R.err_codes.items()})


def run(ctx, part):
    if part == "rsa-alt":
        run_rsa_alt(ctx)
    elif part == "ecdsa":
        run_ecdsa(ctx)
    elif part == "ec":
        run_ec(ctx)
    elif part == "rsa":
        run_rsa(ctx)
    elif part == "pairing":
        run_pairing(ctx)
    else:
        ctx.note("part-not-implemented", part)
