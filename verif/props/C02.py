"""C02 - prime-field arithmetic realises Z/pZ with canonical results (oracle: Python integers mod p).

Every fp_* arithmetic entry point and every named algorithm variant built into the configuration is run on
every prime the build can be parameterised with.  Elements are generated at the level of the *internal image*
(raw digits, Montgomery form) as well as at the level of residues, because the corner cases of the code
(final conditional subtraction, carry out of the top digit, zero digits) are predicates of the raw digits.
Outputs are read back as raw digits: the residue must equal the model's and the digits must be < p.
"""
import ctypes

from ..rt import RT, MonitorViolation
from ..ctx import hx

LEVEL = "exploration"
RULE = ("for every prime accepted by fp_param_set/ep_param_set in the build: directed enumeration of ~45 special "
        "elements (0, 1, 2, p-1, p-2, (p+-1)/2, 2^k, p-2^k, and elements whose internal Montgomery image is 0, 1, "
        "2^k, 2^k-1, p-1, has zero / all-ones digits) through every unary function, engineered pairs (x,-x), "
        "(x,-x+-1 raw), (x,x), (x,0), (x,1), (x,p-1 raw) through every binary function, every inversion / symbol / "
        "root / exponentiation variant with exponents 0,1,2,p-1,p,p+1,negative,>p,sparse, then random cases drawn "
        "from the same classes plus squares, non-squares, cubes, small fractions a/b; every output compared with Python integers mod p "
        "AND required to have raw digits < p; inputs that are not outputs must be unchanged; all alias patterns; a "
        "case is non-trivial when an operand is non-zero; distinct = distinct (function, class, prime, operands)")
ASSUMPTIONS = ["Python's integers and pow(x, e, p) are the reference for Z/pZ",
               "the internal representation is raw = x * 2^(64*digits) mod p (measured from fp_set_dig(1), not assumed); "
               "only raw values < p are legal inputs (except for fp_norm, whose purpose is to reduce them)",
               "fp_rdc_* are judged on genuine products of two reduced elements (documented: 'a multiplication result')",
               "fp_rdc_quick only for primes the library itself describes in sparse form (fp_prime_get_sps matches p)",
               "fp_lsh/fp_rsh are documented on the digit vector (c = a * 2^bits without overflow, floor(a / 2^bits)): "
               "judged on raw digits, not as field operations",
               "an error raised by fp_exp_slide for an exponent longer than the field is a rejection, not a wrong value"]


SWEEP = ("asan224", "asan384", "asan521", "asan377", "asan382", "asan446")


def parts(tier):
    q = tier == "quick"
    sweep = [] if q else [dict(part="main", cfg=c, shards=2) for c in SWEEP]
    return sweep + [dict(part="main", cfg="asan256", shards=6 if q else 8),
            dict(part="main", cfg="asan256k", shards=3 if q else 6),
            dict(part="main", cfg="asan255", shards=3 if q else 4),
            dict(part="main", cfg="asan381", shards=2 if q else 4)]


# ------------------------------------------------------------------------------------------------ fields
def enum_fields(R):
    """[(label, symbol, id)] - every identifier of relic_fp.h that fp_param_set() installs in this build (detected
    by a sentinel: the low bit of the stored modulus is cleared before the call; an accepted identifier rewrites
    the modulus, which is odd), plus primes that are only reachable through ep_param_set()."""
    L = R.L
    L.fp_prime_get.restype = ctypes.c_void_p
    out, seen = [], set()
    for nm, v in sorted(R.EH.get("relic_fp.h", {}).items(), key=lambda kv: kv[1]):
        pp = L.fp_prime_get()
        b0 = ctypes.c_ubyte.from_address(pp)
        old = b0.value
        b0.value = old & 0xFE
        r = R.call("fp_param_set", v)
        now = ctypes.c_ubyte.from_address(L.fp_prime_get()).value
        if not r.caught and (now & 1):
            out.append((nm, "fp_param_set", v))
            seen.add(R.fp_setup())
        else:
            ctypes.c_ubyte.from_address(L.fp_prime_get()).value = old
    if R.has("ep_param_set"):
        for nm, v in R.ep_param_ids():
            R.call("ep_param_set", v)
            p = R.fp_setup()
            if p not in seen:
                seen.add(p)
                out.append(("ep:" + nm, "ep_param_set", v))
    return out


def is_sq(x, p):
    return x % p == 0 or pow(x, (p - 1) // 2, p) == 1


def is_cube(x, p):
    if x % p == 0 or p % 3 == 2:
        return True
    return pow(x, (p - 1) // 3, p) == 1


# ------------------------------------------------------------------------------------------------ tester
class Field(object):
    """one installed prime field: generators, classifiers and the per-function cases"""

    def __init__(self, ctx, R, name):
        self.ctx, self.R, self.name, self.rng = ctx, R, name, ctx.rng
        self.p = p = R.p
        self.digs = R.FP_DIGS
        self.W = 64 * self.digs
        self.Rr = 1 << self.W
        self.mont = R.mont
        self.minv = R.mont_inv
        self.monty = self.mont != 1
        self.u = (-pow(p, -1, self.Rr)) % self.Rr          # full-width Montgomery constant
        self.bits = p.bit_length()
        self.a, self.b, self.c = R.fp_new(), R.fp_new(), R.fp_new()
        self.dv = R.mem(R.K["sizeof_dv_t"], 0x5A)
        self.bn = R.bn_new()
        self.bn2 = R.bn_new()
        self.nbytes = self.digs * 8
        # a fixed quadratic non-residue and (if they exist) cubic non-residue, found by search in the model
        g = 2
        while is_sq(g, p):
            g += 1
        self.qnr = g
        self.cnr = None
        if p % 3 == 1:
            g = 2
            while is_cube(g, p):
                g += 1
            self.cnr = g
        self.inv2 = pow(2, -1, p)
        self.inv3 = pow(3, -1, p)
        self.special = self._special()
        self.sps_ok = self._sparse_form_matches()
        K = R.K
        self.EQ, self.NE = K["RLC_EQ"], K["RLC_NE"]
        self.fn_absent = set()

    # ---------------------------------------------------------------------------- elements (raw images < p)
    def raw_of(self, x):
        return (x % self.p) * self.mont % self.p

    def val_of(self, raw):
        return raw * self.minv % self.p

    def _special(self):
        p, W, bits = self.p, self.W, self.bits
        vals = [0, 1, 2, 3, p - 1, p - 2, (p - 1) // 2, (p + 1) // 2]
        # small fractions a/b: slow-converging inputs of every gcd-style inversion / symbol algorithm
        vals += [3 * pow(2, -1, p) % p, 7 * pow(2, -1, p) % p, pow(3, -1, p), 5 * pow(7, -1, p) % p, -9 * pow(6, -1, p) % p]
        for k in (1, 31, 32, 63, 64, 65, 127, 128, 191, bits - 2, bits - 1):
            if (1 << k) < p:
                vals += [1 << k, p - (1 << k)]
        raws = [self.raw_of(v) for v in vals]
        # images with a prescribed digit pattern
        B = 1 << 64
        pat = [1, 2, p - 1, p - 2, (p - 1) // 2, (p + 1) // 2, B - 1, B, B + 1, (B - 1) << 64, 1 << (W - 64),
               (1 << (bits - 1)) - 1, 1 << (bits - 1), ((1 << (bits - 1)) - 1) ^ (B - 1),      # low digit zero
               ((1 << (bits - 1)) - 1) ^ ((B - 1) << 64),                                   # second digit zero
               (p >> 64) << 64, p & (B - 1), (p >> 64 << 64) | (B - 1) if ((p >> 64 << 64) | (B - 1)) < p else p - 3,
               sum((B >> 1) << (64 * i) for i in range(self.digs - 1)), sum(1 << (64 * i) for i in range(self.digs))]
        for r in pat:
            if 0 <= r < p:
                raws.append(r)
        out, seen = [], set()
        for r in raws:
            if r not in seen:
                seen.add(r)
                out.append(r)
        return out

    def digit_pattern(self):
        rng, p = self.rng, self.p
        B = 1 << 64
        v = 0
        mode = rng.randrange(4)
        for i in range(self.digs):
            c = rng.randrange(6) if mode else rng.randrange(3)
            d = (0, B - 1, 1, B >> 1, B - 2, rng.getrandbits(64))[c]
            v |= d << (64 * i)
        if v >= p:
            v &= (1 << (self.bits - 1)) - 1
        return v

    def elem(self):
        """-> raw image of a field element, drawn from the promised classes"""
        rng, p = self.rng, self.p
        c = rng.randrange(16)
        if c < 3:
            return rng.choice(self.special)
        if c < 6:
            return self.digit_pattern()
        if c == 6:
            k = rng.randrange(self.bits)
            v = 1 << k
            if v >= p:
                v >>= 1
            return self.raw_of(v if rng.random() < 0.5 else p - v)
        if c == 7:
            return self.raw_of(pow(rng.randrange(p), 2, p))
        if c == 8:
            return self.raw_of(pow(rng.randrange(1, p), 2, p) * self.qnr)
        if c == 9:
            return self.raw_of(pow(rng.randrange(p), 3, p))
        if c == 10 and self.cnr:
            return self.raw_of(pow(rng.randrange(1, p), 3, p) * self.cnr)
        if c == 11:
            return rng.randrange(1 << rng.randrange(1, self.bits)) % p        # short images
        if c == 12:
            num = rng.randrange(1, 1 << rng.choice([3, 8, 16, 32]))
            den = rng.randrange(1, 1 << rng.choice([3, 8, 16, 32]))
            return self.raw_of(rng.choice([-1, 1]) * num * pow(den, -1, p))       # small fractions
        return rng.randrange(p)

    def partner(self, ra):
        """second operand engineered against ra (raw level)"""
        rng, p = self.rng, self.p
        c = rng.randrange(10)
        if c == 0:
            return (p - ra) % p
        if c == 1:
            return (p - ra + rng.choice([-1, 1])) % p
        if c == 2:
            return ra
        if c == 3:
            return (ra + rng.choice([-1, 1])) % p
        if c == 4:
            return p - 1 - rng.randrange(3)
        return self.elem()

    # ---------------------------------------------------------------------------------------- classifiers
    def small_fraction(self, x, bound=1 << 40):
        """is x = a/b (mod p) with 0 < |a|, |b| < bound?  (rational reconstruction by the Euclidean algorithm)"""
        if x == 0:
            return False
        r0, r1, t0, t1 = self.p, x, 0, 1
        while r1 >= bound:
            q = r0 // r1
            r0, r1, t0, t1 = r1, r0 - q * r1, t1, t0 - q * t1
        return r1 != 0 and abs(t1) < bound

    def cls_add(self, ra, rb):
        s = ra + rb
        if s >= self.Rr:
            return "carry"
        if s == self.p:
            return "sum=p"
        return "sum>p" if s > self.p else "sum<p"

    def cls_sub(self, ra, rb):
        return "a=b" if ra == rb else ("a>b" if ra > rb else "a<b")

    def cls_mont(self, ra, rb):
        """state before the final conditional subtraction of a Montgomery product"""
        if not self.monty:
            return "plain"
        T = ra * rb
        if T == 0:
            return "zero"
        m = (T * self.u) & (self.Rr - 1)
        t = (T + m * self.p) >> self.W
        if t >= self.Rr:
            return "t>=2^W"
        return "t>=p" if t >= self.p else "t<p"

    # ------------------------------------------------------------------------------------------ plumbing
    def bad(self, what, detail, alias="-"):
        self.ctx.fail("%s|%s|%s|%s" % (self.ctx.cur_key, self.name, alias, what), detail)

    def ck(self, cond, what, detail=None, alias="-"):
        self.ctx.evaluations += 1
        if not cond:
            self.bad(what, detail, alias)
        return cond

    def out_ok(self, ptr, exp_val, alias="-", exp_raw=None):
        """value through the measured representation + canonical form of the raw digits"""
        raw = self.R.fp_raw(ptr)
        if exp_raw is None:
            got = raw * self.minv % self.p
            self.ck(got == exp_val, "value", {"got": hx(got), "exp": hx(exp_val), "raw": hx(raw)}, alias)
        else:
            self.ck(raw % self.p == exp_raw, "value", {"got_raw": hx(raw), "exp_raw": hx(exp_raw)}, alias)
        self.ck(raw < self.p, "normal-form", {"raw": hx(raw), "p": hx(self.p)}, alias)
        return raw

    def unchanged(self, ptr, raw, alias="-"):
        now = self.R.fp_raw(ptr)
        self.ck(now == raw, "input-modified", {"was": hx(raw), "now": hx(now)}, alias)

    def run(self, key, desc, body, nontrivial=True, budget=None):
        ctx = self.ctx
        if not ctx.begin(key, [self.name] + desc, nontrivial=nontrivial, budget=budget):
            return
        try:
            body()
        except MonitorViolation as e:
            self.bad(e.kind, e.detail)
        finally:
            ctx.end()

    def has(self, fn):
        if self.R.has(fn):
            return True
        self.fn_absent.add(fn)
        return False

    def canary(self, alias="-"):
        """after an error the library must still compute (fixed multiplication and inversion through the dispatch)"""
        R, p = self.R, self.p
        x, y = 0x1234567 % p, (p - 0x89ABCDEF) % p
        t1, t2, t3 = R.fp_new(x), R.fp_new(y), R.fp_new()
        r1 = R.call("fp_mul", t3, t1, t2)
        v1 = R.fp_get(t3)
        r2 = R.call("fp_inv", t3, t1)
        v2 = R.fp_get(t3)
        ok = (not r1.caught and not r2.caught and v1 == (x * y % p, True) and v2 == (pow(x, -1, p), True)
              and R.err_get_code() == R.K["RLC_OK"])
        for t in (t1, t2, t3):
            R.free(t)
        self.ck(ok, "unusable-after-error", {"mul": repr(v1), "inv": repr(v2)}, alias)

    # ------------------------------------------------------------------------------------ binary operations
    BIN = {"add": ["fp_add_basic", "fp_add_integ"], "sub": ["fp_sub_basic", "fp_sub_integ"],
           "mul": ["fp_mul_basic", "fp_mul_comba", "fp_mul_integ", "fp_mul_karat"]}

    def binary(self, op, ra, rb):
        R, p, a, b, c = self.R, self.p, self.a, self.b, self.c
        x, y = self.val_of(ra), self.val_of(rb)
        if op == "add":
            exp, cls = (x + y) % p, self.cls_add(ra, rb)
        elif op == "sub":
            exp, cls = (x - y) % p, self.cls_sub(ra, rb)
        else:
            exp, cls = x * y % p, self.cls_mont(ra, rb)
        agree = {}
        for fn in self.BIN[op]:
            if not self.has(fn):
                continue

            def body(fn=fn):
                pats = ["c,a,b", "c==a", "c==b"] + (["a==b", "c==a==b"] if ra == rb else [])
                for al in pats:
                    R.fp_put_raw(a, ra)
                    R.fp_put_raw(b, rb)
                    R.fp_put_raw(c, self.rng.getrandbits(self.W))
                    pa = a
                    pb = a if al in ("a==b", "c==a==b") else b
                    out = {"c,a,b": c, "c==a": a, "c==b": b, "a==b": c, "c==a==b": a}[al]
                    res = R.call(fn, out, pa, pb)
                    if res.caught:
                        self.bad("unexpected-error", {"err": res.err}, al)
                        continue
                    raw = self.out_ok(out, exp, al)
                    agree.setdefault(raw, []).append(fn)
                    if out != a:
                        self.unchanged(a, ra, al)
                    if out != b and pb == b:
                        self.unchanged(b, rb, al)
            self.run("%s|%s" % (fn, cls), [hx(ra), hx(rb)], body, nontrivial=bool(ra or rb))
        self.ctx.evaluations += 1
        if len(agree) > 1:
            self.ctx.fail("fp_%s|%s|%s|-|variants-disagree" % (op, cls, self.name),
                          {"raw->functions": {hx(k): sorted(set(v)) for k, v in agree.items()}})

    # ------------------------------------------------------------------------------------- unary operations
    UN = {"neg": ["fp_neg_basic", "fp_neg_integ"], "dbl": ["fp_dbl_basic", "fp_dbl_integ"],
          "hlv": ["fp_hlv_basic", "fp_hlv_integ"],
          "sqr": ["fp_sqr_basic", "fp_sqr_comba", "fp_sqr_integ", "fp_sqr_karat"], "trs": ["fp_trs"]}

    def unary(self, op, ra):
        R, p, a, c = self.R, self.p, self.a, self.c
        x = self.val_of(ra)
        if op == "neg":
            exp, cls = -x % p, "zero" if ra == 0 else "nonzero"
        elif op == "dbl":
            exp = 2 * x % p
            cls = "carry" if 2 * ra >= self.Rr else ("2a>p" if 2 * ra > p else "2a<p")
        elif op == "hlv":
            exp = x * self.inv2 % p
            cls = "even" if ra % 2 == 0 else ("odd-carry" if ra + p >= self.Rr else "odd")
        elif op == "sqr":
            exp, cls = x * x % p, self.cls_mont(ra, ra)
        else:
            exp, cls = x * self.inv3 % p, "p%%3=%d|raw%%3=%d" % (p % 3, ra % 3)
        agree = {}
        for fn in self.UN[op]:
            if not self.has(fn):
                continue

            def body(fn=fn):
                for al in ("c,a", "c==a"):
                    R.fp_put_raw(a, ra)
                    R.fp_put_raw(c, self.rng.getrandbits(self.W))
                    out = c if al == "c,a" else a
                    res = R.call(fn, out, a)
                    if res.caught:
                        self.bad("unexpected-error", {"err": res.err}, al)
                        continue
                    raw = self.out_ok(out, exp, al)
                    agree.setdefault(raw, []).append(fn)
                    if out != a:
                        self.unchanged(a, ra, al)
            self.run("%s|%s" % (fn, cls), [hx(ra)], body, nontrivial=bool(ra))
        self.ctx.evaluations += 1
        if len(agree) > 1:
            self.ctx.fail("fp_%s|%s|%s|-|variants-disagree" % (op, cls, self.name),
                          {"raw->functions": {hx(k): sorted(set(v)) for k, v in agree.items()}})

    # ---------------------------------------------------------------------------------- small-constant forms
    def digit(self):
        rng = self.rng
        B = 1 << 64
        return rng.choice([0, 1, 2, 3, B - 1, B >> 1, B - 2, rng.getrandbits(64), rng.getrandbits(rng.randrange(1, 64))])

    def dig_ops(self, ra, d):
        R, p, a, c = self.R, self.p, self.a, self.c
        x = self.val_of(ra)
        rd = self.raw_of(d)
        dcls = "d=0" if d == 0 else ("d=1" if d == 1 else "d>1")
        for fn, exp, cls in (("fp_add_dig", (x + d) % p, self.cls_add(ra, rd)),
                             ("fp_sub_dig", (x - d) % p, self.cls_sub(ra, rd)),
                             ("fp_mul_dig", x * d % p, self.cls_mont(ra, rd))):
            def body(fn=fn, exp=exp):
                for al in ("c,a", "c==a"):
                    R.fp_put_raw(a, ra)
                    R.fp_put_raw(c, self.rng.getrandbits(self.W))
                    out = c if al == "c,a" else a
                    res = R.call(fn, out, a, d)
                    if res.caught:
                        self.bad("unexpected-error", {"err": res.err}, al)
                        continue
                    self.out_ok(out, exp, al)
                    if out != a:
                        self.unchanged(a, ra, al)
            self.run("%s|%s|%s" % (fn, dcls, cls), [hx(ra), hx(d)], body, nontrivial=bool(ra or d))

        def body_set():
            for fn in ("fp_set_dig", "fp_prime_conv_dig"):
                R.fp_put_raw(c, self.rng.getrandbits(self.W))
                res = R.call(fn, c, d)
                if res.caught:
                    self.bad("unexpected-error", {"err": res.err}, fn)
                    continue
                self.out_ok(c, d % p, fn)
        self.run("fp_prime_conv_dig|%s" % dcls, [hx(d)], body_set, nontrivial=bool(d))

        def body_cmp():
            R.fp_put_raw(a, ra)
            res = R.call("fp_cmp_dig", a, d)
            e = self.EQ if x == d % p else self.NE
            self.ck(not res.caught and res.i == e, "value", {"got": res.i, "exp": e, "err": res.caught})
            self.unchanged(a, ra)
        self.run("fp_cmp_dig|%s" % ("equal" if x == d % p else "unequal"), [hx(ra), hx(d)], body_cmp)

        def body_expd():
            for al in ("c,a", "c==a"):
                R.fp_put_raw(a, ra)
                R.fp_put_raw(c, self.rng.getrandbits(self.W))
                out = c if al == "c,a" else a
                res = R.call("fp_exp_dig", out, a, d)
                if res.caught:
                    self.bad("unexpected-error", {"err": res.err}, al)
                    continue
                self.out_ok(out, pow(x, d, p), al)
                if out != a:
                    self.unchanged(a, ra, al)
        self.run("fp_exp_dig|%s|%s" % (dcls, "base0" if ra == 0 else "base"), [hx(ra), hx(d)], body_expd)

    # --------------------------------------------------------------------------------------------- reduction
    def rdc(self, ra, rb):
        R, p = self.R, self.p
        T = ra * rb
        cls = self.cls_mont(ra, rb)
        fns = [("fp_rdc_monty_basic", T * self.minv % p), ("fp_rdc_monty_comba", T * self.minv % p),
               ("fp_rdc_basic", T % p)]
        if self.sps_ok:
            fns.append(("fp_rdc_quick", T % p))
        if not self.monty:
            fns = fns[2:]
        for fn, exp_raw in fns:
            if not self.has(fn):
                continue
            if fn == "fp_rdc_quick":
                cls = "fold-overflow" if self.fold_overflow(T) else "no-fold-overflow"

            def body(fn=fn, exp_raw=exp_raw):
                c = self.c
                n = R.K["sizeof_dv_t"]
                buf = T.to_bytes(2 * self.nbytes, "little") + bytes([self.rng.randrange(1, 256)]) * (n - 2 * self.nbytes)
                ctypes.memmove(self.dv, buf, n)
                R.fp_put_raw(c, self.rng.getrandbits(self.W))
                res = R.call(fn, c, self.dv)
                if res.caught:
                    self.bad("unexpected-error", {"err": res.err})
                    return
                self.out_ok(c, None, exp_raw=exp_raw)
            self.run("%s|%s" % (fn, cls), [hx(ra), hx(rb)], body, nontrivial=bool(T))

    def fold_overflow(self, T):
        """classifier for fp_rdc_quick only (not an oracle): while folding the part above 2^k back with
        2^k = (2^k - p) mod p, does a partial sum r + fold reach 2^W + p, i.e. need more than one subtraction of p
        after the carry out of the top digit?"""
        k = self.sps[-1]
        mask = (1 << k) - 1
        cst = (1 << k) - self.p
        q, r = T >> k, T & mask
        while q:
            f = q * cst
            q, f = f >> k, f & mask
            s = r + f
            if s >= self.Rr + self.p:
                return True
            if s >= self.Rr or s >= self.p:
                s -= self.p
            r = s % self.Rr
        return False

    def quick_witnesses(self, want=3, tries=60000):
        """deterministic model-side search for genuine products that drive fp_rdc_quick into the fold-overflow class"""
        import random
        out = []
        if not self.sps_ok:
            return out
        save, self.rng = self.rng, random.Random(0xC02)
        try:
            for _ in range(tries):
                ra = self.digit_pattern()
                rb = self.digit_pattern() if self.rng.random() < 0.7 else self.Rr % self.p
                if ra and rb and self.fold_overflow(ra * rb):
                    out.append((ra, rb))
                    if len(out) >= want:
                        break
        finally:
            self.rng = save
        return out

    def _sparse_form_matches(self):
        """does the library describe *this* prime in sparse form (fp_rdc_quick is only defined then)?"""
        R = self.R
        if not R.has("fp_prime_get_sps"):
            return False
        R.L.fp_prime_get_sps.restype = ctypes.c_void_p
        R.L.fp_prime_get_sps.argtypes = [ctypes.c_void_p]
        ln = ctypes.c_int(0)
        ptr = R.L.fp_prime_get_sps(ctypes.addressof(ln))
        if not ptr or ln.value < 2 or ln.value > 16:
            return False
        s = [ctypes.c_int.from_address(ptr + 4 * i).value for i in range(ln.value)]
        v = 1 << s[-1]
        for t in s[1:-1]:
            v += (1 << t) if t > 0 else -(1 << -t)
        v += s[0]
        self.sps = s
        return v == self.p

    # --------------------------------------------------------------------------------------------- inversion
    INV = ["fp_inv_basic", "fp_inv_binar", "fp_inv_monty", "fp_inv_exgcd", "fp_inv_divst", "fp_inv_jmpds",
           "fp_inv_lower"]

    def inv_class(self, ra):
        x = self.val_of(ra)
        if ra == 0:
            return "zero"
        if x == 1:
            return "one"
        if x == self.p - 1:
            return "minus-one"
        if ra < (1 << 64):
            return "image-one-digit"
        if x < (1 << 64):
            return "value-one-digit"
        return "general"

    def inv(self, ra):
        R, p, a, c = self.R, self.p, self.a, self.c
        x = self.val_of(ra)
        cls = self.inv_class(ra)
        agree = {}
        for fn in self.INV:
            if not self.has(fn):
                continue

            def body(fn=fn):
                for al in ("c,a", "c==a"):
                    R.fp_put_raw(a, ra)
                    junk = self.rng.getrandbits(self.W)
                    R.fp_put_raw(c, junk)
                    out = c if al == "c,a" else a
                    res = R.call(fn, out, a)
                    if ra == 0:
                        self.ck(res.caught, "no-error", {"out_raw": hx(R.fp_raw(out))}, al)
                        self.canary(al)
                        continue
                    if res.caught:
                        self.bad("unexpected-error", {"err": res.err}, al)
                        self.canary(al)
                        continue
                    raw = self.out_ok(out, pow(x, -1, p), al)
                    agree.setdefault(raw, []).append(fn)
                    if out != a:
                        self.unchanged(a, ra, al)
            self.run("%s|%s" % (fn, cls), [hx(ra)], body)
        if len(agree) > 1:
            self.ctx.fail("fp_inv|%s|%s|-|variants-disagree" % (cls, self.name),
                          {"raw->functions": {hx(k): sorted(set(v)) for k, v in agree.items()}})

    def inv_sim(self, raws, alias):
        R, p = self.R, self.p
        n = len(raws)
        sz = R.fp_sz
        zero = any(r == 0 for r in raws)
        cls = ("n=1" if n == 1 else ("n=2" if n == 2 else "n>2")) + ("|has-zero" if zero else "")

        def body():
            A = R.mem(sz * n, R.poison)
            C = A if alias else R.mem(sz * n, self.rng.randrange(1, 256))
            try:
                for i, r in enumerate(raws):
                    R.fp_put_raw(A + i * sz, r)
                res = R.call("fp_inv_sim", C, A, n)
                al = "c==a" if alias else "c,a"
                if zero:
                    # a zero among the operands makes the product non-invertible: must be reported, never a value
                    self.ck(res.caught, "no-error", None, al)
                    self.canary(al)
                    return
                if res.caught:
                    self.bad("unexpected-error", {"err": res.err}, al)
                    self.canary(al)
                    return
                for i, r in enumerate(raws):
                    raw = R.fp_raw(C + i * sz)
                    got = raw * self.minv % p
                    e = pow(self.val_of(r), -1, p)
                    self.ck(got == e, "value", {"i": i, "got": hx(got), "exp": hx(e)}, al)
                    self.ck(raw < p, "normal-form", {"i": i, "raw": hx(raw)}, al)
                    if not alias:
                        self.ck(R.fp_raw(A + i * sz) == r, "input-modified", {"i": i}, al)
            finally:
                R.free(A)
                if not alias:
                    R.free(C)
        self.run("fp_inv_sim|%s" % cls, [[hx(r) for r in raws], alias], body)

    # ------------------------------------------------------------------------------- symbols, roots, predicates
    SMB = ["fp_smb_basic", "fp_smb_binar", "fp_smb_divst", "fp_smb_jmpds", "fp_smb_lower"]

    def smb(self, ra, fns=None):
        R, p, a = self.R, self.p, self.a
        x = self.val_of(ra)
        e = 0 if x == 0 else (1 if is_sq(x, p) else -1)
        cls = {0: "zero", 1: "square", -1: "nonsquare"}[e]
        if e and ra < (1 << 64):
            cls += "|image-one-digit"
        if self.small_fraction(x):
            cls += "|small-fraction"
        for fn in (fns or self.SMB):
            if not self.has(fn):
                continue

            def body(fn=fn):
                R.fp_put_raw(a, ra)
                res = R.call(fn, a)
                if res.caught:
                    self.bad("unexpected-error", {"err": res.err})
                    return
                self.ck(res.i == e, "value", {"got": res.i, "exp": e})
                self.unchanged(a, ra)
            self.run("%s|%s" % (fn, cls), [hx(ra)], body, nontrivial=bool(ra))

    def roots(self, ra):
        R, p, a, c = self.R, self.p, self.a, self.c
        x = self.val_of(ra)
        sq = is_sq(x, p)
        cls = "zero" if x == 0 else ("square" if sq else "nonsquare")

        def body_is():
            R.fp_put_raw(a, ra)
            res = R.call("fp_is_sqr", a)
            self.ck(not res.caught and bool(res.i) == sq, "flag", {"got": res.i, "exp": sq})
            self.unchanged(a, ra)
        self.run("fp_is_sqr|%s" % cls, [hx(ra)], body_is, nontrivial=bool(ra))

        def body_srt():
            for al in ("c,a", "c==a"):
                R.fp_put_raw(a, ra)
                R.fp_put_raw(c, self.rng.getrandbits(self.W))
                out = c if al == "c,a" else a
                res = R.call("fp_srt", out, a)
                if res.caught:
                    self.bad("unexpected-error", {"err": res.err}, al)
                    continue
                self.ck(bool(res.i) == sq, "flag", {"got": res.i, "exp": sq}, al)
                if sq and res.i:
                    raw = R.fp_raw(out)
                    y = raw * self.minv % p
                    self.ck(y * y % p == x, "root", {"root": hx(y), "a": hx(x)}, al)
                    self.ck(raw < p, "normal-form", {"raw": hx(raw)}, al)
                if out != a:
                    self.unchanged(a, ra, al)
        self.run("fp_srt|%s" % cls, [hx(ra)], body_srt, nontrivial=bool(ra))

        cu = is_cube(x, p)
        ccls = "zero" if x == 0 else ("cube" if cu else "noncube")
        if self.has("fp_is_cub"):
            def body_ic():
                R.fp_put_raw(a, ra)
                res = R.call("fp_is_cub", a)
                self.ck(not res.caught and bool(res.i) == cu, "flag", {"got": res.i, "exp": cu})
                self.unchanged(a, ra)
            self.run("fp_is_cub|%s" % ccls, [hx(ra)], body_ic, nontrivial=bool(ra))
        if self.has("fp_crt"):
            def body_crt():
                for al in ("c,a", "c==a"):
                    R.fp_put_raw(a, ra)
                    R.fp_put_raw(c, self.rng.getrandbits(self.W))
                    out = c if al == "c,a" else a
                    res = R.call("fp_crt", out, a)
                    if res.caught:
                        self.bad("unexpected-error", {"err": res.err}, al)
                        continue
                    self.ck(bool(res.i) == cu, "flag", {"got": res.i, "exp": cu}, al)
                    if cu and res.i:
                        raw = R.fp_raw(out)
                        y = raw * self.minv % p
                        self.ck(pow(y, 3, p) == x, "root", {"root": hx(y), "a": hx(x)}, al)
                        self.ck(raw < p, "normal-form", {"raw": hx(raw)}, al)
                    if out != a:
                        self.unchanged(a, ra, al)
            self.run("fp_crt|p%%9=%d|%s" % (p % 9, ccls), [hx(ra)], body_crt, nontrivial=bool(ra))

    def preds(self, ra, rb):
        R, p, a, b, c = self.R, self.p, self.a, self.b, self.c
        x, y = self.val_of(ra), self.val_of(rb)

        def body_cmp():
            for al in ("a,b", "a==b"):
                R.fp_put_raw(a, ra)
                R.fp_put_raw(b, rb)
                pb = a if al == "a==b" else b
                res = R.call("fp_cmp", a, pb)
                e = self.EQ if (al == "a==b" or ra == rb) else self.NE
                self.ck(not res.caught and res.i == e, "value", {"got": res.i, "exp": e}, al)
                self.unchanged(a, ra, al)
                self.unchanged(b, rb, al)
        self.run("fp_cmp|%s" % ("equal" if ra == rb else "unequal"), [hx(ra), hx(rb)], body_cmp)

        def body_z():
            R.fp_put_raw(a, ra)
            res = R.call("fp_is_zero", a)
            self.ck(not res.caught and bool(res.i) == (x == 0), "value", {"got": res.i})
            res = R.call("fp_is_even", a)
            self.ck(not res.caught and bool(res.i) == (x % 2 == 0), "value", {"got": res.i, "fn": "fp_is_even"}, "fp_is_even")
            self.unchanged(a, ra)
        self.run("fp_is_zero|%s" % ("zero" if x == 0 else "nonzero"), [hx(ra)], body_z)

        def body_copy():
            R.fp_put_raw(a, ra)
            R.fp_put_raw(c, rb)
            res = R.call("fp_copy", c, a)
            self.ck(not res.caught and R.fp_raw(c) == ra, "value", None, "fp_copy")
            for bit in (0, 1):
                R.fp_put_raw(c, rb)
                res = R.call("fp_copy_sec", c, a, bit)
                self.ck(not res.caught and R.fp_raw(c) == (ra if bit else rb), "value", {"bit": bit}, "fp_copy_sec")
            res = R.call("fp_zero", c)
            self.ck(not res.caught and R.fp_raw(c) == 0, "value", None, "fp_zero")
            self.unchanged(a, ra)
        self.run("fp_copy|", [hx(ra), hx(rb)], body_copy)

    # ------------------------------------------------------------------------------------------- conversions
    def conv(self, v):
        R, p, c = self.R, self.p, self.c
        if v < 0:
            cls = "neg"
        elif v == 0:
            cls = "zero"
        elif v < p:
            cls = "<p"
        elif v == p:
            cls = "=p"
        elif v % p == 0:
            cls = "multiple-of-p"
        elif v.bit_length() <= self.W:
            cls = ">p,fits-digits"
        else:
            cls = "longer-than-field"

        def body():
            R.bn_put(self.bn, v, poison=self.rng.randrange(1, 256))
            R.fp_put_raw(c, self.rng.getrandbits(self.W))
            res = R.call("fp_prime_conv", c, self.bn)
            if res.caught:
                self.bad("unexpected-error", {"err": res.err})
                return
            self.out_ok(c, v % p)
            got = R.bn_get(self.bn)
            self.ck(got[0] == v, "input-modified", {"now": repr(got)})
        self.run("fp_prime_conv|%s" % cls, [hx(v)], body, nontrivial=bool(v))

    def back(self, ra):
        R, p, a = self.R, self.p, self.a
        x = self.val_of(ra)
        cls = "zero" if x == 0 else ("one-digit" if x < (1 << 64) else ("full" if x >> (self.W - 64) else "short"))

        def body():
            R.fp_put_raw(a, ra)
            R.bn_put(self.bn, -self.rng.getrandbits(200) - 1, poison=self.rng.randrange(1, 256))
            res = R.call("fp_prime_back", self.bn, a)
            if res.caught:
                self.bad("unexpected-error", {"err": res.err})
                return
            v, used, sign, normal = R.bn_get(self.bn)
            self.ck(v == x, "value", {"got": hx(v) if v is not None else None, "exp": hx(x)})
            self.ck(normal, "normal-form", {"used": used, "sign": sign})
            self.unchanged(a, ra)
        self.run("fp_prime_back|%s" % cls, [hx(ra)], body, nontrivial=bool(ra))

    def norm(self, raw):
        """the one function whose domain includes images >= p"""
        R, p, a, c = self.R, self.p, self.a, self.c
        cls = "<p" if raw < p else ("=p" if raw == p else ("<2p" if raw < 2 * p else ">=2p"))

        def body():
            for al in ("c,a", "c==a"):
                R.fp_put_raw(a, raw)
                R.fp_put_raw(c, self.rng.getrandbits(self.W))
                out = c if al == "c,a" else a
                res = R.call("fp_norm", out, a)
                if res.caught:
                    self.bad("unexpected-error", {"err": res.err}, al)
                    continue
                got = R.fp_raw(out)
                self.ck(got == raw % p, "value", {"got": hx(got), "exp": hx(raw % p)}, al)
                if out != a:
                    self.unchanged(a, raw, al)
        self.run("fp_norm|%s" % cls, [hx(raw)], body, nontrivial=bool(raw))

    def shifts(self, ra, s):
        R, a, c = self.R, self.a, self.c
        scls = "s=0" if s == 0 else ("s=1" if s == 1 else ("whole-digits" if s % 64 == 0 else ("s<64" if s < 64 else "s>64")))
        for fn, exp in (("fp_lsh", ra << s), ("fp_rsh", ra >> s)):
            if fn == "fp_lsh" and exp >= self.Rr:
                continue

            def body(fn=fn, exp=exp):
                for al in ("c,a", "c==a"):
                    R.fp_put_raw(a, ra)
                    R.fp_put_raw(c, self.rng.getrandbits(self.W))
                    out = c if al == "c,a" else a
                    res = R.call(fn, out, a, s)
                    if res.caught:
                        self.bad("unexpected-error", {"err": res.err}, al)
                        continue
                    got = R.fp_raw(out)
                    self.ck(got == exp, "value", {"got": hx(got), "exp": hx(exp)}, al)
                    if out != a:
                        self.unchanged(a, ra, al)
            self.run("%s|%s" % (fn, scls), [hx(ra), s], body, nontrivial=bool(ra))

    # ----------------------------------------------------------------------------------------- exponentiation
    EXP = ["fp_exp_basic", "fp_exp_slide", "fp_exp_monty"]

    def exponents(self):
        p, rng = self.p, self.rng
        return [("e=0", 0), ("e=1", 1), ("e=2", 2), ("e=p-1", p - 1), ("e=p", p), ("e=p+1", p + 1), ("e=p-2", p - 2),
                ("neg-small", -rng.choice([1, 2, 3, 5])), ("neg", -rng.randrange(1, p)), ("neg", -(p - 1)), ("neg", -p),
                ("neg-long", -rng.getrandbits(self.bits + rng.randrange(2, 300)) - (1 << (self.bits + 1))),
                ("long", rng.getrandbits(self.bits + rng.randrange(2, 300)) | (1 << (self.bits + 1))),
                ("long", p * p + rng.randrange(5)), ("sparse", (1 << rng.randrange(2, self.bits)) | (1 << rng.randrange(0, 64))),
                ("sparse", 1 << rng.randrange(1, self.bits)), ("all-ones", (1 << rng.randrange(2, self.bits)) - 1),
                ("field-bits", (1 << (self.bits - 1)) | rng.getrandbits(self.bits - 1)),
                ("top-bit", 1 << self.R.K["RLC_FP_BITS"]), ("random", rng.randrange(p))]

    def exp(self, ra, ecls, e, fns=None):
        R, p, a, c = self.R, self.p, self.a, self.c
        x = self.val_of(ra)
        bcls = "base0" if x == 0 else ("base1" if x == 1 else "base")
        agree = {}
        for fn in (fns or self.EXP):
            if not self.has(fn):
                continue

            def body(fn=fn):
                for al in ("c,a", "c==a"):
                    R.fp_put_raw(a, ra)
                    R.fp_put_raw(c, self.rng.getrandbits(self.W))
                    R.bn_put(self.bn, e, poison=self.rng.randrange(1, 256))
                    out = c if al == "c,a" else a
                    res = R.call(fn, out, a, self.bn)
                    if x == 0 and e < 0:
                        self.ck(res.caught, "no-error", {"out_raw": hx(R.fp_raw(out))}, al)
                        self.canary(al)
                        continue
                    if res.caught:
                        # documented-domain question: an exponent longer than the field may be refused by the
                        # sliding-window variant (fixed-size recoding buffer); a refusal is not a wrong value
                        longer = abs(e).bit_length() > R.K["RLC_FP_BITS"]
                        self.ck(fn == "fp_exp_slide" and longer, "unexpected-error", {"err": res.err}, al)
                        self.ctx.add("exp_slide_rejections", 1)
                        self.canary(al)
                        continue
                    raw = self.out_ok(out, pow(x, e, p), al)
                    agree.setdefault(raw, []).append(fn)
                    if out != a:
                        self.unchanged(a, ra, al)
                    got = R.bn_get(self.bn)
                    self.ck(got[0] == e, "input-modified", {"exponent-now": repr(got)}, al)
            self.run("%s|%s|%s" % (fn, ecls, bcls), [hx(ra), hx(e)], body)
        if len(agree) > 1:
            self.ctx.fail("fp_exp|%s|%s|%s|-|variants-disagree" % (ecls, bcls, self.name),
                          {"raw->functions": {hx(k): sorted(set(v)) for k, v in agree.items()}})

    def rand_case(self):
        R, c = self.R, self.c

        def body():
            R.fp_put_raw(c, self.Rr - 1)
            res = R.call("fp_rand", c)
            raw = R.fp_raw(c)
            self.ck(not res.caught and raw < self.p, "normal-form", {"raw": hx(raw)})
        self.run("fp_rand|", [], body)

    # =========================================================================================== workloads
    def directed(self):
        """every promised class is constructed here once per prime; cases are split round-robin over the shards"""
        ctx, p = self.ctx, self.p
        S = self.special
        i = 0
        for ra in S:
            for op in ("neg", "dbl", "hlv", "sqr", "trs"):
                if ctx.mine(i):
                    self.unary(op, ra)
                i += 1
            for rb in ((p - ra) % p, (p - ra + 1) % p, (p - ra - 1) % p, ra, 0, self.mont % p, p - 1, (ra + 1) % p):
                for op in ("add", "sub", "mul"):
                    if ctx.mine(i):
                        self.binary(op, ra, rb)
                    i += 1
                if ctx.mine(i):
                    self.rdc(ra, rb)
                    self.preds(ra, rb)
                i += 1
            for d in (0, 1, 2, (1 << 64) - 1, 1 << 63, self.val_of(ra) & ((1 << 64) - 1)):
                if ctx.mine(i):
                    self.dig_ops(ra, d)
                i += 1
            if ctx.mine(i):
                self.inv(ra)
            i += 1
            if ctx.mine(i):
                self.smb(ra)
                self.roots(ra)
                self.back(ra)
            i += 1
            for ecls, e in self.exponents():
                if ctx.mine(i):
                    self.exp(ra, ecls, e)
                i += 1
        # conversions from integers
        for v in (0, 1, -1, 2, p - 1, p, p + 1, -p, -p - 1, -p + 1, 2 * p, 2 * p - 1, p * p, p * p - 1, (1 << self.W) - 1,
                  1 << self.W, (1 << self.W) + 1, -(1 << self.W), (1 << (2 * self.W)) - 1, 1 << 64, (1 << 64) - 1,
                  -(1 << 64), p * ((1 << 64) - 1), 1 << (self.bits - 1), -(1 << 300) - 12345, (1 << 600) + 7):
            if ctx.mine(i):
                self.conv(v)
            i += 1
        # normalisation of non-reduced images
        # fp_norm reduces by repeated subtraction: its domain is an image a few multiples of p above the range
        # (a 224-bit field stored in 256 bits would need 2^32 subtractions for 2^256 - 1), so stay below 4p
        for raw in (0, 1, p - 1, p, p + 1, 2 * p - 1, 2 * p, 2 * p + 1, self.Rr - 1, self.Rr - 2, 3 * p, 4 * p - 1):
            if raw < min(self.Rr, 4 * p):
                if ctx.mine(i):
                    self.norm(raw)
                i += 1
        for s in (0, 1, 2, 63, 64, 65, 127, 128, self.W - 64, self.W - 1):
            for ra in (S[1], S[4], S[-1], S[len(S) // 2], 1, (1 << 64) - 1):
                if ctx.mine(i):
                    self.shifts(ra % p, s)
                i += 1
        # simultaneous inversion
        for k, (n, alias) in enumerate([(1, 0), (1, 1), (2, 0), (2, 1), (3, 0), (5, 1), (8, 0), (17, 1)]):
            if ctx.mine(i):
                raws = [S[(k * 7 + j * 3) % len(S)] or 1 for j in range(n)]
                self.inv_sim(raws, alias)
                z = list(raws)
                z[(k * 5) % n] = 0
                self.inv_sim(z, alias)
            i += 1
        if ctx.mine(i):
            self.rand_case()
        i += 1
        if ctx.mine(i):
            for ra, rb in self.quick_witnesses():
                self.rdc(ra, rb)

    def random(self, n):
        rng = self.rng
        light = ["bin"] * 9 + ["un"] * 6 + ["dig"] * 2 + ["rdc"] * 3 + ["pred"] + ["conv"] * 2 + ["back", "norm", "shift"]
        heavy = ["inv"] * 3 + ["smb"] * 2 + ["roots"] * 2 + ["exp"] * 3 + ["sim"]
        for it in range(n):
            kind = rng.choice(heavy) if it % 6 == 5 else rng.choice(light)
            ra = self.elem()
            if kind == "bin":
                self.binary(rng.choice(["add", "sub", "mul", "mul"]), ra, self.partner(ra))
            elif kind == "un":
                self.unary(rng.choice(["neg", "dbl", "hlv", "sqr", "sqr", "trs"]), ra)
            elif kind == "dig":
                d = self.digit()
                if rng.random() < 0.2:
                    ra = self.raw_of(d + rng.choice([-1, 0, 0, 1]))
                self.dig_ops(ra, d)
            elif kind == "rdc":
                self.rdc(ra, self.partner(ra))
            elif kind == "pred":
                self.preds(ra, self.partner(ra))
            elif kind == "conv":
                c = rng.randrange(6)
                v = rng.getrandbits(rng.choice([8, 64, self.bits - 1, self.W, self.W + 1, 2 * self.W, 2 * self.W + 70]))
                if c == 0:
                    v = self.p * rng.getrandbits(rng.choice([1, 8, 64, self.W])) + rng.choice([-1, 0, 1])
                if c == 1:
                    v = self.val_of(ra)
                if rng.random() < 0.3:
                    v = -v
                self.conv(v)
            elif kind == "back":
                self.back(ra)
            elif kind == "norm":
                raw = rng.choice([ra, ra + self.p, self.p + rng.randrange(3), self.Rr - 1 - rng.getrandbits(8),
                                  rng.getrandbits(self.W)])
                self.norm(raw % min(self.Rr, 4 * self.p))
            elif kind == "shift":
                self.shifts(ra, rng.choice([0, 1, 63, 64, 65, rng.randrange(self.W)]))
            elif kind == "inv":
                self.inv(ra)
            elif kind == "smb":
                self.smb(ra)
            elif kind == "roots":
                self.roots(ra)
            elif kind == "exp":
                ecls, e = rng.choice(self.exponents())
                self.exp(ra, ecls, e)
            else:
                n2 = rng.choice([1, 2, 3, 4, 7, 16])
                raws = [self.elem() or 1 for _ in range(n2)]
                if rng.random() < 0.15:
                    raws[rng.randrange(n2)] = 0
                self.inv_sim(raws, rng.randrange(2))


# -------------------------------------------------------------------------------------------------- run
def install(R, f):
    nm, sym, v = f
    r = R.call(sym, v)
    if r.caught:
        raise RuntimeError("cannot install %s" % nm)
    R.fp_setup()


def run(ctx, part):
    R = RT(ctx.cfg)
    R.strict_chain = True
    flds = enum_fields(R)
    if not flds:
        raise RuntimeError("no prime field accepted by this build")
    ctx.note("fields_" + ctx.cfg, [f[0] for f in flds])
    ctx.note("dispatch_" + ctx.cfg, {m: R.target(m) for m in ("fp_add", "fp_mul", "fp_sqr", "fp_rdc", "fp_inv", "fp_smb", "fp_exp")})
    absent = set()
    if part == "main":
        per = ctx.n(10000, 300000) // len(flds)
        for f in flds:
            install(R, f)
            F = Field(ctx, R, f[0])
            ctx.info.setdefault("primes", {})[f[0]] = hx(R.p)
            ctx.info.setdefault("representation", {})[f[0]] = "montgomery" if F.monty else "plain"
            ctx.info.setdefault("sparse_form_reduction_tested", {})[f[0]] = bool(F.sps_ok)
            F.directed()
            F.random(per)
            absent |= F.fn_absent
    ctx.note("functions_exercised", sorted(R.fn_seen))
    ctx.note("functions_not_built", sorted(absent))
    ctx.note("error_codes_seen", {str(k): v for k, v in R.err_codes.items()})


def finish(cov):
    cov["not_covered"] = ["fp_read_*/fp_write_*/fp_size_str (C07)", "fp_bits/fp_get_bit/fp_set_bit (representation-level "
                          "helpers without a Z/pZ meaning)", "fp_print/fp_param_print (output only)",
                          "fp_prime_set_*/fp_param_set_any* (C18 judges the installed constants)"]
