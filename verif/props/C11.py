"""C11 - extension-field curves: group law, [k]Q, Frobenius and cofactor clearing on E'(Fp2).

Oracle: model/epx.py (affine arithmetic over the Fp2 of model/tower.py, twist order derived from the
trace of Frobenius, square roots verified by squaring).  One part per pairing-friendly curve.
"""
import ctypes

from ..rt import RT, MonitorViolation
from ..ctx import hx
from ..model import epx

LEVEL = "exploration"
RULE = ("for each pairing curve the twist E'(Fp2) is rebuilt in Python from the reported constants; operands are "
        "written raw (affine, homogeneous and Jacobian forms with random Z in Fp2, the three encodings of the identity), "
        "every alias pattern, exceptional pairs (O, P=Q, P=-Q, distinct points with the same or the opposite y-coordinate "
        "(w*x, +-y) for the cube roots of unity w, points of small order, points outside the order-r "
        "subgroup constructed by solving the twist equation); scalars from a fixed hostile list (0, +-1, 2, digit-size "
        "edges, n-1, n, n+1, multiples of n, negative, powers of two, field-size edges, oversized, GLS axis values and all "
        "16 sign patterns of the four Frobenius sub-scalars) plus random ones; every result is compared as a group "
        "element with affine double-and-add of the model; a case is non-trivial when a finite point is involved; "
        "distinct = distinct (routine, class, operands, representation, alias)")
ASSUMPTIONS = ["Python integers / model.tower.Ext arithmetic is the reference for Fp2",
               "the curve constants (p, non-residues, b, b', generators, r, #E(Fp)) reported by the library define the "
               "curve under test; the model itself checks primality-independent facts: generators on curve and of order r, "
               "Hasse bound, CM discriminant 3, twist order confirmed on random points",
               "the twist is configured by R.pairing_set(); the type it passes to ep2_curve_set_twist() is cross-checked "
               "against the one the model derives from b' = b/xi (D) or b*xi (M)",
               "scalar policy of DESIGN.md section 3 (C03): 0 <= k < n must be exact and error-free; any other scalar may "
               "raise an error, never return a wrong point",
               "routines that reduce the scalar modulo r or use the Frobenius recoding (monty, lwnaf, lwreg, fix, sim, gen) "
               "are only given points of the order-r subgroup; basic/slide/dig/big/cof/frb/group law also get other twist "
               "points"]

SWEEP = [("BN_P382", "asan382"), ("BN_P446", "asan446"), ("B12_P377", "asan377"), ("BN_P638", "asan638"),
         ("B12_P638", "asan638")]


def parts(tier):
    q = tier == "quick"
    ps = [dict(part="BN_P256", cfg="asan256", shards=6 if q else 8),
          dict(part="SM9_P256", cfg="asan256", shards=5 if q else 8),
          dict(part="B12_P381", cfg="asan381", shards=5 if q else 8)]
    if not q:
        # sweep over the other field sizes that carry a quadratic twist (thorough tier only)
        ps += [dict(part=nm, cfg=cfg, shards=4) for nm, cfg in SWEEP]
    return ps


def pd(pt):
    """compact description of a model point"""
    if pt is None:
        return "O"
    return [hx(pt[0][0]), hx(pt[0][1]), hx(pt[1][0]), hx(pt[1][1])]


class Env(object):
    def __init__(self, ctx, R, M, xk):
        self.ctx, self.R, self.M, self.xk = ctx, R, M, xk
        self.rng = ctx.rng
        self.e = epx.Ep2(R)
        self.F2, self.E = M.F2, M.E2
        e = self.e
        self.REP = {"A": e.BASIC, "P": e.PROJC, "J": e.JACOB}
        self.TAG = {v: k for k, v in self.REP.items()}
        self.A, self.B, self.C, self.D = e.new(), e.new(), e.new(), e.new()
        self.L1, self.L2, self.L3 = e.new(), e.new(), e.new()      # scratch of wr_lib
        self.k, self.m = R.bn_new(), R.bn_new()
        self.nb = M.r.bit_length()
        self.FPB = R.K["RLC_FP_BITS"]
        self.cmp_len = e.oc + 4
        self.G = epx.Base(self.E, M.G2, M.r)
        # self test of the cached-doubling multiplication against plain double-and-add
        for _ in range(2):
            s = self.rng.randrange(M.r)
            assert self.E.eq(self.G.mul(s), self.E.mul(s, M.G2))
        self.G2x = self.G.mul(2)
        self.NAT = {"ep2_add_projc": "P", "ep2_add_jacob": "J", "ep2_add_basic": "A"}[R.target("ep2_add")]

    # ---------------------------------------------------------------- points
    def sub_base(self):
        """a random point of the order-r subgroup (model multiple of the generator) with cached doublings"""
        return epx.Base(self.E, self.G.mul(self.rng.randrange(2, self.M.r)), self.M.r)

    def randz(self):
        rng, p = self.rng, self.M.p
        c = rng.randrange(10)
        if c == 0:
            return (rng.randrange(1, p), 0)
        if c == 1:
            return (0, rng.randrange(1, p))
        if c == 2:
            return (1, 0)
        if c == 3:
            return (p - 1, rng.randrange(p))
        return (rng.randrange(1, p), rng.randrange(p))

    def wr_lib(self, obj, pt, order=None):
        """pt in the non-normalised representation the LIBRARY itself produces: obj receives the raw result object of
        ep2_add(U, V) with U + V = pt, of ep2_dbl(H) with 2H = pt (needs the order of pt) or of ep2_blind(pt), bytes and tag
        exactly as returned.  The result is read back and compared with the model; a producer that is itself wrong (judged
        by its own cases) makes this fall back to the written native form."""
        R, e, E, F2, rng = self.R, self.e, self.E, self.F2, self.rng
        how = rng.choice(["add", "add", "blind", "dbl" if order else "add"])
        if how == "add":
            V = self.G.mul(rng.randrange(1, 1 << 16))
            U = E.add(pt, E.neg(V))
            if U is None or E.eq(U, V):
                how = "blind"
            else:
                e.put(self.L1, U, F2)
                e.put(self.L2, V, F2)
                e.poison(self.L3)
                res = R.call("ep2_add", self.L3, self.L1, self.L2)
        if how == "dbl":
            e.put(self.L1, E.mul((order + 1) // 2, pt), F2)
            e.poison(self.L3)
            res = R.call("ep2_dbl", self.L3, self.L1)
        if how == "blind":
            e.put(self.L1, pt, F2)
            e.poison(self.L3)
            res = R.call("ep2_blind", self.L3, self.L1)
        try:
            got, coord, canon, z = e.get(self.L3, F2)
        except (ValueError, ZeroDivisionError):
            got = "bad"
        if res.caught or got == "bad" or got is None or not E.eq(got, pt):
            d = self.wr(obj, pt, self.NAT)
            d["fallback_from"] = how
            self.ctx.add("lib_projective_fallbacks", 1)
            return d
        self.ctx.add("lib_projective_inputs", 1)
        ctypes.memmove(obj, self.L3, e.sz)
        return {"rep": "L", "how": how, "tag": coord, "z": [hx(z[0]), hx(z[1])]}

    def wr(self, obj, pt, rep="A", inf=None, order=None):
        """write model point pt into obj in representation rep; returns the description of the encoding"""
        if rep == "L":
            if pt is None:
                rep = "A"
            else:
                return self.wr_lib(obj, pt, order)
        z = self.randz() if rep != "A" else None
        if pt is None and inf is None:
            inf = self.rng.choice(["lib", "lib", "proj"])
        self.e.put(obj, pt, self.F2, self.REP[rep], z, inf or "lib")
        return {"rep": rep, "z": [hx(z[0]), hx(z[1])] if z else None, "inf": inf if pt is None else None}

    def snap(self, obj, n=1):
        if n == 1:
            return self.R.get(obj, self.cmp_len)
        return b"".join(self.R.get(obj + i * self.e.sz, self.cmp_len) for i in range(n))

    def setk(self, obj, v):
        self.R.poison = self.rng.randrange(1, 256)
        self.R.bn_put(obj, v)

    def fits(self, v):
        return abs(v).bit_length() <= self.R.BN_SIZE * self.R.DIG

    # ---------------------------------------------------------------- verdicts
    def judge(self, out, exp, res, in_range=True, norm=False, what="value", basic=False):
        """result object `out` against the model point `exp`"""
        ctx = self.ctx
        key = ctx.cur_key
        if res.caught:
            ctx.check(not in_range, key + "|unexpected-error", {"err": res.err})
            self.canary()
            return None
        try:
            pt, coord, canon, z = self.e.get(out, self.F2)
        except (ValueError, ZeroDivisionError) as ex:
            ctx.fail(key + "|bad-tag", repr(ex))
            return None
        ok = ctx.check(self.E.eq(pt, exp), key + "|" + what, {"got": pd(pt), "exp": pd(exp), "coord": coord})
        ctx.check(canon, key + "|non-canonical", {"raw": repr(self.e.get_raw(out))[:300]})
        if norm or basic:
            ctx.check(coord == self.e.BASIC and (pt is None or tuple(z) == (1, 0)), key + "|not-normalised",
                      {"coord": coord, "z": [hx(z[0]), hx(z[1])]})
        return ok

    def unchanged(self, obj, before, n=1):
        self.ctx.check(self.snap(obj, n) == before, self.ctx.cur_key + "|input-modified")

    def canary(self):
        """after an error the library must still compute: G + G = 2G"""
        self.e.put(self.D, self.M.G2, self.F2)
        r = self.R.call("ep2_dbl_projc", self.D, self.D)
        try:
            pt = self.e.get(self.D, self.F2)[0]
        except (ValueError, ZeroDivisionError):
            pt = "bad"
        self.ctx.check((not r.caught) and pt != "bad" and self.E.eq(pt, self.G2x),
                       self.ctx.cur_key + "|unusable-after-error")


# ------------------------------------------------------------------------------------------- scalars
def scalars(env):
    """-> list of (class, value): the fixed hostile list"""
    M, rng = env.M, env.rng
    n, nb, lam, u = M.r, env.nb, M.lam, abs(M.par)
    FPB = env.FPB
    L = []

    def add(c, *vs):
        for v in vs:
            L.append((c, v))
    add("zero", 0)
    add("one", 1)
    add("small", 2, 3, 5, 0xFFFF)
    add("dig-edge", 1 << 63, (1 << 64) - 1, 1 << 64, (1 << 64) + 1)
    add("n-1", n - 1)
    add("n", n)
    add("n+1", n + 1)
    add("mult-n", 2 * n, 3 * n, n << 64)
    add("near-mult-n", 2 * n + 3, 2 * n - 1, 5 * n + 2)
    add("neg-small", -1, -2, -0xFFFF)
    add("neg-dig-edge", -((1 << 64) - 1), -(1 << 64))
    add("neg-n", -(n - 1), -n, -(n + 1), -(2 * n + 3))
    add("neg", -rng.randrange(n), -rng.randrange(1 << 128))
    add("pow2", 1 << (nb - 1), 1 << (nb - 2), 1 << 128, 1 << 65)
    add("pow2-1", (1 << (nb - 1)) - 1, (1 << 128) - 1)
    alt = int("aa" * ((nb + 7) // 8), 16) & ((1 << (nb - 1)) - 1)
    add("alt", alt, alt >> 1)
    add("fp-edge", (1 << FPB) - 1, 1 << FPB, (1 << FPB) + 1, (1 << (FPB + 1)) + 1)
    add("over", n * n, rng.getrandbits(2 * nb) | (1 << (2 * nb - 1)), rng.getrandbits(2 * FPB + 9) | (1 << (2 * FPB + 8)))
    add("huge", rng.getrandbits(env.R.BN_SIZE * env.R.DIG - 200) | (1 << (env.R.BN_SIZE * env.R.DIG - 201)))
    for j in range(4):
        lj = pow(lam, j, n)
        for c in (1, 2, -1, u, u - 1, u + 1, 1 << 62):
            add("gls-axis%d" % j, c * lj % n)
    for pat in range(16):
        v = 0
        for i in range(4):
            c = rng.getrandbits(rng.choice([8, 40, 60]))
            v += (-c if (pat >> i) & 1 else c) * pow(lam, i, n)
        add("gls-signs%x" % pat, v % n)
    add("rand", rng.randrange(n), rng.randrange(n), rng.randrange(n))
    return L


GROUP = {"zero": "zero", "one": "one", "small": "small", "dig-edge": "small", "n-1": "n-ish", "n": "n-ish", "n+1": "n-ish",
         "mult-n": "n-ish", "near-mult-n": "n-ish", "over": "over", "huge": "over"}


def group(c):
    """coarse scalar group used in the keys of two-scalar routines"""
    if c.startswith("neg"):
        return "neg"
    return GROUP.get(c, "big")


def kcls(c):
    """key class of a scalar class: the sign pattern / axis index of GLS values stays in the description only"""
    if c.startswith("gls-signs"):
        return "gls-signs"
    if c.startswith("gls-axis"):
        return "gls-axis"
    return c


def rand_scalar(env):
    """random scalar with its class"""
    M, rng = env.M, env.rng
    n = M.r
    c = rng.randrange(12)
    if c < 6:
        return "rand", rng.randrange(n)
    if c == 6:
        return "neg", -rng.randrange(n)
    if c == 7:
        return "over", rng.getrandbits(rng.randrange(env.nb + 1, 2 * env.nb)) | (1 << env.nb)
    if c == 8:
        return "near-mult-n", rng.randrange(1, 9) * n + rng.randrange(-3, 4)
    if c == 9:
        return "sparse", (1 << rng.randrange(env.nb - 1)) | (1 << rng.randrange(env.nb - 1)) | rng.getrandbits(3)
    if c == 10:
        j = rng.randrange(4)
        return "gls-axis%d" % j, rng.getrandbits(62) * pow(M.lam, j, n) % n
    pat = rng.randrange(16)
    v = 0
    for i in range(4):
        cc = rng.getrandbits(rng.choice([1, 20, 62]))
        v += (-cc if (pat >> i) & 1 else cc) * pow(M.lam, i, n)
    return "gls-signs%x" % pat, v % n


# ------------------------------------------------------------------------------------------- run
def run(ctx, part):
    R = RT(ctx.cfg)
    R.strict_chain = True
    X = epx.X(R)
    xk = X.K
    M = epx.activate(R, part, X)
    env = Env(ctx, R, M, xk)
    rng, e, E, F2, K = ctx.rng, env.e, M.E2, M.F2, R.K
    n = M.r
    A, B, C = env.A, env.B, env.C
    BAS = e.BASIC
    ctx.note("parameter_sets", [part])
    ctx.note("model", {part: {"twist": M.twist, "h2_bits": M.h2.bit_length(), "h2_equals_ep2_curve_get_cof": M.h2 == M.lib_h2,
                              "small_factors_h2": [q for q, _ in M.small2()], "pairf": M.pairf,
                              "dispatch": {m: R.target(m) for m in ("ep2_add", "ep2_dbl", "ep2_mul", "ep2_mul_pre",
                                                                     "ep2_mul_fix", "ep2_mul_sim", "ep2_mul_big")}}})
    notbuilt = set()
    sweep = part in [nm for nm, _ in SWEEP]

    def N(q, t):
        """case count; the sweep curves (thorough tier, larger fields, slower model) get a reduced random workload"""
        v = ctx.n(q, t)
        return max(1, v // 8) if sweep else v

    def has(fn):
        if R.has(fn):
            return True
        notbuilt.add(fn)
        return False

    # ---- point pool
    S = [env.sub_base() for _ in range(3)]                 # random subgroup points
    T = [epx.Base(E, M.rand_point2(rng)) for _ in range(3)]   # random twist points
    for t in T:
        assert E.mul(n, t.P) is not None, "random twist point fell into the subgroup"
    small = []
    for q, _ in M.small2()[:4]:
        pt = M.point_of_order(2, q, rng)
        if pt is not None:
            small.append((q, pt))
    ctx.note("small_order_points", {part: [q for q, _ in small]})

    def anypoint():
        c = rng.randrange(10)
        if c < 4:
            return "sub", rng.choice(S).P
        if c < 5:
            return "sub", env.G.mul(rng.randrange(1, 6))
        if c < 8:
            return "tw", rng.choice(T).P
        if c < 9 and small:
            return "small", rng.choice(small)[1]
        return "sub", M.G2

    NAT = {"ep2_add_projc": "P", "ep2_add_jacob": "J", "ep2_add_basic": "A"}[R.target("ep2_add")]
    ctx.note("native_projective_system", {part: NAT})
    case = [0]

    def mine():
        case[0] += 1
        return ctx.mine(case[0])

    def guard(fn):
        """run one case body; monitor violations become failures"""
        try:
            fn()
        except MonitorViolation as ex:
            ctx.fail((ctx.cur_key or "?") + "|" + ex.kind, ex.detail)
        finally:
            ctx.end()

    # ---- helpers shared by the multiplication sections (defined early: the fatal directed class runs first)
    def in_range(k):
        return 0 <= k < n

    def pick_point(pcls):
        """-> (Base, representation)"""
        if pcls == "G":
            return env.G, "A"
        if pcls == "sub":
            return rng.choice(S), "A"
        if pcls == "subN":            # native projective system of this build (what ep2_add produces)
            return rng.choice(S), NAT
        if pcls == "subL":            # raw result object of ep2_add / ep2_dbl / ep2_blind (library-produced projective form)
            return rng.choice(S), "L"
        if pcls == "tw":
            return rng.choice(T), "A"
        if pcls == "twN":
            return rng.choice(T), NAT
        if pcls == "twL":
            return rng.choice(T), "L"
        if pcls == "small":
            return epx.Base(E, rng.choice(small)[1]), "A"
        return epx.Base(E, None), "A"

    hostile_pairs = [("zero", 0), ("one", 1), ("small", 2), ("small", 3), ("n-1", n - 1), ("n", n), ("n+1", n + 1),
                     ("near-mult-n", 2 * n + 3), ("neg-small", -1), ("neg-n", -n), ("neg", -rng.randrange(n)),
                     ("pow2", 1 << (env.nb - 1)), ("fp-edge", (1 << env.FPB) - 1), ("over", n * n),
                     ("rand", rng.randrange(n)), ("rand", rng.randrange(n))]

    def trick_fatal(k):
        """bn_rec_win(…, w = RLC_WIDTH / 2) is entered with k mod n; values shorter than w bits are its own class"""
        return k != 0 and (k % n).bit_length() < max(1, K["RLC_WIDTH"] // 2)

    def sim_case(fn, rel, kc, k, mc, m, alias=0, reps="AA"):
        def body():
            if not (env.fits(k) and env.fits(m)):
                return
            bp = rng.choice(S + [env.G])
            P = bp.P
            if rel == "gen":
                bq = rng.choice([b for b in S + [env.G] if b is not bp])
            elif rel == "P=Q":
                bq = bp
            elif rel == "P=-Q":
                bq = epx.Base(E, E.neg(P), n)
            elif rel == "infP":
                bq, bp = bp, epx.Base(E, None)
            elif rel == "infQ":
                bq = epx.Base(E, None)
            else:
                bp = bq = epx.Base(E, None)
            g0, g1 = sorted((group(kc), group(mc)))
            key = "%s|%s|%s,%s%s%s" % (fn, rel, g0, g1, "" if reps == "AA" else ("|lib-proj" if "L" in reps else "|proj"),
                                       "|alias" if alias else "")
            if fn == "ep2_mul_sim_trick" and bp.P is not None and bq.P is not None and (trick_fatal(k) or trick_fatal(m)):
                key = "ep2_mul_sim_trick|short-window"
            rmap = {"A": "A", "N": NAT, "L": "L"}
            da = env.wr(A, bp.P, rmap[reps[0]], order=bp.order)
            db = env.wr(B, bq.P, rmap[reps[1]], order=bq.order)
            env.setk(env.k, k)
            env.setk(env.m, m)
            if not ctx.begin(key, {"P": pd(bp.P), "Q": pd(bq.P), "a": da, "b": db, "k": hx(k), "m": hx(m),
                                   "kclass": [kc, mc], "alias": alias}, nontrivial=not (bp.P is None and bq.P is None)):
                return
            e.poison(C)
            out = {0: C, 1: A, 2: B}[alias]
            sa, sb = env.snap(A), env.snap(B)
            res = R.call(fn, out, A, env.k, B, env.m)
            env.judge(out, E.add(bp.mul(k), bq.mul(m)), res, in_range=in_range(k) and in_range(m), norm=True)
            if out != A:
                env.unchanged(A, sa)
            if out != B:
                env.unchanged(B, sb)
        guard(body)

    def trick_directed():
        """k or m congruent to 0 or 1 modulo n: directed only (fatal on a tree where bn_rec_win underflows); one key, so
        that after a sanitizer report the remaining ones are skipped; executed first, by shard 0"""
        for kc, k, mc, m in (("one", 1, "rand", rng.randrange(2, n)), ("rand", rng.randrange(2, n), "n+1", n + 1),
                             ("n", n, "rand", rng.randrange(2, n)), ("one", 1, "one", 1)):
            sim_case("ep2_mul_sim_trick", "gen", kc, k, mc, m)

    if ctx.shard == 0 and has("ep2_mul_sim_trick"):
        trick_directed()

    # =========================================================================== group law
    def native(fn):
        return "P" if fn.endswith("projc") else ("J" if fn.endswith("jacob") else ("A" if fn.endswith("basic") else
               {"ep2_add_projc": "P", "ep2_add_jacob": "J", "ep2_add_basic": "A"}[R.target("ep2_add")]))

    # primitive cube roots of unity of Fp2: (w x, y) lies on y^2 = x^3 + b' whenever (x, y) does (the twists have a = 0),
    # a DISTINCT point with the SAME y-coordinate - the branch "H != 0, R == 0" of the projective addition formulas
    assert (M.p * M.p - 1) % 3 == 0
    W3 = None
    while W3 is None or F2.eq(W3, F2.one):
        W3 = F2.pow(F2.rand(rng), (M.p * M.p - 1) // 3)
    W3 = [W3, F2.mul(W3, W3)]
    assert all(F2.eq(F2.mul(F2.mul(w_, w_), w_), F2.one) and not F2.eq(w_, F2.one) for w_ in W3)

    def add_case(fn, rel, ra, rb, alias, Pp=None):
        """rel: gen eq opp same-y same-neg-y infP infQ infPQ ; alias: 0 none, 1 r==p, 2 r==q, 3 p==q (same object),
        4 r==p==q"""
        def body():
            pc, P = anypoint() if Pp is None else Pp
            if rel == "gen":
                Q = anypoint()[1]
                if E.eq(P, Q) or E.eq(P, E.neg(Q)):
                    Q = E.add(Q, M.G2)
            elif rel == "eq":
                Q = P
            elif rel == "opp":
                Q = E.neg(P)
            elif rel in ("same-y", "same-neg-y"):
                # x1 != x2, y1 == +-y2 (for ep2_sub the inner addition sees the same y with "same-neg-y")
                Q = (F2.mul(rng.choice(W3), P[0]), P[1] if rel == "same-y" else F2.neg(P[1]))
                assert E.on_curve(Q) and not F2.eq(Q[0], P[0])
            elif rel == "infP":
                P, Q = None, P
            elif rel == "infQ":
                Q = None
            else:
                P, Q = None, None
            sub = fn == "ep2_sub"
            exp = E.add(P, E.neg(Q)) if sub else E.add(P, Q)
            al = alias
            if al in (3, 4) and not (rel in ("eq", "infPQ") and ra == rb):
                al = 0
            rels = rel if rel in ("gen", "eq", "opp", "same-y", "same-neg-y") else "inf"
            if rels == "eq" and pc == "small":
                rels = "eq-small-order"
            key = "%s|%s|%s%s|alias%d" % (fn, rels, ra, rb, al)
            if al in (3, 4):
                da = env.wr(A, P, ra)
                pa = pb = A
                db = da
            else:
                da = env.wr(A, P, ra)
                db = env.wr(B, Q, rb)
                pa, pb = A, B
            if not ctx.begin(key, {"P": pd(P), "Q": pd(Q), "a": da, "b": db}, nontrivial=not (P is None and Q is None)):
                return
            e.poison(C)
            out = {0: C, 1: pa, 2: pb, 3: C, 4: pa}[al]
            sa, sb = env.snap(pa), env.snap(pb)
            if fn.endswith("slp_basic"):
                s = R.fpx_new(2, [0, 0])
                res = R.call(fn, out, s, pa, pb)
                R.free(s)
            else:
                res = R.call(fn, out, pa, pb)
            env.judge(out, exp, res, basic=fn.endswith("basic"))
            if out != pa:
                env.unchanged(pa, sa)
            if out != pb:
                env.unchanged(pb, sb)
        guard(body)

    def dbl_case(fn, ra, alias, inf=False):
        def body():
            pc, P = anypoint()
            if inf:
                P = None
            key = "%s|%s|%s|alias%d" % (fn, "inf" if inf else ("small-order" if pc == "small" else "fin"), ra, alias)
            da = env.wr(A, P, ra)
            if not ctx.begin(key, {"P": pd(P), "a": da}, nontrivial=P is not None):
                return
            e.poison(C)
            out = A if alias else C
            sa = env.snap(A)
            if fn.endswith("slp_basic"):
                s = R.fpx_new(2, [0, 0])
                res = R.call(fn, out, s, A)
                if not res.caught and P is not None and not F2.is_zero(P[1]):
                    sl = tuple(R.fpx_get(s, 2)[0])
                    x2 = F2.mul(P[0], P[0])
                    ctx.check(F2.eq(F2.mul(sl, F2.add(P[1], P[1])), F2.add(F2.add(x2, x2), x2)), key + "|slope")
                R.free(s)
            else:
                res = R.call(fn, out, A)
            env.judge(out, E.add(P, P), res, basic=fn.endswith("basic"))
            if not alias:
                env.unchanged(A, sa)
        guard(body)

    addfns = [f for f in ("ep2_add_basic", "ep2_add_projc", "ep2_add_jacob", "ep2_add", "ep2_sub", "ep2_add_slp_basic")
              if has(f)]
    dblfns = [f for f in ("ep2_dbl_basic", "ep2_dbl_projc", "ep2_dbl_jacob", "ep2_dbl", "ep2_dbl_slp_basic") if has(f)]

    def tags_for(fn):
        nat = native("ep2_add" if fn == "ep2_sub" else fn.replace("_slp", ""))
        return ["A"] if nat == "A" else ["A", nat]

    for fn in addfns:
        tg = tags_for(fn)
        for rel in ("gen", "eq", "opp", "same-y", "same-neg-y", "infP", "infQ", "infPQ"):
            for ra in tg:
                for rb in tg:
                    for alias in (0, 1, 2, 3, 4):
                        if alias in (3, 4) and not (rel in ("eq", "infPQ") and ra == rb):
                            continue
                        if mine():
                            add_case(fn, rel, ra, rb, alias)
    if small:
        # P + P and P + 2P = O, P + (-2P) for a point of order 3 or another small order
        for fn in addfns:
            for q, pt in small[:2]:
                if mine():
                    add_case(fn, "eq", "A", "A", 0, ("small", pt))
                if mine():
                    add_case(fn, "gen", tags_for(fn)[-1], "A", 1, ("small", pt))
    for fn in dblfns:
        for ra in tags_for(fn.replace("dbl", "add")):
            for alias in (0, 1):
                for inf in (False, True):
                    if mine():
                        dbl_case(fn, ra, alias, inf)
    for _ in range(N(320, 6000)):
        fn = rng.choice(addfns)
        tg = tags_for(fn)
        add_case(fn, rng.choice(["gen", "gen", "gen", "eq", "opp", "same-y", "same-neg-y", "infP", "infQ", "infPQ"]),
                 rng.choice(tg), rng.choice(tg),
                 rng.randrange(5))
    for _ in range(N(120, 2000)):
        fn = rng.choice(dblfns)
        dbl_case(fn, rng.choice(tags_for(fn.replace("dbl", "add"))), rng.randrange(2), rng.random() < 0.1)

    # ---- neg, norm, norm_sim, cmp, on_curve
    def unary_case(fn, ra, alias, inf=False):
        def body():
            pc, P = anypoint()
            if inf:
                P = None
            key = "%s|%s|%s|alias%d" % (fn, "inf" if inf else "fin", ra, alias)
            da = env.wr(A, P, ra)
            if not ctx.begin(key, {"P": pd(P), "a": da}, nontrivial=P is not None):
                return
            e.poison(C)
            out = A if alias else C
            sa = env.snap(A)
            res = R.call(fn, out, A)
            exp = E.neg(P) if fn == "ep2_neg" else P
            env.judge(out, exp, res, norm=(fn == "ep2_norm"))
            if not alias:
                env.unchanged(A, sa)
        guard(body)

    for fn in ("ep2_neg", "ep2_norm", "ep2_copy"):
        if not has(fn):
            continue
        for ra in ("A", "P", "J"):
            for alias in (0, 1):
                for inf in (False, True):
                    if mine():
                        unary_case(fn, ra, alias, inf)
    for _ in range(N(90, 1500)):
        unary_case(rng.choice(["ep2_neg", "ep2_norm"]), rng.choice("APJ"), rng.randrange(2), rng.random() < 0.1)

    def norm_sim_case(cnt, inplace, with_inf):
        def body():
            pts = [anypoint()[1] for _ in range(cnt)]
            if with_inf:
                pts[rng.randrange(cnt)] = None
            key = "ep2_norm_sim|%s|%s" % ("with-inf" if with_inf else "finite", "inplace" if inplace else "separate")
            src = e.new(cnt)
            dst = src if inplace else e.new(cnt)
            reps = [rng.choice("APJ") for _ in range(cnt)]
            ds = [env.wr(e.at(src, i), pts[i], reps[i]) for i in range(cnt)]
            try:
                if not ctx.begin(key, {"pts": [pd(x) for x in pts], "enc": ds}, nontrivial=True):
                    return
                ss = env.snap(src, cnt)
                res = R.call("ep2_norm_sim", dst, src, cnt)
                if res.caught:
                    ctx.check(False, key + "|unexpected-error", {"err": res.err})
                    env.canary()
                    return
                for i in range(cnt):
                    try:
                        pt, coord, canon, z = e.get(e.at(dst, i), F2)
                    except (ValueError, ZeroDivisionError) as ex:
                        ctx.fail(key + "|bad-tag", repr(ex))
                        continue
                    ctx.check(E.eq(pt, pts[i]), key + "|value", {"i": i, "got": pd(pt), "exp": pd(pts[i])})
                    ctx.check(pt is None or (coord == BAS and tuple(z) == (1, 0)), key + "|not-normalised", {"i": i})
                if not inplace:
                    env.unchanged(src, ss, cnt)
            finally:
                R.free(src)
                if not inplace:
                    R.free(dst)
        guard(body)

    if has("ep2_norm_sim"):
        for cnt in (1, 2, 3, 7):
            for inplace in (0, 1):
                if mine():
                    norm_sim_case(cnt, inplace, False)
        for inplace in (0, 1):
            if mine():
                norm_sim_case(3, inplace, True)
        for _ in range(N(24, 400)):
            norm_sim_case(rng.randrange(1, 9), rng.randrange(2), False)

    def cmp_case(rel, ra, rb):
        def body():
            pc, P = anypoint()
            if rel == "eq":
                Q = P
            elif rel == "opp":
                Q = E.neg(P)
            elif rel == "ne":
                Q = E.add(P, M.G2)
            elif rel == "inf-fin":
                P, Q = None, P
            elif rel == "fin-inf":
                Q = None
            else:
                P = Q = None
            key = "ep2_cmp|%s|%s%s" % (rel, ra, rb)
            da, db = env.wr(A, P, ra), env.wr(B, Q, rb)
            if not ctx.begin(key, {"P": pd(P), "Q": pd(Q), "a": da, "b": db}, nontrivial=not (P is None and Q is None)):
                return
            sa, sb = env.snap(A), env.snap(B)
            res = R.call("ep2_cmp", A, B)
            exp = K["RLC_EQ"] if E.eq(P, Q) else K["RLC_NE"]
            ctx.check((not res.caught) and res.i == exp, key + "|value", {"got": res.i, "exp": exp, "caught": res.caught})
            env.unchanged(A, sa)
            env.unchanged(B, sb)
        guard(body)

    for rel in ("eq", "opp", "ne", "inf-fin", "fin-inf", "inf-inf"):
        for ra in "APJ":
            for rb in "APJ":
                if mine():
                    cmp_case(rel, ra, rb)
    for _ in range(N(80, 1500)):
        cmp_case(rng.choice(["eq", "eq", "opp", "ne", "inf-fin", "fin-inf", "inf-inf"]), rng.choice("APJ"), rng.choice("APJ"))

    def oncurve_case(kind, ra):
        def body():
            pc, P = anypoint()
            exp = 1
            if kind == "inf":
                P = None
            elif kind != "on":
                x, y = P
                d = (rng.randrange(1, M.p), rng.randrange(M.p)) if kind == "off-y" else (rng.randrange(1, M.p), 0)
                P = (x, F2.add(y, d)) if kind == "off-y" else (F2.add(x, d), y)
                exp = 1 if E.on_curve(P) else 0
            key = "ep2_on_curve|%s|%s" % (kind, ra)
            da = env.wr(A, P, ra)
            if not ctx.begin(key, {"P": pd(P), "a": da}, nontrivial=P is not None):
                return
            sa = env.snap(A)
            res = R.call("ep2_on_curve", A)
            ctx.check((not res.caught) and (res.i != 0) == bool(exp), key + ("|accepted" if not exp else "|rejected"),
                      {"got": res.i, "caught": res.caught})
            env.unchanged(A, sa)
        guard(body)

    for kind in ("on", "off-y", "off-x", "inf"):
        for ra in "APJ":
            if mine():
                oncurve_case(kind, ra)
    for _ in range(N(60, 1000)):
        oncurve_case(rng.choice(["on", "off-y", "off-x"]), rng.choice("APJ"))

    # =========================================================================== scalar multiplication
    SC = scalars(env)

    SUBONLY = ("ep2_mul_monty", "ep2_mul_lwnaf", "ep2_mul_lwreg", "ep2_mul")

    def mul_case(fn, scls, k, pcls, alias=0):
        def body():
            if not env.fits(k):
                return
            base, rep = pick_point(pcls)
            key = "%s|%s|%s%s" % (fn, kcls(scls), "sub" if pcls == "G" else pcls, "|alias" if alias else "")
            da = env.wr(A, base.P, rep, order=base.order)
            env.setk(env.k, k)
            if not ctx.begin(key, {"P": pd(base.P), "a": da, "k": hx(k), "kclass": scls, "pclass": pcls},
                             nontrivial=base.P is not None and k != 0):
                return
            e.poison(C)
            out = A if alias else C
            sa = env.snap(A)
            res = R.call(fn, out, A, env.k)
            env.judge(out, base.mul(k), res, in_range=in_range(k), norm=True)
            if not alias:
                env.unchanged(A, sa)
            ctx.check(R.bn_val(env.k) == k, key + "|input-modified")
        guard(body)

    mulfns = [f for f in ("ep2_mul_basic", "ep2_mul_slide", "ep2_mul_monty", "ep2_mul_lwnaf", "ep2_mul_lwreg", "ep2_mul",
                          "ep2_mul_big") if has(f)]
    for fn in mulfns:
        for i, (scls, k) in enumerate(SC):
            if mine():
                mul_case(fn, scls, k, "G" if i % 2 == 0 else "sub")
        # points of small order: only the plain double-and-add routines that the cofactor map and the membership
        # tests apply to arbitrary curve points (window tables of such points contain the identity)
        pcl = ["inf", "subN", "subL"] + ([] if fn in SUBONLY else ["tw", "twN", "twL"] +
                                 (["small"] if small and fn in ("ep2_mul_basic", "ep2_mul_big") else []))
        for pcls in pcl:
            for scls, k in (("zero", 0), ("one", 1), ("small", 3), ("n-1", n - 1), ("n", n), ("neg-small", -2),
                            ("rand", rng.randrange(n)), ("over", n * n + 5)):
                if pcls in ("tw", "twN", "twL", "small") and abs(k) > (1 << (env.nb + 2)):
                    continue
                if mine():
                    mul_case(fn, scls, k, pcls)
        if mine():
            mul_case(fn, "rand", rng.randrange(n), "sub", alias=1)
        if mine():
            mul_case(fn, "neg", -rng.randrange(n), "G", alias=1)
    for _ in range(N(340, 6000)):
        fn = rng.choice(mulfns)
        scls, k = rand_scalar(env)
        pcls = rng.choice(["G", "sub", "sub", "subN", "subL"] + ([] if fn in SUBONLY else ["tw", "tw", "twN", "twL"]))
        mul_case(fn, scls, k, pcls, alias=int(rng.random() < 0.2))

    # ---- generator, digit
    def gen_case(scls, k):
        def body():
            if not env.fits(k):
                return
            key = "ep2_mul_gen|%s" % kcls(scls)
            env.setk(env.k, k)
            if not ctx.begin(key, {"k": hx(k), "kclass": scls}, nontrivial=k != 0):
                return
            e.poison(C)
            res = R.call("ep2_mul_gen", C, env.k)
            env.judge(C, env.G.mul(k), res, in_range=in_range(k), norm=True)
        guard(body)

    if has("ep2_mul_gen"):
        for scls, k in SC:
            if mine():
                gen_case(scls, k)
        for _ in range(N(50, 800)):
            gen_case(*rand_scalar(env))

    def dig_case(d, pcls, alias=0):
        def body():
            base, rep = pick_point(pcls)
            dc = "zero" if d == 0 else ("one" if d == 1 else ("top-bit" if d >> 63 else "dig"))
            key = "ep2_mul_dig|%s|%s%s" % (dc, pcls, "|alias" if alias else "")
            da = env.wr(A, base.P, rep, order=base.order)
            if not ctx.begin(key, {"P": pd(base.P), "a": da, "k": hx(d)}, nontrivial=base.P is not None and d != 0):
                return
            e.poison(C)
            out = A if alias else C
            sa = env.snap(A)
            res = R.call("ep2_mul_dig", out, A, d)
            env.judge(out, base.mul(d), res, norm=True)
            if not alias:
                env.unchanged(A, sa)
        guard(body)

    if has("ep2_mul_dig"):
        for d in (0, 1, 2, 3, 0xFFFF, 1 << 32, 1 << 63, (1 << 64) - 1, (1 << 63) + 1, 0xAAAAAAAAAAAAAAAA):
            for pcls in ("G", "sub", "subN", "subL", "tw", "inf"):
                if mine():
                    dig_case(d, pcls)
        for _ in range(N(50, 800)):
            dig_case(rng.getrandbits(rng.choice([3, 17, 64, 64])), rng.choice(["G", "sub", "subN", "subL", "tw", "twN", "twL"]),
                     int(rng.random() < 0.2))

    # =========================================================================== fixed base
    def fix_family(v, base, pcls, klist, prep="A"):
        pre, fix = ("ep2_mul_pre", "ep2_mul_fix") if v == "macro" else ("ep2_mul_pre_" + v, "ep2_mul_fix_" + v)
        if not (has(pre) and has(fix)):
            return
        tv = R.target(pre).replace("ep2_mul_pre_", "").upper()
        size = xk["RLC_EPX_TABLE_" + tv]
        R.poison = rng.randrange(1, 256)
        tab = e.new(size)
        state = {"ok": False}

        def body_pre():
            key = "%s|%s" % (pre, pcls)
            da = env.wr(A, base.P, prep, order=base.order)
            began = ctx.begin(key, {"P": pd(base.P), "a": da, "table": size}, nontrivial=base.P is not None)
            if not began and ctx.only is None:
                return                      # this precomputation crashed earlier in the run: skip the family
            sa = env.snap(A)
            res = R.call(pre, tab, A)       # (in a replay of one of the family's cases the table is still needed)
            if began:
                ctx.check(not res.caught, key + "|unexpected-error", {"err": res.err})
                env.unchanged(A, sa)
            state["ok"] = not res.caught
        guard(body_pre)
        try:
            if not state["ok"]:
                return
            for scls, k in klist:
                def body(scls=scls, k=k):
                    if not env.fits(k):
                        return
                    key = "%s|%s|%s" % (fix, kcls(scls), pcls)
                    env.setk(env.k, k)
                    if not ctx.begin(key, {"P": pd(base.P), "k": hx(k), "kclass": scls},
                                     nontrivial=base.P is not None and k != 0):
                        return
                    e.poison(C)
                    res = R.call(fix, C, tab, env.k)
                    env.judge(C, base.mul(k), res, in_range=in_range(k), norm=True)
                guard(body)
        finally:
            R.free(tab)

    fi = 0
    for v in ("basic", "combs", "combd", "lwnaf", "macro"):
        # the hostile list is split over the shards; every shard builds its own table
        mineSC = [sc for i, sc in enumerate(SC) if ctx.mine(i + fi)]
        fi += 1
        fix_family(v, env.G, "G", mineSC + [rand_scalar(env) for _ in range(N(12, 300))])
        fix_family(v, rng.choice(S), "sub", [sc for i, sc in enumerate(SC) if ctx.mine(i + fi + 2) and i % 3 == 0] +
                   [rand_scalar(env) for _ in range(N(12, 300))])
        if ctx.mine(fi):
            fix_family(v, epx.Base(E, None), "inf", [("zero", 0), ("one", 1), ("rand", rng.randrange(n))])
        # tables built from a point in projective form (written native form / raw library result)
        for pj, (pcl_, prep_) in enumerate((("subN", NAT), ("subL", "L"))):
            if ctx.mine(fi + pj + 1):
                fix_family(v, rng.choice(S), pcl_, [("one", 1), ("n-1", n - 1), ("neg", -rng.randrange(n))] +
                           [rand_scalar(env) for _ in range(N(5, 100))], prep=prep_)

    # =========================================================================== simultaneous
    simfns = [f for f in ("ep2_mul_sim_basic", "ep2_mul_sim_trick", "ep2_mul_sim_inter", "ep2_mul_sim_joint", "ep2_mul_sim")
              if has(f)]
    for fn in simfns:
        for i, (kc, k) in enumerate(hostile_pairs):
            for j in (0, 3, 5, 7, 11):
                mc, m = hostile_pairs[(i + j) % len(hostile_pairs)]
                if fn == "ep2_mul_sim_trick" and (trick_fatal(k) or trick_fatal(m)):
                    continue    # produced by the directed cases below only
                if mine():
                    sim_case(fn, "gen", kc, k, mc, m)
        for rel in ("P=Q", "P=-Q", "infP", "infQ", "infPQ"):
            for kc, k, mc, m in (("rand", rng.randrange(n), "rand", rng.randrange(n)), ("small", 5, "small", 5),
                                 ("rand", 12345678901234567890123, "neg", -12345678901234567890123),
                                 ("zero", 0, "rand", rng.randrange(n)), ("n-1", n - 1, "small", 2)):
                if mine():
                    sim_case(fn, rel, kc, k, mc, m)
        for reps in ("NA", "AN", "NN", "LA", "AL", "LL", "LN"):
            if mine():
                sim_case(fn, "gen", "rand", rng.randrange(n), "rand", rng.randrange(n), reps=reps)
        for reps in ("NN", "LL"):
            for rel in ("P=Q", "P=-Q"):
                if mine():
                    sim_case(fn, rel, "rand", rng.randrange(n), "rand", rng.randrange(n), reps=reps)
        for alias in (1, 2):
            if mine():
                sim_case(fn, "gen", "rand", rng.randrange(n), "rand", rng.randrange(n), alias=alias)
    for _ in range(N(220, 4000)):
        fn = rng.choice(simfns)
        kc, k = rand_scalar(env)
        mc, m = rand_scalar(env)
        if fn == "ep2_mul_sim_trick" and (trick_fatal(k) or trick_fatal(m)):
            continue
        sim_case(fn, rng.choice(["gen"] * 6 + ["P=Q", "P=-Q", "infP", "infQ"]), kc, k, mc, m, alias=rng.choice([0, 0, 0, 1, 2]),
                 reps=rng.choice(["AA", "AA", "AA", "NA", "AN", "NN", "LA", "AL", "LL"]))

    def simgen_case(kc, k, mc, m, qcls="sub"):
        def body():
            if not (env.fits(k) and env.fits(m)):
                return
            bq, rep = pick_point(qcls)
            key = "ep2_mul_sim_gen|%s,%s|%s" % (group(kc), group(mc), "sub" if qcls == "G" else qcls)
            db = env.wr(B, bq.P, rep, order=bq.order)
            env.setk(env.k, k)
            env.setk(env.m, m)
            if not ctx.begin(key, {"Q": pd(bq.P), "b": db, "k": hx(k), "m": hx(m)}, nontrivial=True):
                return
            e.poison(C)
            sb = env.snap(B)
            res = R.call("ep2_mul_sim_gen", C, env.k, B, env.m)
            env.judge(C, E.add(env.G.mul(k), bq.mul(m)), res, in_range=in_range(k) and in_range(m), norm=True)
            env.unchanged(B, sb)
        guard(body)

    if has("ep2_mul_sim_gen"):
        for i, (kc, k) in enumerate(hostile_pairs):
            for j in (0, 5, 9):
                mc, m = hostile_pairs[(i + j) % len(hostile_pairs)]
                if mine():
                    simgen_case(kc, k, mc, m)
        for qcls in ("inf", "G", "subN", "subL"):
            if mine():
                simgen_case("rand", rng.randrange(n), "rand", rng.randrange(n), qcls)
        for _ in range(N(40, 800)):
            kc, k = rand_scalar(env)
            mc, m = rand_scalar(env)
            simgen_case(kc, k, mc, m, rng.choice(["sub", "sub", "G", "subN", "subL"]))

    def simdig_case(cnt, special=None):
        def body():
            bases = [rng.choice(S + [env.G] + T) for _ in range(cnt)]
            reps = [rng.choice(["A", "A", NAT, "L"]) for _ in range(cnt)]
            if special == "proj":
                reps = [rng.choice([NAT, "L"]) for _ in range(cnt)]
            ds = [rng.choice([0, 1, (1 << 64) - 1, rng.getrandbits(64), rng.getrandbits(64), rng.getrandbits(12)])
                  for _ in range(cnt)]
            if special == "all-zero":
                ds = [0] * cnt
            if special == "same-point" and cnt > 1:
                bases = [bases[0]] * cnt
            if special == "with-inf" and cnt > 0:
                bases[rng.randrange(cnt)] = epx.Base(E, None)
            key = "ep2_mul_sim_dig|n%s|%s" % (cnt if cnt < 3 else "3+", special or "gen")
            arr = e.new(max(cnt, 1))
            R.poison = rng.randrange(1, 256)
            dg = R.mem(8 * cnt, R.poison)
            try:
                enc = [env.wr(e.at(arr, i), bases[i].P, reps[i]) for i in range(cnt)]
                if cnt:
                    ctypes.memmove(dg, b"".join(d.to_bytes(8, "little") for d in ds), 8 * cnt)
                if not ctx.begin(key, {"pts": [pd(b.P) for b in bases], "enc": enc, "k": [hx(d) for d in ds]},
                                 nontrivial=cnt > 0):
                    return
                e.poison(C)
                sa = env.snap(arr, cnt) if cnt else b""
                res = R.call("ep2_mul_sim_dig", C, arr, dg, cnt)
                exp = None
                for b, d in zip(bases, ds):
                    exp = E.add(exp, b.mul(d))
                env.judge(C, exp, res, norm=True)
                if cnt:
                    env.unchanged(arr, sa, cnt)
            finally:
                R.free(arr)
                R.free(dg)
        guard(body)

    if has("ep2_mul_sim_dig") and R.DIG == 64:
        for cnt in (1, 2, 3, 5):
            for sp in (None, "all-zero", "same-point", "with-inf", "proj"):
                if mine():
                    simdig_case(cnt, sp)
        for _ in range(N(30, 500)):
            simdig_case(rng.randrange(1, 7))

    def simlot_case(cnt, special=None):
        def body():
            bases = [rng.choice(S + [env.G]) for _ in range(cnt)]
            ks = [rng.randrange(n) for _ in range(cnt)]
            allin = True
            if special == "hostile":
                ks = [rng.choice(hostile_pairs)[1] for _ in range(cnt)]
            if special == "same-point" and cnt > 1:
                bases = [bases[0]] * cnt
            if special == "cancel" and cnt > 1:
                bases[1] = epx.Base(E, E.neg(bases[0].P), n)
                ks[1] = ks[0]
            if special == "with-inf" and cnt:
                bases[rng.randrange(cnt)] = epx.Base(E, None)
            if special == "zero-scalar" and cnt:
                ks[rng.randrange(cnt)] = 0
            if not all(env.fits(k) for k in ks):
                return
            allin = all(in_range(k) for k in ks)
            ncls = "n0" if cnt == 0 else ("n1" if cnt == 1 else ("n<=10" if cnt <= 10 else "n>10"))
            key = "ep2_mul_sim_lot|%s|%s" % (ncls, special or "gen")
            arr = e.new(max(cnt, 1))
            R.poison = rng.randrange(1, 256)
            kb = R.mem(R.bn_sz * max(cnt, 1), R.poison)
            try:
                enc = [env.wr(e.at(arr, i), bases[i].P, rng.choice([NAT, "L"]) if special == "proj" else "A",
                              order=bases[i].order) for i in range(cnt)]
                for i in range(cnt):
                    if R.call("bn_make", kb + i * R.bn_sz, R.BN_SIZE).caught:
                        raise RuntimeError("bn_make")
                    R.bn_put(kb + i * R.bn_sz, ks[i])
                if not ctx.begin(key, {"pts": [pd(b.P) for b in bases][:6], "k": [hx(k) for k in ks][:12], "n": cnt},
                                 nontrivial=cnt > 0, budget=600):
                    return
                e.poison(C)
                sa = env.snap(arr, cnt) if cnt else b""
                res = R.call("ep2_mul_sim_lot", C, arr, kb, cnt)
                exp = None
                for b, k in zip(bases, ks):
                    exp = E.add(exp, b.mul(k))
                env.judge(C, exp, res, in_range=allin, norm=True)
                if cnt:
                    env.unchanged(arr, sa, cnt)
            finally:
                R.free(arr)
                R.free(kb)
        guard(body)

    if has("ep2_mul_sim_lot"):
        lots = [0, 1, 2, 3, 7, 10, 11, 12] + ([16, 17, 31, 32, 33, 40] if not ctx.quick else [])
        for cnt in lots:
            if mine():
                simlot_case(cnt)
        for cnt in (2, 4, 11):
            for sp in ("hostile", "same-point", "cancel", "with-inf", "zero-scalar", "proj"):
                if mine():
                    simlot_case(cnt, sp)
        for _ in range(N(8, 200)):
            simlot_case(rng.choice([1, 2, 3, 5, 9, 10, 11, 13]), rng.choice([None, None, "hostile", "proj"]))

    # =========================================================================== Frobenius
    lam = M.lam

    def frb_sub_case(i, rep, alias=0):
        def body():
            base = rng.choice(S + [env.G])
            key = "ep2_frb|subgroup|pow%s|%s%s" % (i if i < 4 else "4+", rep, "|alias" if alias else "")
            da = env.wr(A, base.P, rep, order=base.order)
            if not ctx.begin(key, {"P": pd(base.P), "a": da, "i": i}, nontrivial=True):
                return
            e.poison(C)
            out = A if alias else C
            sa = env.snap(A)
            res = R.call("ep2_frb", out, A, i)
            env.judge(out, base.mul(pow(lam, i, n)), res)
            if not alias:
                env.unchanged(A, sa)
        guard(body)

    def frb_tw_case(rep, pcls="tw"):
        """general twist points: psi^2(P) - [t]psi(P) + [p]P = O, psi^12 = id, images on the curve"""
        def body():
            base = rng.choice(T) if pcls == "tw" else epx.Base(E, rng.choice(small)[1])
            key = "ep2_frb|%s|char-eq|%s" % (pcls, rep)
            da = env.wr(A, base.P, rep, order=base.order)
            if not ctx.begin(key, {"P": pd(base.P), "a": da}, nontrivial=True):
                return
            e.poison(C)
            e.poison(B)
            r1 = R.call("ep2_frb", B, A, 1)
            r2 = R.call("ep2_frb", C, A, 2)
            if r1.caught or r2.caught:
                ctx.check(False, key + "|unexpected-error", {"err": [r1.err, r2.err]})
                return
            try:
                p1 = e.get(B, F2)[0]
                p2 = e.get(C, F2)[0]
            except (ValueError, ZeroDivisionError) as ex:
                ctx.fail(key + "|bad-tag", repr(ex))
                return
            ctx.check(E.on_curve(p1) and E.on_curve(p2) and p1 is not None, key + "|off-curve")
            lhs = E.add(E.add(p2, E.neg(E.mul(M.t, p1))), base.mul(M.p))
            ctx.check(lhs is None, key + "|value", {"psi": pd(p1), "psi2": pd(p2)})
            e.poison(C)
            r3 = R.call("ep2_frb", C, A, 12)
            if r3.caught:
                ctx.check(False, key + "|unexpected-error", {"err": r3.err})
                return
            ctx.check(E.eq(e.get(C, F2)[0], base.P), key + "|psi12-not-identity")
        guard(body)

    if has("ep2_frb"):
        for i in (0, 1, 2, 3, 4, 6, 12):
            for rep in "APJL":
                if mine():
                    frb_sub_case(i, rep)
        for i in (1, 2, 3):
            if mine():
                frb_sub_case(i, "A", alias=1)
        for rep in "APJ":
            if mine():
                frb_tw_case(rep)
        if small and mine():
            frb_tw_case("A", "small")
        for _ in range(N(80, 1200)):
            frb_sub_case(rng.choice([1, 1, 2, 2, 3, 3, 4, 5, 7]), rng.choice("AAPJL"), int(rng.random() < 0.2))
        for _ in range(N(12, 200)):
            T.append(epx.Base(E, M.rand_point2(rng)))
            frb_tw_case(rng.choice("AAP"))
        # infinity
        def frb_inf():
            key = "ep2_frb|inf|pow1|A"
            da = env.wr(A, None, "A")
            if not ctx.begin(key, {"P": "O", "a": da}, nontrivial=False):
                return
            e.poison(C)
            env.judge(C, None, R.call("ep2_frb", C, A, 1))
        if mine():
            guard(frb_inf)

    # =========================================================================== cofactor clearing
    def cof_case(pcls, rep, alias=0):
        def body():
            if pcls == "tw":
                P = M.rand_point2(rng)
            elif pcls == "sub":
                P = rng.choice(S).P
            elif pcls == "small":
                P = rng.choice(small)[1]
            elif pcls == "small+sub":
                P = E.add(rng.choice(small)[1], rng.choice(S).P)
            else:
                P = None
            key = "ep2_mul_cof|%s|%s%s" % (pcls, rep, "|alias" if alias else "")
            da = env.wr(A, P, rep)
            if not ctx.begin(key, {"P": pd(P), "a": da}, nontrivial=P is not None):
                return
            e.poison(C)
            out = A if alias else C
            sa = env.snap(A)
            res = R.call("ep2_mul_cof", out, A)
            if res.caught:
                ctx.check(False, key + "|unexpected-error", {"err": res.err})
                env.canary()
                return
            try:
                img, coord, canon, z = e.get(out, F2)
            except (ValueError, ZeroDivisionError) as ex:
                ctx.fail(key + "|bad-tag", repr(ex))
                return
            ctx.check(E.on_curve(img), key + "|off-curve", {"img": pd(img)})
            if E.on_curve(img):
                ctx.check(E.mul(n, img) is None, key + "|not-in-subgroup", {"img": pd(img)})
            ctx.check(canon, key + "|non-canonical")
            if pcls in ("inf", "small"):
                ctx.check(img is None, key + "|value", {"img": pd(img)})
            else:
                # the r-part of P is non-trivial iff [h2]P != O; then the image must not vanish
                if E.mul(M.h2, P) is not None:
                    ctx.check(img is not None, key + "|trivial-image")
            if not alias:
                env.unchanged(A, sa)
            return img
        guard(body)

    def cof_hom_case():
        """the map is a homomorphism on all of E'(Fp2)"""
        def body():
            P, Q = M.rand_point2(rng), rng.choice(T + S).P
            key = "ep2_mul_cof|tw|homomorphism"
            if not ctx.begin(key, {"P": pd(P), "Q": pd(Q)}, nontrivial=True):
                return
            imgs = []
            for X_ in (P, Q, E.add(P, Q)):
                env.wr(A, X_, "A")
                e.poison(C)
                res = R.call("ep2_mul_cof", C, A)
                if res.caught:
                    ctx.check(False, key + "|unexpected-error", {"err": res.err})
                    return
                imgs.append(e.get(C, F2)[0])
            ctx.check(E.eq(E.add(imgs[0], imgs[1]), imgs[2]), key + "|value", {"imgs": [pd(x) for x in imgs]})
        guard(body)

    if has("ep2_mul_cof"):
        for pcls in ["tw", "tw", "sub", "inf"] + (["small", "small+sub"] if small else []):
            for rep in ("A", NAT, "L"):
                if mine():
                    cof_case(pcls, rep)
        if mine():
            cof_case("tw", "A", alias=1)
        for _ in range(N(28, 500)):
            cof_case(rng.choice(["tw", "tw", "tw", "sub"] + (["small", "small+sub"] if small else [])), rng.choice(["A", "A", NAT, "L"]),
                     int(rng.random() < 0.15))
        for _ in range(N(6, 100)):
            cof_hom_case()

    # =========================================================================== small utilities
    def misc_infty(rep, inf):
        def body():
            pc, P = anypoint()
            if inf:
                P = None
            key = "ep2_is_infty|%s|%s" % ("inf" if inf else "fin", rep)
            da = env.wr(A, P, rep)
            if not ctx.begin(key, {"P": pd(P), "a": da}, nontrivial=P is not None):
                return
            res = R.call("ep2_is_infty", A)
            ctx.check((not res.caught) and bool(res.i) == (P is None), key + "|value", {"got": res.i})
            e.poison(C)
            res = R.call("ep2_set_infty", C)
            env.judge(C, None, res, what="set_infty")
        guard(body)

    def misc_rhs():
        def body():
            x = F2.rand(rng) if rng.random() < 0.8 else rng.choice([(0, 0), (1, 0), (0, 1), (M.p - 1, M.p - 1)])
            key = "ep2_rhs|x"
            if not ctx.begin(key, {"x": [hx(x[0]), hx(x[1])]}, nontrivial=True):
                return
            fx, fo = R.fpx_new(2, list(x)), R.fpx_new(2)
            alias = rng.random() < 0.3
            res = R.call("ep2_rhs", fx if alias else fo, fx)
            got, canon = R.fpx_get(fx if alias else fo, 2)
            exp = F2.add(F2.mul(F2.mul(x, x), x), M.b2)
            ctx.check((not res.caught) and F2.eq(tuple(got), exp) and canon, key + "|value", {"got": [hx(v) for v in got]})
            R.free(fx)
            R.free(fo)
        guard(body)

    def misc_blind(rep, alias):
        def body():
            pc, P = anypoint()
            key = "ep2_blind|%s|alias%d" % (rep, alias)
            da = env.wr(A, P, rep)
            if not ctx.begin(key, {"P": pd(P), "a": da}, nontrivial=True):
                return
            e.poison(C)
            out = A if alias else C
            res = R.call("ep2_blind", out, A)
            env.judge(out, P, res)
        guard(body)

    def misc_rand():
        def body():
            key = "ep2_rand|"
            if not ctx.begin(key, {}, nontrivial=True):
                return
            e.poison(C)
            res = R.call("ep2_rand", C)
            if res.caught:
                ctx.check(False, key + "|unexpected-error", {"err": res.err})
                return
            pt = e.get(C, F2)[0]
            ctx.check(pt is not None and E.on_curve(pt) and E.mul(n, pt) is None, key + "|not-in-subgroup", {"P": pd(pt)})
        guard(body)

    def misc_tab(wd, pcls):
        def body():
            base, rep = pick_point(pcls)
            cnt = 1 if wd <= 2 else 1 << (wd - 2)
            key = "ep2_tab|w%d|%s" % (wd, pcls)
            da = env.wr(A, base.P, rep, order=base.order)
            R.poison = rng.randrange(1, 256)
            tab = e.new(cnt)
            try:
                if not ctx.begin(key, {"P": pd(base.P), "a": da, "w": wd}, nontrivial=True):
                    return
                sa = env.snap(A)
                res = R.call("ep2_tab", tab, A, wd)
                if res.caught:
                    ctx.check(False, key + "|unexpected-error", {"err": res.err})
                    env.canary()
                    return
                for i in range(cnt):
                    try:
                        pt = e.get(e.at(tab, i), F2)[0]
                    except (ValueError, ZeroDivisionError) as ex:
                        ctx.fail(key + "|bad-tag", repr(ex))
                        continue
                    ctx.check(E.eq(pt, base.mul(2 * i + 1)), key + "|value", {"i": i, "got": pd(pt)})
                env.unchanged(A, sa)
            finally:
                R.free(tab)
        guard(body)

    if has("ep2_is_infty") and has("ep2_set_infty"):
        for rep in "APJ":
            for inf in (0, 1):
                if mine():
                    misc_infty(rep, inf)
    if has("ep2_rhs"):
        for _ in range(N(10, 300)):
            misc_rhs()
    if has("ep2_blind"):
        for rep in ("A", NAT):
            for alias in (0, 1):
                if mine():
                    misc_blind(rep, alias)
        for _ in range(N(7, 200)):
            misc_blind(rng.choice(["A", NAT]), rng.randrange(2))
    if has("ep2_rand"):
        for _ in range(N(2, 60)):
            misc_rand()
    if has("ep2_tab"):
        for wd in (2, 3, 4, 5, 6):
            for pcls in ("G", "sub", "subN", "tw"):
                if mine():
                    misc_tab(wd, pcls)
    for fn in ("ep2_mul_pre_yaowi", "ep2_mul_fix_yaowi", "ep2_mul_pre_nafwi", "ep2_mul_fix_nafwi"):
        has(fn)      # declared in relic_epx.h; recorded as not built when absent

    # =========================================================================== library-produced identity
    # The identity is taken as the RESULT OBJECT of every routine that can produce it (raw bytes and coordinate tag
    # exactly as returned) and fed back to the consumers; expected values from the model (O + Q = Q, O != finite, O == O).
    LI = []          # dicts: fam, name, raw, tag, desc

    def li_produce():
        P = rng.choice(S).P
        Pn = E.neg(P)
        nk, zk = R.bn_new(), R.bn_new()
        R.bn_put(nk, n)
        R.bn_put(zk, 0)

        def keep(fam, name, res, obj=C):
            if res.caught:
                return
            x, y, z, tag, canon = e.get_raw(obj)
            if not F2.is_zero(z):
                return          # not the identity: judged by the ordinary cases of the producer
            LI.append({"fam": fam, "name": name, "raw": R.get(obj, e.sz), "tag": tag,
                       "shape": (tag, F2.is_zero(x), F2.is_zero(y)),
                       "desc": {"producer": name, "x": [hx(v) for v in x], "y": [hx(v) for v in y], "tag": tag}})
        for fn in ("ep2_add_basic", "ep2_add_projc", "ep2_add_jacob", "ep2_add"):
            if not R.has(fn):
                continue
            for ra in tags_for(fn):
                for rb in tags_for(fn):
                    env.wr(A, P, ra)
                    env.wr(B, Pn, rb)
                    e.poison(C)
                    keep(fn[4:], "%s(P,-P)[%s%s]" % (fn, ra, rb), R.call(fn, C, A, B))
        if R.has("ep2_sub"):
            for ra in ("A", NAT):
                env.wr(A, P, ra)
                e.poison(C)
                keep("sub", "ep2_sub(P,P)[same object,%s]" % ra, R.call("ep2_sub", C, A, A))
                env.wr(B, P, ra)
                e.poison(C)
                keep("sub", "ep2_sub(P,P')[%s%s]" % (ra, ra), R.call("ep2_sub", C, A, B))
        for fn in ("ep2_mul_basic", "ep2_mul_slide", "ep2_mul_monty", "ep2_mul_lwnaf", "ep2_mul_lwreg", "ep2_mul"):
            if not R.has(fn):
                continue
            for nm, kk in (("n", nk), ("0", zk)):
                env.wr(A, P, "A")
                e.poison(C)
                keep("mul", "%s(P,%s)" % (fn, nm), R.call(fn, C, A, kk))
        if R.has("ep2_mul_gen"):
            e.poison(C)
            keep("mul", "ep2_mul_gen(n)", R.call("ep2_mul_gen", C, nk))
        if R.has("ep2_mul_dig"):
            env.wr(A, P, "A")
            e.poison(C)
            keep("mul", "ep2_mul_dig(P,0)", R.call("ep2_mul_dig", C, A, 0))
        if R.has("ep2_mul_sim_basic"):
            env.wr(A, P, "A")
            env.wr(B, Pn, "A")
            R.bn_put(zk, 5)
            for fn in ("ep2_mul_sim_basic", "ep2_mul_sim_inter"):
                e.poison(C)
                keep("mul_sim", "%s(P,5,-P,5)" % fn, R.call(fn, C, A, zk, B, zk))
        for q, pt in small:
            if q == 2:
                for fn in ("ep2_dbl_basic", "ep2_dbl_projc", "ep2_dbl_jacob"):
                    for ra in tags_for(fn.replace("dbl", "add")):
                        env.wr(A, pt, ra)
                        e.poison(C)
                        keep("dbl", "%s(T2)[%s]" % (fn, ra), R.call(fn, C, A))
        e.poison(C)
        keep("set_infty", "ep2_set_infty", R.call("ep2_set_infty", C))
        # second generation: neg / norm / copy of the identities above (one per distinct byte image)
        seen = {}
        for it in list(LI):
            seen.setdefault(it["shape"], it)
        for it in seen.values():
            for fn in ("ep2_neg", "ep2_norm", "ep2_copy"):
                ctypes.memmove(A, it["raw"], e.sz)
                e.poison(C)
                keep(fn[4:], "%s(%s)" % (fn, it["name"]), R.call(fn, C, A))
        R.bn_free(nk)
        R.bn_free(zk)

    def li_load(obj, it):
        ctypes.memmove(obj, it["raw"], e.sz)

    def li_run(key, desc, fnbody, nontrivial=True):
        def body():
            if not ctx.begin(key, desc, nontrivial=nontrivial):
                return
            fnbody()
        guard(body)

    def li_consumers(it):
        fam, tagc = it["fam"], env.TAG.get(it["tag"], "?")
        L = "lib-inf:" + fam
        d0 = it["desc"]
        EQ, NE = K["RLC_EQ"], K["RLC_NE"]

        # ---- ep2_cmp
        for form in "APJ":
            for side in (0, 1):
                if not mine():
                    continue
                Q = anypoint()[1]
                key = "ep2_cmp|%s|fin:%s" % (L, form) if side == 0 else "ep2_cmp|fin:%s|%s" % (form, L)

                def f(Q=Q, form=form, side=side, key=key):
                    li_load(A, it)
                    env.wr(B, Q, form)
                    res = R.call("ep2_cmp", A, B) if side == 0 else R.call("ep2_cmp", B, A)
                    ctx.check((not res.caught) and res.i == NE, key + "|value", {"got": res.i, "exp": NE, "caught": res.caught})
                li_run(key, dict(d0, Q=pd(Q), form=form), f)
        if mine():
            key = "ep2_cmp|%s|same-object" % L

            def f(key=key):
                li_load(A, it)
                res = R.call("ep2_cmp", A, A)
                ctx.check((not res.caught) and res.i == EQ, key + "|value", {"got": res.i, "exp": EQ})
            li_run(key, d0, f)
        others = [LI[(LI.index(it) + 7) % len(LI)], LI[(LI.index(it) + 13) % len(LI)]]
        for ot in others:
            for side in (0, 1):
                if not mine():
                    continue
                key = "ep2_cmp|%s|lib-inf:%s" % ((L, ot["fam"]) if side == 0 else ("lib-inf:" + ot["fam"], fam))

                def f(ot=ot, side=side, key=key):
                    li_load(A, it)
                    li_load(B, ot)
                    res = R.call("ep2_cmp", A, B) if side == 0 else R.call("ep2_cmp", B, A)
                    ctx.check((not res.caught) and res.i == EQ, key + "|value", {"got": res.i, "exp": EQ, "other": ot["name"]})
                li_run(key, dict(d0, other=ot["desc"]), f)
        for form, inf in (("A", "lib"), ("P", "proj"), ("J", "proj")):
            if not mine():
                continue
            key = "ep2_cmp|%s|inf:%s" % (L, form)

            def f(form=form, inf=inf, key=key):
                li_load(A, it)
                env.wr(B, None, form, inf=inf)
                res = R.call("ep2_cmp", A, B)
                ctx.check((not res.caught) and res.i == EQ, key + "|value", {"got": res.i, "exp": EQ})
            li_run(key, dict(d0, form=form), f)

        # ---- predicates and unary routines (dispatch on the tag themselves: every identity)
        if mine():
            key = "ep2_is_infty|%s" % L

            def f(key=key):
                li_load(A, it)
                res = R.call("ep2_is_infty", A)
                ctx.check((not res.caught) and res.i == 1, key + "|value", {"got": res.i})
                res = R.call("ep2_on_curve", A)
                ctx.check((not res.caught) and res.i != 0, key + "|on_curve", {"got": res.i})
            li_run(key, d0, f)
        unary = [f_ for f_ in ("ep2_neg", "ep2_norm", "ep2_copy", "ep2_frb") if R.has(f_)]
        nativeok = it["tag"] in (e.BASIC, env.REP[NAT])
        for fn in unary + [f_ for f_ in dblfns if f_ != "ep2_dbl_slp_basic"]:
            if fn.startswith("ep2_dbl") and it["tag"] not in (e.BASIC, env.REP[tags_for(fn.replace("dbl", "add"))[-1]]):
                continue        # a doubling formula is only given its own projective system
            for alias in (0, 1):
                if not mine():
                    continue
                key = "%s|%s|alias%d" % (fn, L, alias)

                def f(fn=fn, alias=alias, key=key):
                    li_load(A, it)
                    e.poison(C)
                    out = A if alias else C
                    res = R.call(fn, out, A, 1) if fn == "ep2_frb" else R.call(fn, out, A)
                    env.judge(out, None, res, norm=(fn == "ep2_norm"))
                li_run(key, d0, f)
        if R.has("ep2_norm_sim"):
            for inplace in (0, 1):
                if not mine():
                    continue
                key = "ep2_norm_sim|%s|%s" % (L, "inplace" if inplace else "separate")

                def f(inplace=inplace, key=key):
                    pts = [anypoint()[1], None, anypoint()[1]]
                    src = e.new(3)
                    dst = src if inplace else e.new(3)
                    try:
                        env.wr(e.at(src, 0), pts[0], rng.choice("APJ"))
                        li_load(e.at(src, 1), it)
                        env.wr(e.at(src, 2), pts[2], rng.choice("APJ"))
                        res = R.call("ep2_norm_sim", dst, src, 3)
                        if res.caught:
                            ctx.check(False, key + "|unexpected-error", {"err": res.err})
                            env.canary()
                            return
                        for i in range(3):
                            pt, coord, canon, z = e.get(e.at(dst, i), F2)
                            ctx.check(E.eq(pt, pts[i]), key + "|value", {"i": i, "got": pd(pt), "exp": pd(pts[i])})
                    finally:
                        R.free(src)
                        if not inplace:
                            R.free(dst)
                li_run(key, d0, f)

        # the costly consumers below run once per distinct SHAPE of the identity (coordinate tag, x zero or not, y zero or
        # not; the description lists the producers that returned it), the cheap ones above for every producer
        if LIREP[it["shape"]] is not it:
            return
        d0 = dict(d0, same_shape_from=[o["name"] for o in LI if o["shape"] == it["shape"]][:12])

        # ---- binary group law: the identity as either operand, in place, with a finite point in the routine's forms
        for fn in [f_ for f_ in addfns if f_ != "ep2_add_slp_basic"]:
            tg = tags_for(fn)
            if it["tag"] not in [env.REP[t_] for t_ in tg]:
                continue
            for form in tg:
                for side in (0, 1):
                    for alias in (0, 1, 2):
                        if not mine():
                            continue
                        Q = anypoint()[1]
                        key = "%s|%s|alias%d" % (fn, ("%s|fin:%s" % (L, form)) if side == 0 else ("fin:%s|%s" % (form, L)), alias)

                        def f(fn=fn, form=form, side=side, alias=alias, Q=Q, key=key):
                            li_load(A, it)
                            env.wr(B, Q, form)
                            pa, pb = (A, B) if side == 0 else (B, A)
                            e.poison(C)
                            out = {0: C, 1: pa, 2: pb}[alias]
                            res = R.call(fn, out, pa, pb)
                            exp = Q if (fn != "ep2_sub" or side == 1) else E.neg(Q)
                            env.judge(out, exp, res)
                        li_run(key, dict(d0, Q=pd(Q), form=form), f)
            if mine():
                key = "%s|%s|%s" % (fn, L, L)

                def f(fn=fn, key=key):
                    li_load(A, it)
                    li_load(B, it)
                    e.poison(C)
                    env.judge(C, None, R.call(fn, C, A, B))
                li_run(key, d0, f, nontrivial=False)

        # ---- scalar multiplication, simultaneous multiplication
        if nativeok:
            for fn in mulfns + (["ep2_mul_dig"] if R.has("ep2_mul_dig") else []):
                for kc, kv in (("zero", 0), ("one", 1), ("rand", rng.randrange(2, n))):
                    if not mine():
                        continue
                    key = "%s|%s|%s" % (fn, kc, L)

                    def f(fn=fn, kv=kv, key=key):
                        li_load(A, it)
                        e.poison(C)
                        if fn == "ep2_mul_dig":
                            res = R.call(fn, C, A, kv & ((1 << 64) - 1))
                        else:
                            env.setk(env.k, kv)
                            res = R.call(fn, C, A, env.k)
                        env.judge(C, None, res, norm=True)
                    li_run(key, dict(d0, k=hx(kv)), f)
            for fn in simfns:
                for side in (0, 1):
                    if not mine():
                        continue
                    key = "%s|%s" % (fn, ("%s|fin" % L) if side == 0 else ("fin|%s" % L))

                    def f(fn=fn, side=side, key=key):
                        bq = rng.choice(S)
                        kv, mv = rng.randrange(2, n), rng.randrange(2, n)
                        li_load(A, it)
                        env.wr(B, bq.P, "A")
                        env.setk(env.k, kv)
                        env.setk(env.m, mv)
                        e.poison(C)
                        if side == 0:
                            res = R.call(fn, C, A, env.k, B, env.m)
                        else:
                            res = R.call(fn, C, B, env.m, A, env.k)
                        env.judge(C, bq.mul(mv), res, norm=True)
                    li_run(key, d0, f)

        # ---- encoding
        if R.has("ep2_size_bin") and R.has("ep2_write_bin"):
            for pack in (0, 1):
                if not mine():
                    continue
                key = "ep2_write_bin|%s|pack%d" % (L, pack)

                def f(pack=pack, key=key):
                    li_load(A, it)
                    res = R.call("ep2_size_bin", A, pack)
                    ctx.check((not res.caught) and res.r == 1, key + "|size", {"got": res.r, "caught": res.caught})
                    for ln in (1, 4 * R.FP_BYTES + 1):
                        R.poison = rng.randrange(1, 256)
                        buf = R.mem(ln, R.poison)
                        res = R.call("ep2_write_bin", buf, ln, A, pack)
                        got = R.get(buf, ln)
                        R.free(buf)
                        ctx.check((not res.caught) and got == bytes(ln), key + "|value",
                                  {"len": ln, "got": got[:8].hex(), "caught": res.caught})
                li_run(key, d0, f)

    li_produce()
    LIREP = {}
    for it in LI:
        LIREP.setdefault(it["shape"], it)
    ctx.note("library_produced_identity_shapes", {part: sorted("tag=%s x=0:%s y=0:%s" % (env.TAG.get(t_, t_), a_, b_)
                                                               for t_, a_, b_ in LIREP)})
    ctx.note("library_produced_identities", {part: sorted(set("%s tag=%s zero-xy=%s" % (
        it["fam"], env.TAG.get(it["tag"], it["tag"]), it["raw"][:e.oy + 2 * R.fp_sz] == bytes(e.oy + 2 * R.fp_sz)) for it in LI))})
    for it in LI:
        li_consumers(it)

    ctx.note("functions_exercised", sorted(R.fn_seen))
    ctx.note("functions_not_built", sorted(notbuilt))
    ctx.note("error_codes_seen", {str(k): v for k, v in R.err_codes.items()})


def finish(cov):
    """function-coverage accounting against the API inventory of the design phase"""
    import json
    import os
    inv = os.path.join(os.path.dirname(os.path.dirname(os.path.dirname(os.path.abspath(__file__)))), "design",
                       "api_inventory.json")
    try:
        F = json.load(open(inv))["functions"]
    except (OSError, ValueError, KeyError):
        return
    scope = sorted(k for k, v in F.items() if v.get("property") == "C11")
    seen = set(cov.get("functions_exercised", []))
    nb = set(cov.get("functions_not_built", []))
    unc = [f for f in scope if f not in seen and f not in nb]
    cov["functions_in_scope"] = len(scope)
    cov["functions_in_scope_exercised"] = len([f for f in scope if f in seen])
    cov["functions_uncovered"] = {"ep2": [f for f in unc if f.startswith("ep2_")],
                                  "ep3_ep4_ep8": len([f for f in unc if not f.startswith("ep2_")]),
                                  "why": "curves over cubic, quartic and octic extensions (ep3/ep4/ep8, other field sizes) have no "
                                         "model in this module; see the final report of the module author"}
