"""C14 - hash functions, MAC, KDFs and the block cipher conform to their standards.

Oracle: hashlib (SHA-2, BLAKE2s), the hmac module, and the written-out models of verif/model/mdbc.py
(KDF2, MGF1, expand_message_xmd, AES/CBC/PKCS#7 - validated on the standards' vectors at import).
"""
import hashlib
import hmac as _hmac

from ..rt import RT, MonitorViolation
from ..model import mdbc

LEVEL = "exploration"
RULE = ("directed enumeration split over the shards: every message length 0..400 (thorough: 0..2200) plus the "
        "neighbourhoods of 512/1024/2048/4096/65536 and 1000, 4095, 4096, 70000 for each of the six hash functions and "
        "the md_map macro; HMAC key lengths 0..200 (+255..257, 1000) x 13 message lengths and message lengths 0..300 x 3 key "
        "lengths; KDF2/MGF1 output lengths 0..8*digest+1 and input lengths 0..140; XMD output lengths 0..8*digest+1, "
        "DST lengths 0..255 and 256/257/300/511/1000, message lengths 0..300, the ell = 255/256 boundary; AES-CBC for key "
        "sizes 16/24/32 x plaintext lengths 0..64 (+ a few longer) with exact / larger / one-short output capacities and "
        "in place (out == in, one exact-size block), "
        "decryption of the model's ciphertext, every single-byte corruption (16 positions x 255 values) of the last "
        "ciphertext block judged by the model's unpadding (quick tier: exhaustive for plaintext lengths 0..17 and "
        "those = 0, 1, 15 mod 16, 32 values per position otherwise), targeted changes of the "
        "padding bytes through the preceding block / IV, invalid key and ciphertext lengths; aliasing classes for every md_* "
        "routine (digest over / inside / at the tail of the message, mac == in / tail of in / key for key lengths below, "
        "at and above the block size, KDF/MGF/XMD output equal to or overlapping the input, five-step in-place HMAC chains).  Message, key and IV bytes "
        "are random or patterned (zero, 0xFF, 0x80, counting) per seed.  Every buffer is an exact-size malloc block. "
        "distinct = distinct (function, class, inputs)")
ASSUMPTIONS = ["hashlib's SHA-224/256/384/512 and BLAKE2s and the hmac module are correct (trusted base)",
               "verif/model/mdbc.py transcribes RFC 2104, IEEE 1363 KDF2, PKCS#1 MGF1, RFC 9380 5.3.1 and FIPS 197 / "
               "SP 800-38A / PKCS#7 correctly; it passes the standards' published vectors at import",
               "a DST longer than 255 bytes may be rejected with an error or handled as RFC 9380 5.3.3 prescribes",
               "bc_aes_cbc_dec may insist on an output capacity of the ciphertext length (plaintext length unknown "
               "to the caller beforehand); only a capacity below the plaintext length must be refused",
               "md_map_*, md_hmac, md_kdf, md_mgf, md_xmd_* may be called with the output buffer equal to or overlapping an input "
               "(message, key, secret): the unchanged tree consumes these inputs before writing and in-place HMAC chains "
               "U_i = HMAC(K, U_{i-1}) depend on it; md_map_b2s160/b2s256 are excluded (they zero the digest buffer first); md_xmd_* with output == DST is exercised for one output block only, "
               "because the routine re-reads the DST for every block (reported, not demanded)",
               "bc_aes_cbc_enc/dec with out == in (complete aliasing) is a supported call: the library itself decrypts in place "
               "(cp_ecies_dec) and both pad routines of the unchanged tree consume each input block before overwriting it; the "
               "aliased buffer is exempt from the 'input unchanged' check (key and IV are still checked); partially "
               "overlapping buffers are not exercised",
               "md_xmd_* are defined with int length parameters although declared with size_t: lengths >= 2^31 are "
               "not exercised"]


def parts(tier):
    return [dict(part="main", cfg="asan256", shards=16)]


def lencls(n, bs, lf):
    """class of a message length for a hash with block size bs and a length field of lf bytes (0: none)"""
    if n >= 1000:
        b = "long"
    else:
        k = n // bs
        b = "b0" if k == 0 else ("b1-3" if k < 4 else "b4+")
    r = n % bs
    pb = bs - lf          # first residue for which 0x80 and the length field no longer fit
    if r == 0:
        c = "r0"
    elif r == bs - 1:
        c = "r=bs-1"
    elif lf and r == pb - 1:
        c = "r=fit"       # message + 0x80 + length fill the block exactly (55 / 111)
    elif lf and r == pb:
        c = "r=fit+1"     # one more block needed (56 / 112)
    elif lf and r > pb:
        c = "r>fit"
    else:
        c = "mid"
    return b + "|" + c


def run(ctx, part):
    R = RT(ctx.cfg)
    rng = ctx.rng
    K = R.K
    OK = K["RLC_OK"]
    quick = ctx.quick
    counter = [0]

    def mine():
        counter[0] += 1
        return ctx.mine(counter[0])

    def data(n):
        c = rng.randrange(10)
        if n == 0:
            return b"", "empty"
        if c == 0:
            return bytes(n), "zero"
        if c == 1:
            return b"\xff" * n, "ff"
        if c == 2:
            return b"\x80" * n, "80"
        if c == 3:
            return bytes(i & 0xFF for i in range(n)), "count"
        return rng.getrandbits(8 * n).to_bytes(n, "little"), "random"

    def dsc(b):
        return {"len": len(b), "head": b[:24].hex(), "tail": b[-8:].hex() if len(b) > 24 else ""}

    def case(key, desc, body, budget=None):
        if not ctx.begin(key, desc, budget=budget):
            return
        try:
            body(key)
        except MonitorViolation as e:
            ctx.fail(key + "|" + e.kind, e.detail)
        finally:
            ctx.end()

    class Bufs(object):
        """exact-size malloc blocks freed together"""

        def __init__(self):
            self.ps = []

        def put(self, b):
            p = R.put(b)
            self.ps.append(p)
            return p

        def mem(self, n, fill):
            p = R.mem(n, fill)
            self.ps.append(p)
            return p

        def free(self):
            for p in self.ps:
                R.free(p)
            self.ps = []

    # ------------------------------------------------------------------------------------ hashes
    md_map_t = R.target("md_map")
    default = md_map_t[len("md_map_"):]
    ctx.note("md_map_dispatch", md_map_t)
    ctx.note("md_xmd_dispatch", R.target("md_xmd"))
    ctx.note("RLC_MD_LEN", K["RLC_MD_LEN"])
    not_built = []

    def hash_case(fn, name, n):
        _, dl, bs, lf = mdbc.HASHES[name]
        m, pat = data(n)

        def body(key):
            B = Bufs()
            poison = rng.randrange(256)
            pm = B.put(m)
            out = B.mem(dl, poison)
            res = R.call(fn, out, pm, n)
            if not ctx.check(not res.caught, key + "|unexpected-error", {"err": res.err}):
                B.free()
                return
            got = R.get(out, dl)
            exp = mdbc.H(name, m)
            ctx.check(got == exp, key + "|value", {"got": got.hex(), "exp": exp.hex()})
            ctx.check(R.get(pm, n) == m, key + "|input-modified")
            B.free()
        d = dsc(m)
        d["pattern"] = pat
        case("%s|%s" % (fn, lencls(n, bs, lf)), d, body)

    lens = set(range(0, 401 if quick else 2201))
    for b in (512, 1024, 2048, 4096, 65536):
        for d in (-17, -16, -9, -8, -1, 0, 1, 55, 56, 63, 64, 111, 112, 119, 120, 127, 128):
            lens.add(b + d)
    lens.update([1000, 4095, 4096, 70000])
    if not quick:
        lens.update([8191, 8192, 8193, 100000, 131071, 131072, 262144 + 55, 1 << 20])
    lens = sorted(lens)
    hashfns = [("md_map_sh224", "sh224"), ("md_map_sh256", "sh256"), ("md_map_sh384", "sh384"),
               ("md_map_sh512", "sh512"), ("md_map_b2s160", "b2s160"), ("md_map_b2s256", "b2s256"),
               ("md_map", default)]
    for fn, name in hashfns:
        if not R.has(fn):
            not_built.append(fn)
            continue
        for n in lens:
            if mine():
                hash_case(fn, name, n)
        if not quick:
            for _ in range(ctx.n(0, 4000) // ctx.nshards):
                hash_case(fn, name, rng.choice([rng.randrange(0, 5000), rng.randrange(0, 200000)]))

    # -------------------------------------------------------------------------------------- HMAC
    _, hdl, hbs, hlf = mdbc.HASHES[default]
    stdalg = {"sh224": "sha224", "sh256": "sha256", "sh384": "sha384", "sh512": "sha512"}.get(default)

    def hmac_case(kl, n):
        k, kp = data(kl)
        m, mp = data(n)
        kc = "k0" if kl == 0 else ("k<bs" if kl < hbs else ("k=bs" if kl == hbs else "k>bs"))

        def body(key):
            B = Bufs()
            pk, pm = B.put(k), B.put(m)
            out = B.mem(hdl, rng.randrange(256))
            res = R.call("md_hmac", out, pm, n, pk, kl)
            if not ctx.check(not res.caught, key + "|unexpected-error", {"err": res.err}):
                B.free()
                return
            got = R.get(out, hdl)
            exp = _hmac.new(k, m, stdalg).digest() if stdalg else mdbc.hmac_model(default, k, m)
            ctx.check(got == exp, key + "|value", {"got": got.hex(), "exp": exp.hex()})
            ctx.check(R.get(pm, n) == m and R.get(pk, kl) == k, key + "|input-modified")
            B.free()
        case("md_hmac|%s|m:%s" % (kc, lencls(n, hbs, hlf)),
             {"key": dsc(k), "msg": dsc(m), "patterns": [kp, mp]}, body)

    if R.has("md_hmac"):
        mls = [0, 1, hbs - 9, hbs - 8, hbs - 1, hbs, hbs + 1, 2 * hbs - 9, 2 * hbs - 8, 2 * hbs - 1, 2 * hbs, 200, 300]
        for kl in list(range(0, 201)) + [255, 256, 257, 1000]:
            for n in mls:
                if mine():
                    hmac_case(kl, n)
        for n in list(range(0, 301)) + [1000, 4096, 70000]:
            for kl in (16, hbs, hbs + 1):
                if mine():
                    hmac_case(kl, n)
        if not quick:
            for _ in range(ctx.n(0, 40000) // ctx.nshards):
                hmac_case(rng.randrange(0, 400), rng.randrange(0, 3000))
    else:
        not_built.append("md_hmac")

    # ---------------------------------------------------------------------------------- KDF2 / MGF1
    def kdf_case(fn, start, outl, inl):
        z, zp = data(inl)
        if outl == 0:
            oc = "out0"
        elif outl < hdl:
            oc = "out<dl"
        elif outl == hdl:
            oc = "out=dl"
        elif outl % hdl == 0:
            oc = "out=k*dl"
        else:
            oc = "out-nonmult"
        # the hashed string is z || 4 counter bytes: class of its length
        ic = lencls(inl + 4, hbs, hlf)

        def body(key):
            B = Bufs()
            pz = B.put(z)
            out = B.mem(outl, rng.randrange(256))
            res = R.call(fn, out, outl, pz, inl)
            if not ctx.check(not res.caught, key + "|unexpected-error", {"err": res.err}):
                B.free()
                return
            got = R.get(out, outl)
            exp = mdbc.counter_kdf(default, z, outl, start)
            ctx.check(got == exp, key + "|value", {"got": got[:96].hex(), "exp": exp[:96].hex(),
                                                   "first_diff": next((i for i in range(outl) if got[i] != exp[i]), None)})
            ctx.check(R.get(pz, inl) == z, key + "|input-modified")
            B.free()
        case("%s|%s|in:%s" % (fn, oc, ic), {"out_len": outl, "in": dsc(z), "pattern": zp}, body)

    inls = [0, 1, 20, 32, hbs - 13, hbs - 12, hbs - 5, hbs - 4, hbs, 100, 2 * hbs - 13, 2 * hbs - 12, 2 * hbs]
    for fn, start in (("md_kdf", 1), ("md_mgf", 0)):
        if not R.has(fn):
            not_built.append(fn)
            continue
        j = 0
        for outl in list(range(0, 8 * hdl + 2)) + [1000, 4096, 8193, 16 * hdl, 255 * hdl + 1]:
            for t in range(4 if quick else len(inls)):
                j += 1
                if mine():
                    kdf_case(fn, start, outl, inls[j % len(inls)])
        for inl in list(range(0, 141)) + [1000, 4096]:
            for outl in (hdl - 1, hdl, hdl + 1, 3 * hdl + 5):
                if mine():
                    kdf_case(fn, start, outl, inl)
        if not quick:
            for _ in range(ctx.n(0, 40000) // ctx.nshards):
                kdf_case(fn, start, rng.randrange(0, 2000), rng.randrange(0, 600))

    # ------------------------------------------------------------------------------------------ XMD
    def xmd_case(fn, name, outl, n, dl_):
        _, dl, bs, lf = mdbc.HASHES[name]
        m, mp = data(n)
        dst, dp = data(dl_)
        ell = (outl + dl - 1) // dl
        if ell > 255:
            oc = "ell>255"
        elif outl == 0:
            oc = "out0"
        elif outl < dl:
            oc = "out<dl"
        elif outl % dl == 0:
            oc = "ell=255" if ell == 255 else "out=k*dl"
        else:
            oc = "ell=255-nonmult" if ell == 255 else "out-nonmult"
        dc = "dst0" if dl_ == 0 else ("dst<255" if dl_ < 255 else ("dst=255" if dl_ == 255 else "dst>255"))

        def body(key):
            B = Bufs()
            pm, pd = B.put(m), B.put(dst)
            out = B.mem(outl, rng.randrange(256))
            res = R.call(fn, out, outl, pm, n, pd, dl_)
            try:
                exp = mdbc.xmd(name, m, dst, outl)
            except mdbc.XmdReject:
                exp = None
            if exp is None:
                ctx.check(res.caught, key + "|accepted", {"out_len": outl, "ell": ell})
            elif dl_ > 255 and res.caught:
                ctx.check(True)         # documented rejection of an oversize DST
            elif ctx.check(not res.caught, key + "|unexpected-error", {"err": res.err}):
                got = R.get(out, outl)
                ctx.check(got == exp, key + "|value",
                          {"got": got[:96].hex(), "exp": exp[:96].hex(),
                           "first_diff": next((i for i in range(outl) if got[i] != exp[i]), None)})
            ctx.check(R.get(pm, n) == m and R.get(pd, dl_) == dst, key + "|input-modified")
            B.free()
        case("%s|%s|%s|m:%s" % (fn, oc, dc, "0" if n == 0 else ("short" if n < bs else "multi")),
             {"out_len": outl, "msg": dsc(m), "dst": dsc(dst), "patterns": [mp, dp]}, body)

    xfns = [("md_xmd_sh224", "sh224"), ("md_xmd_sh256", "sh256"), ("md_xmd_sh384", "sh384"), ("md_xmd_sh512", "sh512")]
    xt = R.target("md_xmd")
    if xt.startswith("md_xmd_"):
        xfns.append(("md_xmd", xt[len("md_xmd_"):]))
    for fn, name in xfns:
        if not R.has(fn):
            not_built.append(fn)
            continue
        _, dl, bs, lf = mdbc.HASHES[name]
        msgl = [0, 1, bs - 1, bs, bs + 1, 200]
        dstl = [0, 1, 6, 16, 43, 254, 255]
        for outl in range(0, 8 * dl + 2):
            for t in range(2 if quick else 6):
                if mine():
                    xmd_case(fn, name, outl, rng.choice(msgl), rng.choice(dstl))
        for d in list(range(0, 256)) + [256, 257, 300, 511, 1000]:
            for outl in (dl, 2 * dl + 3):
                if mine():
                    xmd_case(fn, name, outl, rng.choice(msgl), d)
        for n in list(range(0, 301)) + [1000, 4096]:
            if mine():
                xmd_case(fn, name, dl + 1, n, 16)
        for outl in (255 * dl - 1, 255 * dl, 255 * dl + 1, 255 * dl + dl, 256 * dl, 256 * dl + 1, 32767, 65535, 65536):
            for d in (0, 16, 255):
                if mine():
                    xmd_case(fn, name, outl, rng.choice(msgl), d)
        if not quick:
            for _ in range(ctx.n(0, 30000) // ctx.nshards):
                xmd_case(fn, name, rng.randrange(0, 255 * dl + 40), rng.randrange(0, 500), rng.randrange(0, 300))

    # ------------------------------------------------------------- overlapping output / input buffers
    # Every md_* routine of the unchanged tree consumes its inputs before the first byte of the output is written
    # (md_xmd_* re-reads the DST for every block, so output == DST is only exercised for a single output block).
    def kcls(kl):
        return "k0" if kl == 0 else ("k<bs" if kl < hbs else ("k=bs" if kl == hbs else "k>bs"))

    def hexp(k, m):
        return _hmac.new(k, m, stdalg).digest() if stdalg else mdbc.hmac_model(default, k, m)

    def hmac_alias_case(mode, kl, n):
        k, _ = data(kl)
        m, _ = data(n)

        def body(key):
            B = Bufs()
            poison = rng.randrange(256)
            if mode == "mac=key":
                blk = B.put(k + bytes([poison]) * max(0, hdl - kl))
                pk, pm, mac = blk, B.put(m), blk
            else:
                off = 0 if mode == "mac=in" else n - hdl
                blk = B.put(m + bytes([poison]) * max(0, hdl - n))
                pk, pm, mac = B.put(k), blk, blk + off
            res = R.call("md_hmac", mac, pm, n, pk, kl)
            if ctx.check(not res.caught, key + "|unexpected-error", {"err": res.err}):
                got = R.get(mac, hdl)
                exp = hexp(k, m)
                ctx.check(got == exp, key + "|value", {"got": got.hex(), "exp": exp.hex()})
            if mode == "mac=key":
                ctx.check(R.get(pm, n) == m, key + "|input-modified")
            else:
                ctx.check(R.get(pk, kl) == k, key + "|input-modified")
                if mode == "mac=in-tail":
                    ctx.check(R.get(pm, n - hdl) == m[:n - hdl], key + "|input-modified")
            B.free()
        case("md_hmac|alias:%s|%s" % (mode, kcls(kl)), {"key": dsc(k), "msg": dsc(m)}, body)

    def hmac_chain_case(kl, sl, steps=5):
        k, _ = data(kl)
        seed, _ = data(sl)

        def body(key):
            B = Bufs()
            pk = B.put(k)
            u = B.put(seed + bytes(max(0, hdl - sl)))
            cur, ln = seed, sl
            for i in range(1, steps + 1):
                res = R.call("md_hmac", u, u, ln, pk, kl)          # U_i = HMAC(K, U_{i-1}) computed in place
                cur = hexp(k, cur)
                if not ctx.check(not res.caught and R.get(u, hdl) == cur, key + "|step%d" % i,
                                 {"caught": res.caught, "got": R.get(u, hdl).hex(), "exp": cur.hex()}):
                    break
                ln = hdl
            ctx.check(R.get(pk, kl) == k, key + "|input-modified")
            B.free()
        case("md_hmac|chain-in-place|%s" % kcls(kl), {"key": dsc(k), "seed": dsc(seed), "steps": steps}, body)

    if R.has("md_hmac"):
        for kl in (0, 1, 16, hbs - 1, hbs, hbs + 1, hbs + hdl, 100, 200):
            for n in (0, hdl, hdl + 1, 64, 100, 200):
                for mode in ("mac=in", "mac=in-tail", "mac=key"):
                    if mode == "mac=in-tail" and n < hdl:
                        continue
                    if mine():
                        hmac_alias_case(mode, kl, n)
            for sl in (0, 20, hdl, 100):
                if mine():
                    hmac_chain_case(kl, sl)

    def map_alias_case(fn, name, n, where):
        _, dl, bs, lf = mdbc.HASHES[name]
        m, _ = data(n)
        off = {"hash=msg": 0, "hash-inside-msg": max(0, (n - dl) // 2), "hash=msg-tail": max(0, n - dl)}[where]

        def body(key):
            B = Bufs()
            blk = B.put(m + bytes(max(0, off + dl - n)))
            res = R.call(fn, blk + off, blk, n)
            if ctx.check(not res.caught, key + "|unexpected-error", {"err": res.err}):
                got = R.get(blk + off, dl)
                exp = mdbc.H(name, m)
                ctx.check(got == exp, key + "|value", {"got": got.hex(), "exp": exp.hex()})
                ctx.check(R.get(blk, off) == m[:off] and R.get(blk + off + dl, max(0, n - off - dl)) == m[off + dl:],
                          key + "|wrote-outside-digest")
            B.free()
        case("%s|alias:%s" % (fn, where), {"msg": dsc(m), "offset": off}, body)

    for fn, name in hashfns:
        # md_map_b2s160/b2s256 clear the digest buffer before hashing: overlapping buffers are not supported there
        # (silently wrong digest on the unchanged tree - reported, not demanded)
        if not R.has(fn) or name.startswith("b2s"):
            continue
        for n in (0, 1, 19, 20, 31, 32, 33, 55, 56, 63, 64, 65, 100, 119, 120, 128, 129, 200, 300, 1000):
            for where in ("hash=msg", "hash-inside-msg", "hash=msg-tail"):
                if mine():
                    map_alias_case(fn, name, n, where)

    def kdf_alias_case(fn, start, outl, inl, off):
        z, _ = data(inl)

        def body(key):
            B = Bufs()
            blk = B.put(z + bytes(max(0, off + outl - inl)))
            res = R.call(fn, blk + off, outl, blk, inl)
            if ctx.check(not res.caught, key + "|unexpected-error", {"err": res.err}):
                got = R.get(blk + off, outl)
                exp = mdbc.counter_kdf(default, z, outl, start)
                ctx.check(got == exp, key + "|value", {"got": got[:96].hex(), "exp": exp[:96].hex()})
                ctx.check(R.get(blk, min(off, inl)) == z[:off], key + "|wrote-outside-output")
            B.free()
        case("%s|alias:%s" % (fn, "out=in" if off == 0 else "out-overlaps-in"), {"out_len": outl, "in": dsc(z), "offset": off}, body)

    for fn, start in (("md_kdf", 1), ("md_mgf", 0)):
        if not R.has(fn):
            continue
        for outl in (0, 1, hdl - 1, hdl, hdl + 1, 2 * hdl, 100, 200):
            for inl in (0, 1, hdl, 60, 100, 200):
                for off in sorted(set([0, inl // 2, max(0, inl - 1)])):
                    if mine():
                        kdf_alias_case(fn, start, outl, inl, off)

    def xmd_alias_case(fn, name, outl, n, dl_, mode):
        m, _ = data(n)
        dst, _ = data(dl_)

        def body(key):
            B = Bufs()
            if mode == "out=dst":
                blk = B.put(dst + bytes(max(0, outl - dl_)))
                pm, pd, out = B.put(m), blk, blk
            else:
                off = 0 if mode == "out=in" else n // 2
                blk = B.put(m + bytes(max(0, off + outl - n)))
                pm, pd, out = blk, B.put(dst), blk + off
            res = R.call(fn, out, outl, pm, n, pd, dl_)
            if ctx.check(not res.caught, key + "|unexpected-error", {"err": res.err}):
                got = R.get(out, outl)
                exp = mdbc.xmd(name, m, dst, outl)
                ctx.check(got == exp, key + "|value", {"got": got[:96].hex(), "exp": exp[:96].hex()})
            if mode == "out=dst":
                ctx.check(R.get(pm, n) == m, key + "|input-modified")
            else:
                ctx.check(R.get(pd, dl_) == dst, key + "|input-modified")
            B.free()
        case("%s|alias:%s" % (fn, mode), {"out_len": outl, "msg": dsc(m), "dst": dsc(dst)}, body)

    for fn, name in xfns:
        if not R.has(fn):
            continue
        _, dl, bs, lf = mdbc.HASHES[name]
        for outl in (1, dl - 1, dl, dl + 1, 2 * dl, 3 * dl + 5, 200):
            for n in (0, 1, dl, bs, 100, 200):
                for mode in ("out=in", "out-overlaps-in"):
                    if mine():
                        xmd_alias_case(fn, name, outl, n, rng.choice([0, 16, 43, 255]), mode)
        # the DST is read again for every output block: output == DST is only supported for one block (ell = 1)
        for outl in (1, dl // 2, dl - 1, dl):
            for d in (1, 16, dl, 43, 255):
                if mine():
                    xmd_alias_case(fn, name, outl, rng.choice([0, 50, 200]), d, "out=dst")

    # ---------------------------------------------------------------------------------- AES-CBC
    def aes_call(fn, B, cap, bufsize, poison, pin, inl, pkey, kl, piv):
        """-> (rejected, out_len, out pointer, CallResult)"""
        out = B.mem(bufsize, poison)
        ol = B.mem(8, 0)
        R.wr_sz(ol, cap)
        res = R.call(fn, out, ol, pin, inl, pkey, kl, piv)
        return (res.caught or res.i != OK), R.rd_sz(ol), out, res

    def ptcls(n):
        return "pt-empty" if n == 0 else ("pt-r0" if n % 16 == 0 else ("pt-r15" if n % 16 == 15 else "pt-mid"))

    def aes_enc_case(kl, n, capmode):
        key, _ = data(kl)
        iv, _ = data(16)
        pt, pp = data(n)
        exp = mdbc.cbc_pkcs7_encrypt(key, iv, pt)
        need = len(exp)
        extra = rng.randrange(1, 40)
        cap = {"exact": need, "larger": need + extra, "short": need - 1}[capmode]

        def body(k_):
            B = Bufs()
            poison = rng.randrange(256)
            ppt, pkey, piv = B.put(pt), B.put(key), B.put(iv)
            rej, olen, out, res = aes_call("bc_aes_cbc_enc", B, cap, cap, poison, ppt, n, pkey, kl, piv)
            if capmode == "short":
                ctx.check(rej, k_ + "|accepted", {"capacity": cap, "needed": need, "out_len": olen})
            elif ctx.check(not rej, k_ + "|unexpected-error", {"rc": res.i, "caught": res.caught, "capacity": cap,
                                                               "needed": need}):
                ctx.check(olen == need, k_ + "|out-len", {"got": olen, "exp": need})
                got = R.get(out, min(olen, cap))
                ctx.check(got == exp, k_ + "|value", {"got": got.hex(), "exp": exp.hex()})
                if cap > need:
                    ctx.check(R.get(out + need, cap - need) == bytes([poison]) * (cap - need), k_ + "|wrote-past-out-len")
            ctx.check(R.get(ppt, n) == pt and R.get(pkey, kl) == key and R.get(piv, 16) == iv, k_ + "|input-modified")
            B.free()
        case("bc_aes_cbc_enc|k%d|%s|cap-%s" % (kl, ptcls(n), capmode),
             {"key": key.hex(), "iv": iv.hex(), "pt": dsc(pt), "capacity": cap, "pattern": pp}, body)

    def aes_dec_case(kl, n, capmode):
        key, _ = data(kl)
        iv, _ = data(16)
        pt, pp = data(n)
        ct = mdbc.cbc_pkcs7_encrypt(key, iv, pt)          # the model's ciphertext, not the library's
        cl = len(ct)
        cap = {"ctlen": cl, "larger": cl + rng.randrange(1, 40), "ctlen-1": cl - 1, "ptlen-1": n - 1}[capmode]

        def body(k_):
            B = Bufs()
            poison = rng.randrange(256)
            pct, pkey, piv = B.put(ct), B.put(key), B.put(iv)
            rej, olen, out, res = aes_call("bc_aes_cbc_dec", B, cap, cap, poison, pct, cl, pkey, kl, piv)
            if capmode == "ptlen-1":
                ctx.check(rej, k_ + "|accepted", {"capacity": cap, "needed": n, "out_len": olen})
            elif rej:
                # ctlen-1 still holds the plaintext, but the capacity rule of the library is the ciphertext length
                ctx.check(capmode == "ctlen-1", k_ + "|unexpected-error", {"rc": res.i, "caught": res.caught, "capacity": cap})
            else:
                ctx.check(olen == n, k_ + "|out-len", {"got": olen, "exp": n})
                got = R.get(out, min(olen, cap))
                ctx.check(got == pt, k_ + "|value", {"got": got.hex(), "exp": pt.hex()})
                if olen == n:
                    ctx.check(R.get(out + n, cap - n) == bytes([poison]) * (cap - n), k_ + "|wrote-past-out-len")
            ctx.check(R.get(pct, cl) == ct and R.get(pkey, kl) == key and R.get(piv, 16) == iv, k_ + "|input-modified")
            B.free()
        case("bc_aes_cbc_dec|k%d|%s|cap-%s" % (kl, ptcls(n), capmode),
             {"key": key.hex(), "iv": iv.hex(), "ct": dsc(ct), "pt_len": n, "capacity": cap, "pattern": pp}, body)

    def aes_inplace_case(fn, kl, n):
        """out == in: one exact-size block that holds the input and is large enough for the output
        (the library calls the block cipher this way itself, e.g. cp_ecies_dec); compared with the model as usual"""
        key, _ = data(kl)
        iv, _ = data(16)
        pt, pp = data(n)
        ct = mdbc.cbc_pkcs7_encrypt(key, iv, pt)
        cl = len(ct)
        enc = fn == "bc_aes_cbc_enc"
        inp, exp = (pt, ct) if enc else (ct, pt)

        def body(k_):
            B = Bufs()
            poison = rng.randrange(256)
            buf = B.put(inp + bytes([poison]) * (cl - len(inp)))          # cl bytes: plaintext + room for the padding / the ciphertext
            pkey, piv = B.put(key), B.put(iv)
            ol = B.mem(8, 0)
            R.wr_sz(ol, cl)
            res = R.call(fn, buf, ol, buf, len(inp), pkey, kl, piv)
            rej = res.caught or res.i != OK
            olen = R.rd_sz(ol)
            if ctx.check(not rej, k_ + "|unexpected-error", {"rc": res.i, "caught": res.caught, "in_len": len(inp)}):
                ctx.check(olen == len(exp), k_ + "|out-len", {"got": olen, "exp": len(exp)})
                got = R.get(buf, min(olen, cl))
                ctx.check(got == exp, k_ + "|value", {"got": got[:96].hex(), "exp": exp[:96].hex(),
                                                     "first_diff": next((i for i in range(min(len(got), len(exp))) if got[i] != exp[i]), None)})
            ctx.check(R.get(pkey, kl) == key and R.get(piv, 16) == iv, k_ + "|input-modified")
            B.free()
        blocks = "1-block" if cl == 16 else ("2-blocks" if cl == 32 else "multi-block")
        case("%s|k%d|%s|cap-inplace|%s" % (fn, kl, ptcls(n), blocks) if n else "%s|k%d|%s|cap-inplace" % (fn, kl, ptcls(n)),
             {"key": key.hex(), "iv": iv.hex(), "in": dsc(inp), "pt_len": n, "pattern": pp}, body)

    def padcls(padded):
        """class of a decrypted, still padded string"""
        pt = mdbc.pkcs7_unpad(padded)
        if pt is not None:
            return ("valid-pad-empty" if len(pt) == 0 else "valid-pad"), pt
        b = padded[-1]
        return ("pad=0" if b == 0 else ("pad>16" if b > 16 else "pad-mismatch")), None

    def aes_dec_judge(k_, kl, key, iv, ct, exp):
        """decrypt (iv, ct) with the library; exp = model plaintext or None (must be rejected)"""
        B = Bufs()
        cl = len(ct)
        poison = rng.randrange(256)
        pct, pkey, piv = B.put(ct), B.put(key), B.put(iv)
        rej, olen, out, res = aes_call("bc_aes_cbc_dec", B, cl, cl, poison, pct, cl, pkey, kl, piv)
        if exp is None:
            ctx.check(rej, k_ + "|accepted", {"out_len": olen, "out": R.get(out, min(olen, cl)).hex()})
        elif ctx.check(not rej, k_ + "|unexpected-error", {"rc": res.i, "caught": res.caught, "exp_len": len(exp)}):
            got = R.get(out, min(olen, cl))
            ctx.check(olen == len(exp) and got == exp, k_ + "|value", {"got": got.hex(), "exp": exp.hex()})
        B.free()

    def aes_corrupt_last(kl, n):
        """single-byte corruptions of the last ciphertext block; the model says which still unpad"""
        key, _ = data(kl)
        iv, _ = data(16)
        pt, _ = data(n)
        rk = mdbc.key_expansion(key)
        ct = mdbc.cbc_encrypt_raw(rk, iv, mdbc.pkcs7_pad(pt))
        prev = ct[-32:-16] if len(ct) >= 32 else iv
        head = mdbc.pkcs7_pad(pt)[:-16]
        # quick tier: every value at every position for plaintext lengths 0..17 and those congruent 0, 1, 15 mod 16
        # (all sixteen padding lengths occur), 32 random values per position otherwise; thorough tier: everything
        full = (not quick) or n <= 17 or n % 16 in (0, 1, 15)
        for pos in range(16):
            for v in (range(1, 256) if full else rng.sample(range(1, 256), 32)):
                last = bytearray(ct[-16:])
                last[pos] ^= v
                padded = head + bytes(a ^ b for a, b in zip(mdbc.decrypt_block(rk, bytes(last)), prev))
                cls, exp = padcls(padded)
                bad = ct[:-16] + bytes(last)
                case("bc_aes_cbc_dec|k%d|corrupt-last|%s" % (kl, cls),
                     {"key": key.hex(), "iv": iv.hex(), "ct": bad.hex(), "pos": pos, "xor": v},
                     lambda k_: aes_dec_judge(k_, kl, key, iv, bad, exp))

    def aes_corrupt_prev(kl, n):
        """set chosen bytes of the last plaintext block through the preceding ciphertext block / the IV"""
        key, _ = data(kl)
        iv, _ = data(16)
        pt, _ = data(n)
        rk = mdbc.key_expansion(key)
        ct = mdbc.cbc_encrypt_raw(rk, iv, mdbc.pkcs7_pad(pt))
        pad = 16 - n % 16
        edits = []   # (position in last block, new plaintext byte)
        for b in (0x00, 0x11, 0x10, 0x20, 0x80, 0xFF, pad + 1, pad - 1, 1):
            edits.append((15, b & 0xFF))
        if pad > 1:
            edits.append((16 - pad, pad ^ 1))        # first padding byte wrong
            edits.append((14, 0))                     # inner padding byte wrong
        if pad < 16:
            edits.append((15 - pad, pad))             # data byte before the padding becomes a padding look-alike
        for pos, newb in edits:
            cur = mdbc.pkcs7_pad(pt)[-16:][pos]
            delta = cur ^ newb
            if delta == 0:
                continue
            if len(ct) >= 32:
                c2 = bytearray(ct)
                c2[len(ct) - 32 + pos] ^= delta
                c2, iv2 = bytes(c2), iv
            else:
                i2 = bytearray(iv)
                i2[pos] ^= delta
                c2, iv2 = ct, bytes(i2)
            padded = mdbc.cbc_decrypt_raw(rk, iv2, c2)
            assert padded[-16:][pos] == newb
            cls, exp = padcls(padded)
            case("bc_aes_cbc_dec|k%d|corrupt-prev|%s" % (kl, cls),
                 {"key": key.hex(), "iv": iv2.hex(), "ct": c2.hex(), "pos": pos, "new_plain_byte": newb},
                 lambda k_: aes_dec_judge(k_, kl, key, iv2, c2, exp))

    def aes_hist_case(kind, kl, n):
        """the result of a call must not depend on the calls made before it (no state carried between calls):
        short histories of calls with related keys - equal, sharing the first 16 / 24 octets, differing in the last
        octet only, a shorter key that is a prefix of the next one - in one direction or alternating directions; every
        call of the history is compared with the model"""
        base, _ = data(32)
        iv, _ = data(16)
        tailflip = lambda k: k[:-1] + bytes([k[-1] ^ (1 << rng.randrange(8))])
        if kind == "same":
            keys = [base[:kl]] * 3
        elif kind == "prefix16":
            keys = [base[:kl], base[:16] + data(kl - 16)[0], base[:kl]] if kl > 16 else [base[:16], tailflip(base[:16]), base[:16]]
        elif kind == "prefix24":
            keys = [base[:kl], base[:24] + data(kl - 24)[0], base[:kl]] if kl > 24 else [base[:kl], tailflip(base[:kl]), base[:kl]]
        elif kind == "lastbyte":
            keys = [base[:kl], tailflip(base[:kl]), tailflip(tailflip(base[:kl]))]
        else:   # "grow": key lengths 16, 24, 32 sharing their prefixes, then back
            keys = [base[:16], base[:24], base[:32], base[:24], base[:16]]
        dirs = [rng.choice("ed") for _ in keys] if rng.random() < 0.5 else [rng.choice("ed")] * len(keys)
        steps = []
        for key, d_ in zip(keys, dirs):
            pt, _ = data(n)
            steps.append((key, d_, pt, mdbc.cbc_pkcs7_encrypt(key, iv, pt)))

        def body(k_):
            for i, (key, d_, pt, ct) in enumerate(steps):
                B = Bufs()
                inp, exp = (pt, ct) if d_ == "e" else (ct, pt)
                fn = "bc_aes_cbc_enc" if d_ == "e" else "bc_aes_cbc_dec"
                cap = len(ct)
                rej, olen, out, res = aes_call(fn, B, cap, cap, 0xA7, B.put(inp), len(inp), B.put(key), len(key), B.put(iv))
                if ctx.check(not rej, k_ + "|unexpected-error", {"step": i, "fn": fn, "rc": res.i, "caught": res.caught}):
                    got = R.get(out, min(olen, cap))
                    ctx.check(olen == len(exp) and got == exp, k_ + "|value",
                              {"step": i, "fn": fn, "key": key.hex(), "got": got[:48].hex(), "exp": exp[:48].hex(),
                               "earlier_keys": [s_[0].hex() for s_ in steps[:i]]})
                B.free()
        case("bc_aes_cbc|history|%s|k%d|%s" % (kind, kl, "one-direction" if len(set(dirs)) == 1 else "mixed"),
             {"keys": [s_[0].hex() for s_ in steps], "dirs": "".join(dirs), "iv": iv.hex(), "pt_len": n}, body)

    if R.has("bc_aes_cbc_enc") and R.has("bc_aes_cbc_dec"):
        for kind in ("same", "prefix16", "prefix24", "lastbyte", "grow"):
            for kl in (16, 24, 32):
                for n in (1, 16, 33) + ((0, 15, 17, 47, 48, 100) if not quick else ()):
                    for rep in range(2 if quick else 6):
                        if n == 0:
                            continue
                        if mine():
                            aes_hist_case(kind, kl, n)

    if R.has("bc_aes_cbc_enc") and R.has("bc_aes_cbc_dec"):
        ptl = list(range(0, 65)) + [79, 80, 81, 255, 256, 1000]
        for kl in (16, 24, 32):
            for n in ptl:
                for cm in ("exact", "larger", "short"):
                    if mine():
                        aes_enc_case(kl, n, cm)
                for cm in ("ctlen", "larger", "ctlen-1", "ptlen-1"):
                    if cm == "ptlen-1" and n == 0:
                        continue
                    if mine():
                        aes_dec_case(kl, n, cm)
                for fn in ("bc_aes_cbc_enc", "bc_aes_cbc_dec"):
                    if mine():
                        aes_inplace_case(fn, kl, n)
                if n <= 64 or not quick:
                    if mine():
                        aes_corrupt_last(kl, n)
                    if mine():
                        aes_corrupt_prev(kl, n)
        # key lengths other than 16/24/32 must be refused by both directions (exact-size key buffers)
        for kl in (0, 1, 8, 15, 17, 23, 25, 31, 33, 48, 64):
            for fn in ("bc_aes_cbc_enc", "bc_aes_cbc_dec"):
                if not mine():
                    continue
                key, _ = data(kl)
                iv, _ = data(16)
                inp, _ = data(32)

                def body(k_, fn=fn, key=key, iv=iv, inp=inp, kl=kl):
                    B = Bufs()
                    rej, olen, out, res = aes_call(fn, B, 48, 48, 0x5A, B.put(inp), 32, B.put(key), kl, B.put(iv))
                    ctx.check(rej, k_ + "|accepted", {"out_len": olen})
                    B.free()
                case("%s|bad-key-len" % fn, {"key_len": kl}, body)
        # ciphertext lengths that are not a positive multiple of the block size
        for cl in (0, 1, 15, 17, 31, 33, 47):
            if not mine():
                continue
            key, _ = data(16)
            iv, _ = data(16)
            ct, _ = data(cl)

            def body(k_, key=key, iv=iv, ct=ct, cl=cl):
                B = Bufs()
                rej, olen, out, res = aes_call("bc_aes_cbc_dec", B, cl + 16, cl + 16, 0x5A, B.put(ct), cl, B.put(key), 16,
                                               B.put(iv))
                ctx.check(rej, k_ + "|accepted", {"out_len": olen})
                B.free()
            case("bc_aes_cbc_dec|bad-ct-len", {"ct_len": cl}, body)
    else:
        not_built += ["bc_aes_cbc_enc", "bc_aes_cbc_dec"]

    ctx.note("functions_exercised", sorted(R.fn_seen))
    ctx.note("functions_not_built", not_built)
    ctx.note("error_codes_seen", {str(k): v for k, v in R.err_codes.items()})
    ctx.note("directed_cases_enumerated", counter[0] if ctx.shard == 0 else 0)
