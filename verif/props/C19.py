"""C19 - error handling and library context behave as a well-defined state machine.

part prog    : generated try/throw/catch/finally programs run inside the real macros (shim/vf_errprog.c)
               and compared event by event with verif/model/errmachine.py
part ctx     : sequences of core_set between independent contexts, and every order of activating the
               selectable parameter sets; behaviour compared with stateless models after each switch
part threads : tsan256 build (MULTI=PTHREAD), shim/vf_x_c19thr.c runs T threads with their own contexts
"""
import ctypes
import itertools
import json
import os
import struct
import subprocess

from ..rt import RT, MonitorViolation
from ..ctx import hx
from ..model import errmachine as em
from ..model.curves import Fp, WCurve

LEVEL = "exploration"
RULE = ("prog: every single protected block with <=2 actions per segment and every two-level nesting with <=1 "
        "action per segment is enumerated exhaustively, deeper programs (depth<=3) are sampled; a program is "
        "non-trivial when it contains at least one throw; distinct = distinct program text. ctx: distinct "
        "(history of parameter selections / context switches, probe computation). threads: distinct schedules "
        "(thread count, per-thread parameter set, yield pattern)")
ASSUMPTIONS = ["the event trace written by shim/vf_errprog.c is a faithful record (it is compiled with the real macros)",
               "finaliser-before-handler is the documented order of the macros (relic_err.h, test_err.c)",
               "TSan sees all synchronisation of the MULTI=PTHREAD build (no OpenMP)"]

EVN = {1: "nop", 2: "throw", 3: "continued-after-throw", 4: "libthrow", 5: "continued-after-libthrow", 6: "rethrow",
       7: "continued-after-rethrow", 8: "enter", 9: "handler", 10: "finally", 11: "exit", 12: "end", 13: "last-null",
       14: "libcaught", 15: "continued-after-libcaught", 16: "libok", 17: "getcode"}


def parts(tier):
    q = tier == "quick"
    return [dict(part="prog", cfg="asan256", shards=8 if q else 16),
            dict(part="ctx", cfg="asan256", shards=4 if q else 8),
            dict(part="threads", cfg="tsan256", shards=1, timeout=3600)]


def run(ctx, part):
    if part == "prog":
        run_prog(ctx)
    elif part == "ctx":
        run_ctx(ctx)
    elif part == "threads":
        run_threads(ctx)


# ------------------------------------------------------------------------------------------- prog
def classify(prog, got, exp):
    """which statement-level fact differs first -> key suffix"""
    def facts(ev):
        h = {}
        f = {}
        x = {}
        cont = 0
        end = None
        for t, a, b in ev:
            if t == 9:
                h[a] = h.get(a, 0) + 1
            elif t == 10:
                f[a] = f.get(a, 0) + 1
            elif t == 11:
                x[a] = b
            elif t in (3, 5, 7, 15):
                cont += 1
            elif t == 12:
                end = (a, b)
        return h, f, x, cont, end
    gh, gf, gx, gc, ge = facts(got)
    eh, ef, ex, ec, ee = facts(exp)
    if any(gh.get(k, 0) < v for k, v in eh.items()):
        return "handler-skipped"
    if any(eh.get(k, 0) < v for k, v in gh.items()):
        return "spurious-handler"
    if gf != ef:
        return "finaliser-count"
    if any(v == 0 for v in gx.values()) and not any(v == 0 for v in ex.values()):
        return "chain-not-restored"
    if ge != ee:
        return "sticky-code"
    if gc != ec:
        return "control-transfer"
    codes_g = [(a, b) for t, a, b in got if t == 9]
    codes_e = [(a, b) for t, a, b in exp if t == 9]
    if codes_g != codes_e:
        return "delivered-code"
    return "trace"


def shape(prog_struct_has):
    return prog_struct_has


def run_prog(ctx):
    R = RT(ctx.cfg)
    S = R.S
    S.vf_errprog_run.restype = ctypes.c_int
    S.vf_errprog_run.argtypes = [ctypes.c_void_p, ctypes.c_void_p, ctypes.c_int]
    MAXLOG = 3 * 4096
    logp = R.mem(4 * MAXLOG, 0)
    rng = ctx.rng
    nthrow = 0

    def one(prog, family):
        nonlocal nthrow
        has_throw = any(True for _ in ())  # placeholder, computed below from the model trace
        exp = em.predict(prog)
        nt = sum(1 for t, a, b in exp if t in (2, 4, 6, 14))
        in_fin = family
        key = "errprog|%s" % family
        if not ctx.begin(key, prog, nontrivial=nt > 0, budget=60):
            return
        try:
            pp = R.put(struct.pack('<%di' % len(prog), *prog))
            n = S.vf_errprog_run(pp, logp, MAXLOG)
            R.free(pp)
            if n > MAXLOG:
                ctx.fail(key + "|log-overflow", n)
                return
            raw = (ctypes.c_int * n).from_address(logp)
            got = [(raw[i], raw[i + 1], raw[i + 2]) for i in range(0, n, 3)]
            ctx.ok()
            if got != exp:
                what = classify(prog, got, exp)
                j = next((k for k, (x, y) in enumerate(zip(got, exp)) if x != y), min(len(got), len(exp)))
                ctx.fail(key + "|" + what, {"first_difference_at_event": j,
                                            "got": [(EVN.get(t, t), a, b) for t, a, b in got[max(0, j - 3):j + 3]],
                                            "expected": [(EVN.get(t, t), a, b) for t, a, b in exp[max(0, j - 3):j + 3]]})
            nthrow += nt
        finally:
            ctx.end()

    def family_of(block, nested=None):
        # class = where the interesting action sits; narrow enough to describe a defect in one macro path
        kind = block[0]
        segs = {1: "body", 2: "handler", 3: "finaliser"}
        tags = []
        for i in (1, 2, 3):
            for a in block[i]:
                if a[0] in (2, 5):
                    tags.append("block-in-" + segs[i])
                elif a[0] in (1, 3, 4, 6):
                    tags.append("throw-in-" + segs[i])
        tags = sorted(set(tags))
        return "kind%d|%s" % (kind, "+".join(tags) if tags else "no-throw")

    i = 0
    # exhaustive: single blocks
    for b in em.enum_single_blocks():
        i += 1
        if not ctx.mine(i):
            continue
        for top_pre, top_post in (([], []), ([(1, 6)], []), ([], [(4,)])):
            prog = em.enc_actions(top_pre + [(2, b)] + top_post)
            one(prog, "single|" + family_of(b) + ("|throw-outside" if top_pre or top_post else ""))
    ctx.add("exhaustive_single_block_programs", 0)
    # exhaustive: two-level nesting
    for b in em.enum_nested():
        i += 1
        if not ctx.mine(i):
            continue
        one(em.enc_actions([(2, b)]), "nested|" + family_of(b))
    # exhaustive: histories outside any block (sticky code, parked error record)
    for top, where in em.enum_outside():
        i += 1
        if not ctx.mine(i):
            continue
        one(em.enc_actions(top), "outside|%s" % (where or "top-level"))
    # sampled: deeper programs
    for _ in range(ctx.n(2500, 60000)):
        prog = em.rand_program(rng, depth=3)
        one(prog, "random-depth3")
    ctx.add("throws_executed", nthrow)
    ctx.note("functions_exercised", ["RLC_TRY", "RLC_CATCH", "RLC_CATCH_ANY", "RLC_FINALLY", "RLC_THROW", "err_get_code"])


# -------------------------------------------------------------------------------------------- ctx
def run_ctx(ctx):
    R = RT(ctx.cfg)
    rng = ctx.rng
    ids = R.ep_param_ids()
    ctx.note("parameter_sets", [n for n, _ in ids])
    K = R.K
    sz_ctx = K["sizeof_ctx_t"]
    g = R.ep_new()
    r = R.ep_new()
    r2 = R.ep_new()
    k = R.bn_new()
    msg = R.put(b"verif-c19-probe")
    fa, fb_, fc = None, None, None
    fresh = {}     # name -> observations of a freshly initialised library with that selection

    def select(name, pid):
        if name in R.TWIST_TYPE:
            R.pairing_set(name)
        else:
            R.call("ep_param_set", pid)

    def observe(name):
        """a small battery of computations whose result depends on the derived state of the selection"""
        P = R.ep_params()
        C = WCurve(Fp(P["p"]), P["a"], P["b"], P["n"])
        G = (P["gx"], P["gy"])
        obs = {}
        kv = rng.randrange(1, P["n"])
        exp = C.mul(kv, G)
        R.call("ep_curve_get_gen", g)
        R.bn_put(k, kv)
        for fn in ("ep_mul_gen", "ep_mul_lwnaf", "ep_mul_monty", "ep_mul_basic"):
            if fn == "ep_mul_gen":
                res = R.call(fn, r, k)
            else:
                res = R.call(fn, r, g, k)
            x, y, z, co, can = R.ep_get(r)
            okv = (not res.caught) and z == 1 and (x, y) == exp and can
            ctx.check(okv, "switch|%s|%s|value" % (name, fn), {"k": hx(kv), "got": [hx(x), hx(y), z], "exp": [hx(exp[0]), hx(exp[1])]})
        # field layer: inverse and square root constants
        a = R.fp_new(kv % P["p"])
        c = R.fp_new()
        res = R.call("fp_inv", c, a)
        ctx.check(R.fp_get(c)[0] == pow(kv, -1, P["p"]), "switch|%s|fp_inv|value" % name)
        res = R.call("fp_sqr", c, a)
        res = R.call("fp_srt", c, c)
        v = R.fp_get(c)[0]
        ctx.check(res.i == 1 and v * v % P["p"] == kv * kv % P["p"], "switch|%s|fp_srt|value" % name)
        R.free(a)
        R.free(c)
        # hash to curve: deterministic function of the selection
        R.call("ep_map", r, msg, 15)
        x, y, z, co, can = R.ep_get(r)
        ctx.check(C.on_curve((x, y)) and C.mul(P["n"], (x, y)) is None, "switch|%s|ep_map|subgroup" % name)
        obs["map"] = (x, y)
        # generator table based multiplication with the fixed scalar 0xC19
        R.bn_put(k, 0xC19)
        R.call("ep_mul_gen", r, k)
        x, y, z, co, can = R.ep_get(r)
        obs["gen"] = (x, y)
        if P["pairf"] and R.has("pc_map"):
            obs["pair"] = pair_obs(R)
        # chain discipline of library entry points on their early-exit paths: after a call with a degenerate scalar
        # (0, a non-zero multiple of the order, its neighbours, negative) the handler chain must be what it was
        # (monitored inside R.call: a foreign innermost frame raises MonitorViolation) and an error raised right
        # afterwards must still be delivered to the caller's own handler
        n_ = P["n"]
        zero_fp = R.fp_new(0)
        out_fp = R.fp_new()
        R.call("ep_curve_get_gen", g)
        for kc, kv2 in (("0", 0), ("n", n_), ("2n", 2 * n_), ("-n", -n_), ("n+1", n_ + 1), ("-1", -1), ("1", 1)):
            R.bn_put(k, kv2)
            exp2 = C.mul(kv2 % n_, G)
            for fn in ("ep_mul_gen", "ep_mul_basic", "ep_mul_slide", "ep_mul_monty", "ep_mul_lwnaf", "ep_mul_lwreg", "ep_mul",
                       "ep_mul_sim_gen"):
                if not R.has(fn):
                    continue
                try:
                    if fn == "ep_mul_gen":
                        res = R.call(fn, r, k)
                    elif fn == "ep_mul_sim_gen":
                        res = R.call(fn, r, k, g, k)
                    else:
                        res = R.call(fn, r, g, k)
                except MonitorViolation as e:
                    ctx.evaluations += 1
                    ctx.fail("chain|%s|k=%s|%s" % (fn, kc, e.kind), {"set": name, "detail": e.detail})
                    continue
                if not res.caught and fn != "ep_mul_sim_gen":
                    x, y, z, co, can = R.ep_get(r)
                    got = None if z == 0 else (x, y)
                    if z not in (0, 1):
                        R.call("ep_norm", r, r)
                        x, y, z, co, can = R.ep_get(r)
                        got = None if z == 0 else (x, y)
                    ctx.check(got == exp2, "chain|%s|k=%s|value" % (fn, kc), {"set": name})
                # the next error must reach the caller's handler (fp_inv(0) throws ERR_NO_VALID)
                try:
                    e2 = R.call("fp_inv", out_fp, zero_fp)
                    ctx.check(e2.caught, "chain|%s|k=%s|next-error-not-delivered" % (fn, kc), {"set": name, "err": e2.err})
                except MonitorViolation as e:
                    ctx.evaluations += 1
                    ctx.fail("chain|%s|k=%s|after-next-error|%s" % (fn, kc, e.kind), {"set": name, "detail": e.detail})
        R.free(zero_fp)
        R.free(out_fp)
        return obs

    # reference observations from a fresh context per selection
    old = R.S.vf_core_get()
    for name, pid in ids:
        blk = R.mem(sz_ctx, 0)
        R.raw("core_set", blk)
        if R.L.core_init() != 0:
            raise RuntimeError("core_init in fresh context failed")
        R.ctx = R.S.vf_core_get()
        if not ctx.begin("fresh|%s" % name, name, budget=300):
            continue
        select(name, pid)
        fresh[name] = observe(name)
        ctx.end()
        R.L.core_clean()
        R.raw("core_set", old)
        R.ctx = old
        R.free(blk)

    # (a) every order of activating selectable sets in one context (permutations of 3 of them + random long ones)
    orders = [list(p) for p in itertools.permutations(range(len(ids)), 3)]
    rng.shuffle(orders)
    n_orders = ctx.n(10, 120)
    done = 0
    for oi, order in enumerate(orders):
        if not ctx.mine(oi):
            continue
        if done >= n_orders:
            break
        done += 1
        hist = []
        for step, j in enumerate(order + [rng.randrange(len(ids)) for _ in range(3)]):
            name, pid = ids[j]
            hist.append(name)
            if not ctx.begin("switch|%s" % name, hist[-4:], budget=300):
                continue
            try:
                select(name, pid)
                if rng.random() < 0.5:
                    # heavy use in between: fill precomputation tables / pairing state
                    R.call("ep_curve_get_gen", g)
                    R.bn_put(k, rng.getrandbits(200))
                    R.call("ep_mul", r2, g, k)
                obs = observe(name)
                for what in ("map", "gen", "pair"):
                    if what in fresh[name] and what in obs:
                        ctx.check(obs[what] == fresh[name][what], "switch|%s|%s-differs-from-fresh" % (name, what),
                                  {"history": hist})
            except MonitorViolation as e:
                ctx.fail(ctx.cur_key + "|" + e.kind, e.detail)
            finally:
                ctx.end()
    # (a'') selections that are interleaved with changes which bypass ep_param_set: another prime installed through
    # fp_param_set, then the SAME curve selected again - the second selection must rebuild everything
    fp_ids = []
    for n_, v_ in R.EH.get("relic_fp.h", {}).items():
        rr = R.call("fp_param_set", v_)
        # fp_param_set silently ignores identifiers of other field sizes: keep those of the built size
        if not rr.caught and R.L.fp_param_get() == v_ and (n_.endswith("_%d" % K["FP_PRIME"]) or
                                                           (K["FP_PRIME"] == 255 and n_ in ("PRIME_25519", "PRIME_H2ADC"))):
            fp_ids.append((n_, v_))
    ctx.note("prime_field_identifiers", [n_ for n_, _ in fp_ids])
    for ci, (name, pid) in enumerate(ids):
        for oi, (fn_, fv_) in enumerate(fp_ids):
            if not ctx.mine(ci * 31 + oi):
                continue
            if not ctx.begin("reselect|%s|after-fp_param_set" % name, [name, fn_], budget=300):
                continue
            try:
                select(name, pid)
                R.call("fp_param_set", fv_)
                R.fp_setup()
                select(name, pid)
                obs = observe(name)
                for what in ("map", "gen", "pair"):
                    if what in fresh[name] and what in obs:
                        ctx.check(obs[what] == fresh[name][what], "reselect|%s|%s-differs-from-fresh" % (name, what),
                                  {"bypass": fn_})
            except MonitorViolation as e:
                ctx.fail(ctx.cur_key + "|" + e.kind, e.detail)
            finally:
                ctx.end()

    # (a') binary curves: the same requirement for eb_param_set / fb state (no model needed: the reference is a
    # freshly initialised context holding only the last selection)
    eb_ids = [(n_, v_) for n_, v_ in R.EH.get("relic_eb.h", {}).items()]
    eb_ok = []
    for n_, v_ in eb_ids:
        rr = R.call("eb_param_set", v_)
        if not rr.caught and R.L.eb_param_get() == v_:
            eb_ok.append((n_, v_))
    ctx.note("binary_parameter_sets", [n_ for n_, _ in eb_ok])
    ebsz = K.get("sizeof_eb_st")
    fbsz = K.get("sizeof_fb_st")

    def eb_observe():
        out = {}
        g_ = R.mem(ebsz, 0)
        r_ = R.mem(ebsz, 0)
        kk = R.bn(0xC19C19C19C19C19C19C19C19C19C19C19C19C19C19C19)
        R.call("eb_curve_get_gen", g_)

        def enc(P):
            n_ = R.call("eb_size_bin", P, 0).r
            b_ = R.mem(n_, 0)
            R.call("eb_write_bin", b_, n_, P, 0)
            v = R.get(b_, n_)
            R.free(b_)
            return v.hex()
        for fn in ("eb_mul_gen", "eb_mul", "eb_mul_lwnaf", "eb_mul_fix"):
            if not R.has(fn):
                continue
            if fn == "eb_mul_gen":
                rr = R.call(fn, r_, kk)
            elif fn == "eb_mul_fix":
                L_ = R.L
                L_.eb_curve_get_tab.restype = ctypes.c_void_p
                rr = R.call(fn, r_, L_.eb_curve_get_tab(), kk)
            else:
                rr = R.call(fn, r_, g_, kk)
            out[fn] = None if rr.caught else enc(r_)
        m_ = R.put(b"verif-c19-binary")
        rr = R.call("eb_map", r_, m_, 16)
        out["eb_map"] = None if rr.caught else enc(r_)
        x_ = R.put((0x1F3A5C7E9B2D4F6081A3C5E7092B4D6F8A1C3E5072941B3D5F7).to_bytes(fbsz, "little"))
        y_ = R.mem(fbsz, 0)
        for fn in ("fb_inv", "fb_srt", "fb_sqr", "fb_slv"):
            if R.has(fn):
                rr = R.call(fn, y_, x_)
                out[fn] = None if rr.caught else R.get(y_, fbsz).hex()
        for p_ in (g_, r_, m_, x_, y_):
            R.free(p_)
        R.bn_free(kk)
        return out

    if len(eb_ok) >= 2:
        eb_fresh = {}
        for n_, v_ in eb_ok:
            blk = R.mem(sz_ctx, 0)
            R.raw("core_set", blk)
            R.L.core_init()
            R.ctx = R.S.vf_core_get()
            if ctx.begin("fresh|eb:%s" % n_, n_, budget=300):
                R.call("eb_param_set", v_)
                eb_fresh[n_] = eb_observe()
                ctx.ok()
                ctx.end()
            R.L.core_clean()
            R.raw("core_set", old)
            R.ctx = old
            R.free(blk)
        for step in range(ctx.n(10, 150)):
            n_, v_ = eb_ok[rng.randrange(len(eb_ok))]
            if not ctx.begin("switch|eb:%s" % n_, [n_, step], budget=300):
                continue
            try:
                R.call("eb_param_set", v_)
                obs = eb_observe()
                for what, val in obs.items():
                    if n_ in eb_fresh:
                        ctx.check(val == eb_fresh[n_].get(what), "switch|eb:%s|%s-differs-from-fresh" % (n_, what),
                                  {"got": str(val)[:80], "fresh": str(eb_fresh[n_].get(what))[:80]})
            except MonitorViolation as e:
                ctx.fail(ctx.cur_key + "|" + e.kind, e.detail)
            finally:
                ctx.end()
        # leave a prime curve active for what follows
        R.call("ep_param_set", ids[0][1])

    # (b) independent contexts, interleaved
    nctx = 3
    blks = []
    names = []
    for t in range(nctx):
        blk = R.mem(sz_ctx, 0)
        R.raw("core_set", blk)
        R.L.core_init()
        name, pid = ids[(ctx.shard + 2 * t) % len(ids)]
        R.ctx = R.S.vf_core_get()
        select(name, pid)
        blks.append(blk)
        names.append(name)
    for step in range(ctx.n(12, 200)):
        t = rng.randrange(nctx)
        if not ctx.begin("context|%s" % names[t], [names, t], budget=300):
            continue
        try:
            R.raw("core_set", blks[t])
            R.ctx = R.S.vf_core_get()
            ctx.check(R.L.ep_param_get() == dict(ids)[names[t]], "context|%s|selection-lost" % names[t])
            # sticky code is per context: raise an error here, switch away, come back
            if rng.random() < 0.4:
                z = R.bn(0)
                o = R.bn(5)
                R.strict_chain = False
                res = R.call("bn_div", o, o, z)
                R.strict_chain = True
                # R.call resets the code; raise again without the trampoline's reset: use raw call
                R.raw("bn_div", o, o, z)
                code_here = R.rd_int(R.ctx_field("code"))
                other = blks[(t + 1) % nctx]
                R.raw("core_set", other)
                code_other = R.rd_int(other + K["off_ctx_t_code"])
                R.raw("core_set", blks[t])
                ctx.check(code_here == K["RLC_ERR"] and code_other == K["RLC_OK"], "context|%s|sticky-code-shared" % names[t],
                          {"here": code_here, "other": code_other})
                c1 = R.L.err_get_code()
                c2 = R.L.err_get_code()
                ctx.check(c1 == K["RLC_ERR"] and c2 == K["RLC_OK"], "context|%s|sticky-code" % names[t])
                # a throw outside any block parks the context's own error record in `last`
                R.wr_sz(R.ctx_field("last"), 0)
                R.bn_free(z)
                R.bn_free(o)
            obs = observe(names[t])
            for what in ("map", "gen", "pair"):
                if what in fresh[names[t]] and what in obs:
                    ctx.check(obs[what] == fresh[names[t]][what], "context|%s|%s-differs-from-fresh" % (names[t], what))
        except MonitorViolation as e:
            ctx.fail(ctx.cur_key + "|" + e.kind, e.detail)
        finally:
            ctx.end()
    for blk in blks:
        R.raw("core_set", blk)
        R.L.core_clean()
    R.raw("core_set", old)
    R.ctx = old
    ctx.note("functions_exercised", sorted(R.fn_seen))


def pair_obs(R):
    """e(G1, G2) of the active pairing curve as raw residues (compared with a fresh context only)"""
    K = R.K
    p = R.mem(K["sizeof_ep_st"], 0)
    q = R.mem(K["sizeof_ep2_st"], 0)
    e = R.fpx_new(12)
    R.call("ep_curve_get_gen", p)
    R.call("ep2_curve_get_gen", q)
    res = R.call("pc_map", e, p, q)
    out = tuple(R.fpx_get(e, 12)[0]) if not res.caught else None
    R.free(p)
    R.free(q)
    R.free(e)
    return out


# ---------------------------------------------------------------------------------------- threads
def run_threads(ctx):
    """The TSan build cannot be loaded into CPython; a native runner does the work and reports JSON."""
    from .. import build
    d = build.builddir(ctx.cfg)
    exe = os.path.join(d, "vf_thr")
    if not os.path.exists(exe):
        raise RuntimeError("thread runner not built")
    rng = ctx.rng
    nruns = ctx.n(12, 150)
    env = dict(os.environ)
    env.pop("LD_PRELOAD", None)
    total_ops = 0
    overlaps = set()
    # positive control: the race detector of this build must be alive
    logp = os.path.join(ctx.outdir, "tsan.selftest")
    env["TSAN_OPTIONS"] = "halt_on_error=0:log_path=" + logp + ":exitcode=0"
    subprocess.run([exe, "selftest-race"], env=env, stdout=subprocess.DEVNULL, stderr=subprocess.DEVNULL, timeout=300)
    import glob
    rep = "".join(open(f, errors="replace").read() for f in glob.glob(logp + ".*"))
    if "WARNING: ThreadSanitizer: data race" not in rep:
        raise RuntimeError("TSan positive control did not fire: the race monitor is dead")
    ctx.note("tsan_positive_control", True)
    for i in range(nruns):
        T = rng.choice([2, 3, 4, 8, 16])
        seed = rng.getrandbits(31)
        ops = rng.choice([20, 40, 80])
        key = "threads|T=%d" % T
        if not ctx.begin(key, {"threads": T, "seed": seed, "ops": ops}, budget=900):
            continue
        try:
            logp = os.path.join(ctx.outdir, "tsan.%s.%d" % (ctx.tag, i))
            env["TSAN_OPTIONS"] = "halt_on_error=0:report_signal_unsafe=0:log_path=" + logp + ":exitcode=0"
            p = subprocess.run([exe, str(T), str(seed), str(ops)], env=env, stdout=subprocess.PIPE,
                               stderr=subprocess.DEVNULL, timeout=850)
            out = p.stdout.decode(errors="replace")
            rep = ""
            import glob
            for f in glob.glob(logp + ".*"):
                rep += open(f, errors="replace").read()
                os.unlink(f)
            races = rep.count("WARNING: ThreadSanitizer")
            ctx.check(races == 0, key + "|tsan-report", {"reports": races, "first": rep[:3000]})
            ctx.check(p.returncode == 0, key + "|runner-exit", {"rc": p.returncode, "tail": out[-1500:]})
            res = None
            for ln in out.splitlines():
                if ln.startswith("{"):
                    res = json.loads(ln)
            if res is None:
                ctx.fail(key + "|no-result", out[-1500:])
                continue
            ctx.check(res["mismatches"] == 0, key + "|result-differs-from-single-thread", res.get("first_mismatch"))
            ctx.check(res["state_leaks"] == 0, key + "|state-shared-between-threads", res.get("first_leak"))
            total_ops += res["ops"]
            for o in res.get("overlap_pairs", []):
                overlaps.add(o)
        finally:
            ctx.end()
    ctx.add("thread_ops_executed", total_ops)
    ctx.note("distinct_overlapping_op_pairs", sorted(overlaps))
