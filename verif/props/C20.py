"""C20 - masked selection and regular exponentiation do not branch on secrets.

Builds trace256/trace255 keep the library's own optimisation flags (-O2 -funroll-loops) and add
-finstrument-functions and -fsanitize-coverage=trace-pc; shim/vf_trace.c (LD_PRELOADed, not
instrumented) records
  prim: the basic-block sequence (trace-pc return addresses) of the constant-time primitives, which
        must be identical for every selector bit and every data pattern of a given length;
  reg : the group-level call trace of the ladder / regular-recoding routines = the sequence of callees
        from a fixed vocabulary (point add/dbl/neg/..., masked copies and swaps, field mul/sqr for the
        integer/field ladders) invoked directly from the algorithm's own body, which must be identical for
        all scalars of the same bit length on a given curve.
Controls that MUST vary (dv_cmp, ep_mul_lwnaf, bn_mxp_slide) are run in every shard: a recorder that
cannot see variation makes the run inconclusive.
"""
import bisect
import ctypes
import hashlib
import subprocess

from ..rt import RT, MonitorViolation
from ..ctx import hx
from .. import build

LEVEL = "exploration"
RULE = ("prim: every primitive x length 0..3*field digits x selector bit/data pattern, trace compared with the reference "
        "pattern of that length; reg: every (routine, parameter set) x scalars of the full bit length of the order in classes "
        "{random, Hamming weight 1/2/L-1, long zero runs, even/odd, low window digits zero, alternating; for the GLS routines "
        "also zero/one/maximal digits of the base-|x| expansion}, plus groups of scalars of EQUAL shorter bit length (small "
        "lengths, 63..65, around L/2, L-65..L-1, the lengths where k+n / k+2n change bit length, a sample of the rest; all "
        "lengths when thorough) for curve routines and exponentiation ladders alike: the group-level call trace must be "
        "constant within a group; a case is non-trivial "
        "when the secret differs from the reference secret; distinct = distinct (routine, parameter set, secret)")
ASSUMPTIONS = ["the -O2 instrumented build has the same control flow at basic-block/call level as the shipped -O2 build",
               "group level = calls made directly from functions whose name starts with the routine family's prefix",
               "micro-architectural timing is outside the statement"]


def parts(tier):
    q = tier == "quick"
    return [dict(part="prim", cfg="trace256", shards=2),
            dict(part="reg", cfg="trace256", shards=10 if q else 14),
            dict(part="reg", cfg="trace255", shards=4 if q else 6),
            dict(part="reg", cfg="trace381", shards=4 if q else 6),
            # the regular recodings under other window widths (RLC_WIDTH is a build option in [2, 6])
            dict(part="reg", cfg="trace256w2", shards=6 if q else 14)] + \
        ([] if q else [dict(part="reg", cfg="trace256w6", shards=14), dict(part="reg", cfg="trace255w3", shards=6)])


class Tracer(object):
    def __init__(self, R, cfg):
        self.R = R
        lp = build.libpaths(cfg)
        self.T = ctypes.CDLL(lp["trace"], mode=ctypes.RTLD_GLOBAL)
        T = self.T
        T.vt_init.argtypes = [ctypes.c_size_t, ctypes.c_size_t]
        T.vt_ncalls.restype = ctypes.c_size_t
        T.vt_npcs.restype = ctypes.c_size_t
        T.vt_dropped.restype = ctypes.c_size_t
        T.vt_calls.restype = ctypes.c_void_p
        T.vt_pcs.restype = ctypes.c_void_p
        T.vt_ranges.argtypes = [ctypes.c_void_p, ctypes.c_int]
        if not T.vt_init(1 << 22, 1 << 22):
            raise RuntimeError("trace buffers")
        self.base = None
        for line in open("/proc/self/maps"):
            if lp["relic"] in line:
                self.base = int(line.split("-")[0], 16)
                break
        if self.base is None:
            raise RuntimeError("librelic.so not mapped")
        self.syms = []
        out = subprocess.check_output(["nm", "-n", "-S", "--defined-only", lp["relic"]], text=True)
        for ln in out.splitlines():
            q = ln.split()
            if len(q) == 4 and q[2] in "tT":
                self.syms.append((int(q[0], 16), int(q[1], 16), q[3]))
        self.addrs = [a for a, _, _ in self.syms]
        self.cache = {}

    def name(self, addr):
        n = self.cache.get(addr)
        if n is None:
            i = bisect.bisect_right(self.addrs, addr - self.base) - 1
            n = self.syms[i][2] if i >= 0 else "?"
            n = n.split(".")[0]
            self.cache[addr] = n
        return n

    def set_bodies(self, prefixes):
        """calls are recorded when the call site lies in a function whose name starts with one of prefixes"""
        rs = []
        for a, sz, n in self.syms:
            if n.split(".")[0].startswith(tuple(prefixes)):
                rs += [self.base + a, self.base + a + max(sz, 1)]
        if not rs:
            raise RuntimeError("no body functions for %r" % (prefixes,))
        if len(rs) // 2 > 256:
            raise RuntimeError("too many body functions for %r" % (prefixes,))
        arr = (ctypes.c_size_t * len(rs))(*rs)
        self.T.vt_ranges(ctypes.addressof(arr), len(rs) // 2)
        return len(rs) // 2

    def calls(self, voc, fname, *args):
        """-> (tuple of callee names in voc, call result)"""
        T = self.T
        T.vt_arm(1, 0)
        res = self.R.call(fname, *args)
        T.vt_disarm()
        if T.vt_dropped():
            raise RuntimeError("trace buffer overflow in " + fname)
        n = T.vt_ncalls()
        raw = (ctypes.c_size_t * n).from_address(T.vt_calls())
        seq = []
        nm = self.name
        for i in range(n):
            s = nm(raw[i])
            if s.startswith(voc):
                seq.append(s)
        return tuple(seq), res

    def pcs(self, fname, *args):
        T = self.T
        T.vt_arm(0, 1)
        res = self.R.call(fname, *args)
        T.vt_disarm()
        if T.vt_dropped():
            raise RuntimeError("trace buffer overflow in " + fname)
        n = T.vt_npcs()
        raw = ctypes.string_at(T.vt_pcs(), 8 * n)
        return hashlib.sha1(raw).hexdigest()[:16], n, res


def run(ctx, part):
    R = RT(ctx.cfg)
    R.strict_chain = False
    tr = Tracer(R, ctx.cfg)
    if part == "prim":
        run_prim(ctx, R, tr)
    else:
        run_reg(ctx, R, tr)
    ctx.note("functions_exercised", sorted(R.fn_seen))


# ------------------------------------------------------------------------------------------ prim
def run_prim(ctx, R, tr):
    rng = ctx.rng
    DB = R.DB
    R.call("ep_param_set_any")
    R.fp_setup()
    FD = R.FP_DIGS
    idx = 0

    def patterns(nbytes):
        """(label, a, b) byte strings of the given length: data the primitive must not branch on"""
        z = bytes(nbytes)
        out = [("zero/zero", z, z)]
        if nbytes == 0:
            return out
        r1 = bytes(rng.getrandbits(8) for _ in range(nbytes))
        r2 = bytes(rng.getrandbits(8) for _ in range(nbytes))
        ff = b"\xff" * nbytes
        first = bytes([r1[0] ^ 1]) + r1[1:]
        last = r1[:-1] + bytes([r1[-1] ^ 0x80])
        mid = r1[:nbytes // 2] + bytes([r1[nbytes // 2] ^ 0x10]) + r1[nbytes // 2 + 1:]
        out += [("equal", r1, r1), ("differ-first", r1, first), ("differ-last", r1, last), ("differ-middle", r1, mid),
                ("differ-all", r1, r2), ("ones/zero", ff, z), ("zero/ones", z, ff), ("greater-first-byte", ff, r1),
                ("less-first-byte", z, r1)]
        return out

    def prim_case(prim, label, ndig_or_bytes, variants, control=False):
        """variants: list of (class label, callable -> (hash, n)); all hashes must equal the first"""
        nonlocal idx
        ref = None
        seen = set()
        for cls, fn in variants:
            key = "%s|%s" % (prim, cls)
            if not ctx.begin(key, {"len": ndig_or_bytes, "variant": label}, nontrivial=ref is not None, budget=60):
                continue
            try:
                h, n, res = fn()
                seen.add(h)
                if control:
                    ctx.ok()
                    continue
                if ref is None:
                    ref = (h, n, cls)
                    ctx.ok()
                else:
                    ctx.check(h == ref[0], key + "|trace-differs",
                              {"len": ndig_or_bytes, "blocks": n, "reference": {"class": ref[2], "blocks": ref[1]}})
            finally:
                ctx.end()
        return seen

    lens = list(range(0, 3 * FD + 1))
    control_varies = 0
    for nd in lens:
        nb = nd * DB
        if not ctx.mine(nd):
            continue
        pats = patterns(nb)
        # dv_copy_sec / dv_swap_sec: selector bit x data
        for prim in ("dv_copy_sec", "dv_swap_sec"):
            vs = []
            for lab, a, b in pats:
                for bit in (0, 1):
                    def f(a=a, b=b, bit=bit, prim=prim):
                        pa, pb = R.put(a), R.put(b)
                        try:
                            out = tr.pcs(prim, pa, pb, nd, bit)
                            got_a, got_b = R.get(pa, nb), R.get(pb, nb)
                            if prim == "dv_copy_sec":
                                okv = got_a == (b if bit else a) and got_b == b
                            else:
                                okv = (got_a, got_b) == ((b, a) if bit else (a, b))
                            if not okv:
                                ctx.fail(prim + "|value", {"bit": bit, "len": nd})
                            return out
                        finally:
                            R.free(pa)
                            R.free(pb)
                    vs.append(("bit%d,%s" % (bit, lab), f))
            prim_case(prim, "digits=%d" % nd, nd, vs)
        # dv_cmp_sec (digits) and util_cmp_sec (bytes, every length - not only whole digits): data only
        for prim, ln in [("dv_cmp_sec", nd)] + [("util_cmp_sec", nb + j) for j in range(DB)]:
            if prim == "util_cmp_sec":
                pats = patterns(ln)
            vs = []
            for lab, a, b in pats:
                def f(a=a, b=b, prim=prim, ln=ln):
                    pa, pb = R.put(a), R.put(b)
                    try:
                        h, n, res = tr.pcs(prim, pa, pb, ln)
                        exp_ne = a != b
                        if (res.i != R.K["RLC_EQ"]) != exp_ne:
                            ctx.fail(prim + "|value", {"len": ln, "got": res.i})
                        return h, n, res
                    finally:
                        R.free(pa)
                        R.free(pb)
                vs.append((lab, f))
            prim_case(prim, "len=%d" % ln, ln, vs)
        pats = patterns(nb)
        # control: the variable-time comparison must show variation for nd >= 2
        if nd >= 2:
            vs = []
            for lab, a, b in pats:
                def f(a=a, b=b):
                    pa, pb = R.put(a), R.put(b)
                    try:
                        return tr.pcs("dv_cmp", pa, pb, nd)
                    finally:
                        R.free(pa)
                        R.free(pb)
                vs.append((lab, f))
            seen = prim_case("control:dv_cmp", "digits=%d" % nd, nd, vs, control=True)
            if len(seen) > 1:
                control_varies += 1
    # fixed-size masked copies of field / extension elements
    for fn, deg in (("fp_copy_sec", 1), ("fp2_copy_sec", 2), ("fp3_copy_sec", 3), ("fp4_copy_sec", 4), ("fp6_copy_sec", 6),
                    ("fp8_copy_sec", 8), ("fp9_copy_sec", 9), ("fp12_copy_sec", 12), ("fp16_copy_sec", 16),
                    ("fp18_copy_sec", 18), ("fp24_copy_sec", 24), ("fp48_copy_sec", 48), ("fp54_copy_sec", 54)):
        if not R.has(fn) or not ctx.mine(deg):
            continue
        nb = deg * R.fp_sz
        vs = []
        for lab, a, b in patterns(nb):
            for bit in (0, 1):
                def f(a=a, b=b, bit=bit, fn=fn, nb=nb):
                    pa, pb = R.put(a), R.put(b)
                    try:
                        out = tr.pcs(fn, pa, pb, bit)
                        if R.get(pa, nb) != (b if bit else a):
                            ctx.fail(fn + "|value", {"bit": bit})
                        return out
                    finally:
                        R.free(pa)
                        R.free(pb)
                vs.append(("bit%d,%s" % (bit, lab), f))
        prim_case(fn, "deg=%d" % deg, deg, vs)
    ctx.add("control_dv_cmp_lengths_with_variation", control_varies)
    if ctx.shard == 0 and control_varies == 0:
        raise RuntimeError("positive control failed: dv_cmp shows no trace variation, the pc recorder is blind")


# ------------------------------------------------------------------------------------------- reg
EPV = ("ep_add", "ep_dbl", "ep_neg", "ep_sub", "ep_psi", "ep_norm", "ep_tab", "ep_blind", "ep_copy", "ep_set_infty",
       "fp_copy_sec", "dv_swap_sec", "dv_copy_sec", "fp_mul", "fp_sqr", "fp_inv", "fp_add", "fp_sub")
EP2V = ("ep2_add", "ep2_dbl", "ep2_neg", "ep2_sub", "ep2_frb", "ep2_norm", "ep2_tab", "ep2_blind", "ep2_copy",
        "ep2_set_infty", "fp2_copy_sec", "fp_copy_sec", "dv_swap_sec", "dv_copy_sec", "fp2_mul", "fp2_sqr")
EDV = ("ed_add", "ed_dbl", "ed_neg", "ed_sub", "ed_norm", "ed_tab", "ed_blind", "ed_copy", "ed_set_infty", "fp_copy_sec",
       "dv_swap_sec", "dv_copy_sec", "fp_mul", "fp_sqr", "fp_inv")
EBV = ("eb_add", "eb_dbl", "eb_neg", "eb_sub", "eb_hlv", "eb_frb", "eb_norm", "eb_copy", "eb_set_infty", "fb_mul", "fb_sqr",
       "fb_inv", "fb_add", "dv_swap_sec", "dv_copy_sec")
BNV = ("bn_mul", "bn_sqr", "bn_mod", "dv_swap_sec", "dv_copy_sec", "bn_copy", "bn_get_bit")
FPV = ("fp_mul", "fp_sqr", "fp_copy_sec", "dv_swap_sec", "dv_copy_sec", "fp_inv", "fp_copy")
FBV = ("fb_mul", "fb_sqr", "dv_swap_sec", "dv_copy_sec", "fb_copy", "fb_inv")
GTV = ("fp12_mul", "fp12_sqr", "fp12_inv", "fp12_frb", "fp12_copy_sec", "fp12_copy", "fp12_exp", "fp12_set_dig",
       "fp12_sqr_cyc", "fp12_inv_cyc", "fp12_mul_lazyr", "fp12_sqr_pck", "fp12_back_cyc", "fp2_copy_sec", "fp_copy_sec",
       "dv_copy_sec", "dv_swap_sec")


def length_groups(rng, L, order, quick):
    """groups of scalars of EQUAL bit length b < L: within a group the group-level trace must not vary.
    Lengths: small ones, around L/2, just below L, the lengths at which k + n or k + 2n change their bit
    length (the padding tricks of the ladders), and a random sample of the rest (all lengths when thorough)."""
    lens = set([1, 2, 3, 8, 63, 64, 65, L // 4, L // 2 - 1, L // 2, L // 2 + 1, L - 65, L - 64, L - 2, L - 1])
    if order is not None:
        for d in (abs((1 << L) - order), abs(order - (1 << (L - 1))), abs((1 << (L + 1)) - 2 * order),
                  abs((1 << L) - 2 * order) if 2 * order > (1 << L) else 0):
            if d:
                for e in (-1, 0, 1, 2):
                    lens.add(d.bit_length() + e)
    rest = [b for b in range(1, L) if b not in lens]
    lens.update(rest if not quick else rng.sample(rest, min(len(rest), 12)))
    out = []
    for b in sorted(x for x in lens if 1 <= x < L):
        lo, hi = 1 << (b - 1), (1 << b) - 1
        vs = [("shorter:min", lo), ("shorter:max", hi)]
        if b > 2:
            vs += [("shorter:random", lo | rng.getrandbits(b - 1)), ("shorter:random", lo | rng.getrandbits(b - 1))]
        out.append((b, vs))
    return out


def gls_digit_scalars(rng, L, order, x, n):
    """full-length scalars built from their base-|x| expansion k = d0 + d1|x| + d2|x|^2 + d3|x|^3 (x the curve
    parameter): zero, one and maximal digits at every position - the GLS recodings work on these digits"""
    out = []
    ax = abs(x)
    if ax < 4:
        return out
    tries = 0
    while len(out) < n and tries < 50 * n:
        tries += 1
        d = [rng.randrange(ax) for _ in range(4)]
        pos = rng.randrange(3)
        what = rng.choice(["zero", "one", "max"])
        d[pos] = {"zero": 0, "one": 1, "max": ax - 1}[what]
        if rng.random() < 0.3:
            p2 = rng.randrange(3)
            d[p2] = 0
        k = d[0] + d[1] * ax + d[2] * ax ** 2 + d[3] * ax ** 3
        if k.bit_length() == L and k < order:
            out.append(("gls-digit-%s@%d" % (what, pos), k))
    return out


def order_edge(order, L):
    """scalars around the group order that have the full bit length: legal inputs (reduced by the routines), and the
    place where a 'reduced scalar is zero' shortcut would show"""
    return [(lab, v) for lab, v in (("order-1", order - 1), ("order", order), ("order+1", order + 1)) if v.bit_length() == L]


def scalar_classes(rng, L, hi, n):
    """n scalars of exactly L bits (top bit set), all < hi when hi is given"""
    out = []
    top = 1 << (L - 1)
    for i in range(n):
        c = i % 10
        if c == 0:
            v, lab = top | rng.getrandbits(L - 1), "random"
        elif c == 1:
            v, lab = top, "hw1"
        elif c == 2:
            v, lab = top | (1 << rng.randrange(0, L - 1)), "hw2"
        elif c == 3:
            v, lab = (1 << L) - 1 - (1 << rng.randrange(0, L - 1)), "hw-high"
        elif c == 4:
            v, lab = top | (rng.getrandbits(40) << rng.randrange(0, max(1, L - 45))), "long-zero-runs"
        elif c == 5:
            v, lab = (top | rng.getrandbits(L - 1)) & ~1, "even"
        elif c == 6:
            v, lab = top | rng.getrandbits(L - 1) | 1, "odd"
        elif c == 7:
            w = rng.randrange(2, 9)
            v, lab = ((top | rng.getrandbits(L - 1)) >> w << w) | rng.randrange(0, 2), "low-window-zero"
        elif c == 8:
            v, lab = top | (int("10" * (L // 2 + 1), 2) & (top - 1)), "alternating"
        else:
            w = rng.randrange(2, 7)
            v = top | rng.getrandbits(L - 1)
            v &= ~(((1 << w) - 1) << (w * rng.randrange(1, max(2, (L - 1) // w))))
            v |= top
            lab = "zero-window-digit"
        if hi is not None and v >= hi:
            v = hi - 1 - rng.getrandbits(L // 2)
            lab += "(clamped)"
        if v.bit_length() != L:
            v = top | 1
        out.append((lab, v))
    return out


def run_reg(ctx, R, tr):
    rng = ctx.rng
    K = R.K
    nsc = ctx.n(40, 400)
    unit = 0
    controls_varying = 0
    controls_run = 0

    def observe(label, pset, bodies, voc, fname, argf, scalars, control=False, order=None, L=None, longer=None, red=None):
        """one (routine, parameter set): all scalars of one bit length must give one group-level trace"""
        seen = observe1(label, pset, bodies, voc, fname, argf, scalars, control)
        if order is not None and not control:
            for b, vs in length_groups(rng, L, order, ctx.quick):
                observe1(label, pset, bodies, voc, fname, argf, vs, False, record=False,
                         suffix="|scalar<=%dbits" % R.DIG if b <= R.DIG else "|shorter-scalars")
        if not control and scalars and voc in (EPV, EP2V, EDV, EBV):
            # curve routines accept negative scalars and negation is one of the group-level operations the property
            # names: k and -k of the same magnitude must give one trace.  (The exponentiation ladders are not held to
            # this: a negative exponent denotes an additional inversion, a different public operation.)
            pos = [(lab, v) for lab, v in scalars if v > 0 and not lab.startswith("order")][:4]
            vs = []
            for lab, v in pos:
                vs += [(lab, v), ("neg:" + lab, -v)]
            if vs:
                observe1(label, pset, bodies, voc, fname, argf, vs, False, record=False, suffix="|negative-scalars")
        if longer and not control:
            # scalars LONGER than the group order / the field: still one trace per bit length.  `red` is the modulus a
            # routine could be tempted to reduce the scalar by first (n, p - 1, 2^m - 1): multiples of it plus a
            # small value, and values just below a multiple, have the given length but a tiny / maximal residue
            for b in longer:
                tr.set_bodies(bodies)
                probe = (1 << (b - 1)) | rng.getrandbits(b - 1)
                try:
                    _, res = tr.calls(voc, fname, *argf(probe))
                except MonitorViolation:
                    res = None
                if res is None or res.caught:
                    ctx.info.setdefault("longer_scalars_refused", []).append("%s|%s|%d" % (label, pset, b))
                    continue
                vs = scalar_classes(rng, b, None, 6 if ctx.quick else 20)
                if red and red.bit_length() < b - 1:
                    for lab, small in (("residue-small", 3), ("residue-zero", 0), ("residue-max", red - 1)):
                        t = ((1 << (b - 1)) // red) + 1 + rng.getrandbits(max(1, b - 2 - red.bit_length()))
                        v = t * red + small
                        if v.bit_length() == b:
                            vs.append((lab, v))
                observe1(label, pset, bodies, voc, fname, argf, vs, False, record=False, suffix="|longer-scalars")
        return seen

    def observe1(label, pset, bodies, voc, fname, argf, scalars, control=False, record=True, suffix=""):
        nonlocal controls_varying, controls_run
        tr.set_bodies(bodies)
        ref = None
        seen = {}
        for lab, v in scalars:
            key = "%s|%s|%s" % (label, pset, lab.replace("(clamped)", ""))
            if control:
                key = "control:" + key
            if not ctx.begin(key, {"k": hx(v)}, nontrivial=ref is not None, budget=120):
                continue
            try:
                seq, res = tr.calls(voc, fname, *argf(v))
                if res.caught:
                    ctx.fail(key + "|unexpected-error", {"err": res.err})
                    continue
                h = hashlib.sha1(" ".join(seq).encode()).hexdigest()[:12]
                seen.setdefault(h, (lab, v, len(seq), seq))
                if control:
                    ctx.ok()
                    continue
                if len(seq) == 0:
                    if record:
                        ctx.fail("%s|%s|empty-trace" % (label, pset), "no group-level event recorded: vocabulary/body mismatch")
                    continue
                if ref is None:
                    ref = (h, lab, v, seq)
                    ctx.ok()
                elif h == ref[0]:
                    ctx.ok()
                else:
                    ctx.ok()
                    a, b = ref[3], seq
                    j = next((i for i, (x, y) in enumerate(zip(a, b)) if x != y), min(len(a), len(b)))
                    # scalars around the group order get a key of their own: what happens there (result O or +-P) must
                    # not share a key with a variation among ordinary scalars
                    sfx = suffix + ("|scalar=" + lab if lab.startswith("order") else "")
                    ctx.fail("%s|%s|trace-varies%s" % (label, pset, sfx),
                             {"reference": {"class": ref[1], "k": hx(ref[2]), "events": len(a)},
                              "this": {"class": lab, "k": hx(v), "events": len(b)},
                              "first_difference_at": j, "ref_around": list(a[max(0, j - 3):j + 4]),
                              "this_around": list(b[max(0, j - 3):j + 4])})
            except MonitorViolation as e:
                ctx.fail(key + "|" + e.kind, e.detail)
            finally:
                ctx.end()
        if control:
            controls_run += 1
            if len(seen) > 1:
                controls_varying += 1
        elif ref is not None and record:
            ctx.add("trace_lengths", 0)
            ctx.info.setdefault("group_level_trace_events", {})["%s|%s" % (label, pset)] = len(ref[3])
        return seen

    bnk = R.bn_new()

    def kbn(v):
        return R.bn_put(bnk, v)

    # ---- prime curves
    ids = R.ep_param_ids()
    ctx.note("parameter_sets", [n for n, _ in ids])
    for name, pid in ids:
        if name in R.TWIST_TYPE:
            P = R.pairing_set(name)
        else:
            R.call("ep_param_set", pid)
            P = R.ep_params()
        n = P["n"]
        L = n.bit_length()
        g = R.ep_new()
        r = R.ep_new()
        R.call("ep_curve_get_gen", g)
        # a random subgroup point as base
        R.call("ep_mul_gen", g, kbn(rng.randrange(2, n)))
        gg = R.ep_new()
        R.call("ep_curve_get_gen", gg)
        for fn in ("ep_mul_monty", "ep_mul_lwreg"):
            unit += 1
            if ctx.mine(unit) and R.has(fn):
                observe(fn, name, ("ep_mul_",), EPV, fn, lambda v: (r, g, kbn(v)), scalar_classes(rng, L, n, nsc) + order_edge(n, L),
                        order=n, L=L, longer=(L + 1, L + 64, 2 * L), red=n)
            # the curve generator as base point (a public input: precomputed tables exist for it)
            unit += 1
            if ctx.mine(unit) and R.has(fn):
                observe(fn, name + ",base=G", ("ep_mul_",), EPV, fn, lambda v: (r, gg, kbn(v)),
                        scalar_classes(rng, L, n, max(10, nsc // 2)) + order_edge(n, L))
        unit += 1
        if ctx.mine(unit):
            observe("ep_mul_lwnaf", name, ("ep_mul_",), EPV, "ep_mul_lwnaf", lambda v: (r, g, kbn(v)),
                    scalar_classes(rng, L, n, 10), control=True)
        # pairing groups
        if P["pairf"] and R.has("ep2_mul_monty"):
            q = R.mem(K["sizeof_ep2_st"], 0)
            r2 = R.mem(K["sizeof_ep2_st"], 0)
            R.call("ep2_curve_get_gen", q)
            xb = R.bn_new()
            R.call("fp_prime_get_par", xb)
            xpar = R.bn_val(xb)
            gls = gls_digit_scalars(rng, L, n, xpar, 24)
            for fn in ("ep2_mul_monty", "ep2_mul_lwreg"):
                unit += 1
                if ctx.mine(unit) and R.has(fn):
                    observe(fn, name, ("ep2_mul_",), EP2V, fn, lambda v: (r2, q, kbn(v)), scalar_classes(rng, L, n, nsc) + gls + order_edge(n, L),
                            order=n, L=L)
            e = R.fpx_new(12)
            o = R.fpx_new(12)
            R.call("gt_get_gen", e)
            unit += 1
            if ctx.mine(unit):
                observe("gt_exp_sec", name, ("gt_exp",), GTV, "gt_exp_sec", lambda v: (o, e, kbn(v)),
                        scalar_classes(rng, L, n, nsc) + gls + order_edge(n, L), order=n, L=L)
            unit += 1
            if ctx.mine(unit):
                observe("g1_mul_sec", name, ("ep_mul_",), EPV, "g1_mul_sec", lambda v: (r, g, kbn(v)),
                        scalar_classes(rng, L, n, max(10, nsc // 2)) + order_edge(n, L), order=n, L=L)
            unit += 1
            if ctx.mine(unit):
                observe("g1_mul_sec", name + ",base=G", ("ep_mul_",), EPV, "g1_mul_sec", lambda v: (r, gg, kbn(v)),
                        scalar_classes(rng, L, n, 10) + order_edge(n, L))
            unit += 1
            if ctx.mine(unit):
                observe("g2_mul_sec", name, ("ep2_mul_",), EP2V, "g2_mul_sec", lambda v: (r2, q, kbn(v)),
                        scalar_classes(rng, L, n, max(10, nsc // 2)) + gls + order_edge(n, L), order=n, L=L)
            for p_ in (q, r2, e, o):
                R.free(p_)
        R.free(g)
        R.free(gg)
        R.free(r)
    # ---- Edwards (255-bit build)
    if R.has("ed_param_set_any") and "sizeof_ed_st" in K:
        res = R.call("ed_param_set_any")
        if not res.caught and R.L.ed_param_get() != 0:
            R.fp_setup()
            nb = R.bn_new()
            R.call("ed_curve_get_ord", nb)
            n = R.bn_val(nb)
            L = n.bit_length()
            g = R.mem(K["sizeof_ed_st"], 0)
            r = R.mem(K["sizeof_ed_st"], 0)
            R.call("ed_curve_get_gen", g)
            for fn in ("ed_mul_monty", "ed_mul_lwreg"):
                unit += 1
                if ctx.mine(unit) and R.has(fn):
                    observe(fn, "ED25519", ("ed_mul_",), EDV, fn, lambda v: (r, g, kbn(v)), scalar_classes(rng, L, n, nsc) + order_edge(n, L),
                            order=n, L=L)
    # ---- binary curves and fields, integer / field ladders (256-bit build only: the code is the same)
    if ctx.cfg in ("trace256", "trace256w6"):
        for setter, nm in (("eb_param_set_any_plain", "B283"), ("eb_param_set_any_kbltz", "K283")):
            if not R.has(setter):
                continue
            res = R.call(setter)
            if res.caught:
                continue
            nb = R.bn_new()
            R.call("eb_curve_get_ord", nb)
            n = R.bn_val(nb)
            L = n.bit_length()
            g = R.mem(K["sizeof_eb_st"], 0)
            r = R.mem(K["sizeof_eb_st"], 0)
            R.call("eb_curve_get_gen", g)
            unit += 1
            if ctx.mine(unit):
                observe("eb_mul_lodah", nm, ("eb_mul_",), EBV, "eb_mul_lodah", lambda v: (r, g, kbn(v)),
                        scalar_classes(rng, L, n, nsc) + order_edge(n, L), order=n, L=L)
        # fb_exp_monty
        fbsz = K["sizeof_fb_st"]
        fx = R.put((rng.getrandbits(K["RLC_FB_BITS"] - 3)).to_bytes(fbsz, "little"))
        fo = R.mem(fbsz, 0)
        unit += 1
        if ctx.mine(unit) and R.has("fb_exp_monty"):
            observe("fb_exp_monty", "GF(2^%d)" % K["RLC_FB_BITS"], ("fb_exp_",), FBV, "fb_exp_monty",
                    lambda v: (fo, fx, kbn(v)), scalar_classes(rng, K["RLC_FB_BITS"], None, nsc),
                    order=1 << K["RLC_FB_BITS"], L=K["RLC_FB_BITS"],
                    longer=(K["RLC_FB_BITS"] + 1, K["RLC_FB_BITS"] + 37, 2 * K["RLC_FB_BITS"]), red=(1 << K["RLC_FB_BITS"]) - 1)
        # bn_mxp_monty, 1024-bit and 512-bit exponents
        for bits in (512, 1024):
            m = rng.getrandbits(bits) | (1 << (bits - 1)) | 1
            a = rng.getrandbits(bits - 8)
            pa, pm, pc = R.bn(a), R.bn(m), R.bn_new()
            unit += 1
            if ctx.mine(unit):
                observe("bn_mxp_monty", "%d-bit" % bits, ("bn_mxp_",), BNV, "bn_mxp_monty", lambda v: (pc, pa, kbn(v), pm),
                        scalar_classes(rng, bits, None, max(10, nsc // 2)), order=1 << bits, L=bits,
                        longer=(bits + 1, bits + 64) + ((2 * bits,) if bits == 512 else ()))
            unit += 1
            if ctx.mine(unit) and bits == 512:
                observe("bn_mxp_slide", "%d-bit" % bits, ("bn_mxp_",), BNV, "bn_mxp_slide", lambda v: (pc, pa, kbn(v), pm),
                        scalar_classes(rng, bits, None, 10), control=True)
        # fp_exp_monty on every prime
        for name, pid in ids:
            R.call("ep_param_set", pid)
            R.fp_setup()
            x = R.fp_new(rng.randrange(2, R.p))
            o = R.fp_new()
            unit += 1
            if ctx.mine(unit):
                observe("fp_exp_monty", name, ("fp_exp_",), FPV, "fp_exp_monty", lambda v: (o, x, kbn(v)),
                        scalar_classes(rng, R.p.bit_length(), None, nsc), order=R.p, L=R.p.bit_length(),
                        longer=(R.p.bit_length() + 1, R.p.bit_length() + 64, 2 * R.p.bit_length()), red=R.p - 1)
    ctx.add("controls_run", controls_run)
    ctx.add("controls_varying", controls_varying)
    if controls_run and not controls_varying:
        raise RuntimeError("positive control failed: no non-regular control routine showed trace variation")


def finish(cov):
    cov["note"] = "trace lengths per (routine, parameter set) are under group_level_trace_events"
