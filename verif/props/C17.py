"""C17 - Edwards curves implement the twisted-Edwards group (255-bit build: Ed25519).

Oracle: model/edwards.py (complete affine addition law on Python ints).  Two parts:
  law  point operations in affine, projective and extended coordinates, comparison, validity, normalisation,
       compression, byte round trips, hashing to the curve
  mul  every scalar multiplication (plain, fixed base, simultaneous) on the prime-order subgroup
"""
import ctypes
import json
import os

from ..rt import RT
from ..ctx import hx
from ..model.edwards import EdCurve
from ..model.curves import is_probable_prime
from .C16 import Case, impl_of

LEVEL = "exploration"
RULE = ("law part: points O, of order 2, 4 and 8, prime-order subgroup points and points outside the subgroup, all given "
        "as [s]G + [t]T (T of order 8 built by the model), P=Q, P=-Q, written raw in affine, projective (random Z, Z=1) "
        "and extended coordinates (T = XY/Z kept consistent by the driver), every alias pattern; outputs read raw, "
        "compared as group elements, extended outputs must satisfy TZ = XY, affine outputs Z = 1. "
        "mul part: base points [s]G with known s and the neutral element, result separate and in place (r == p, r == q); scalars 0, +-1, 2, n-1, n, n+1, 2n, kn+-1, "
        "2^k, 2^k-1, alternating, negative, up to the bn capacity; verdict policy of DESIGN 3/C03: 0 <= k < n must give "
        "[k]P without error, any other scalar may give [k]P or raise an error. "
        "A case is non-trivial when no operand is the neutral element/zero; distinct = distinct (key, inputs)")
ASSUMPTIONS = ["model/edwards.py: the complete affine law of a x^2 + y^2 = 1 + d x^2 y^2 with a = -1, d = -121665/121666 "
               "over GF(2^255 - 19) (the library has no getter for a and d; a library that used other constants would "
               "disagree with the model on every addition)",
               "G, n and h are read through ed_curve_get_gen/ord/cof; G on the curve, n prime, [n]G = O and the "
               "existence of a point of order h = 8 are re-checked by the model",
               "E(GF(p)) = <G> x Z/8, so [k]([s]G + [t]T) = [ks mod n]G + [kt mod 8]T",
               "scalar multiplications are judged on the prime-order subgroup and the neutral element (property text), "
               "with affine (BASIC) operands; projective/extended operands are exercised on the point operations",
               "ed_upk of an ordinate that belongs to no point and deep decoding checks belong to C07; here only "
               "round trips of curve points are judged"]

KNOWN = os.environ.get("VF_KNOWN") or os.path.join(
    os.path.dirname(os.path.dirname(os.path.dirname(os.path.abspath(__file__)))), "known_findings.jsonl")

# Fatal defects listed as known are produced by one directed case each (first thing in one shard); the generators
# step around the predicate while the finding is listed (see C16.py).  name -> [key pattern of the known finding]
CONFINE = {
    "fix_basic_long": ["ed_mul_fix_basic|*x[lh]|crash:*"],
}


def load_confined():
    listed = set()
    try:
        for ln in open(KNOWN):
            ln = ln.strip()
            if not ln or ln.startswith("#"):
                continue
            k = json.loads(ln)
            if k.get("property") == "C17" and k.get("status") == "known":
                listed.add(k.get("key"))
    except OSError:
        pass
    return set(name for name, pats in CONFINE.items() if pats[0] in listed)


def parts(tier):
    q = tier == "quick"
    # asan255: default ED_METHD (projective addition); asan255e: extended coordinates as the default system
    # (ED_ADD == EXTND), where every point carries t and the default routines read it
    return [dict(part="law", cfg="asan255", shards=4 if q else 8),
            dict(part="mul", cfg="asan255", shards=7 if q else 16),
            dict(part="law", cfg="asan255e", shards=2 if q else 6),
            dict(part="mul", cfg="asan255e", shards=3 if q else 12)]


# ===================================================================================== objects and model
class EX(object):
    """raw ed_st layer: x, y, z, t are fp_st in the library's (Montgomery) representation"""

    def __init__(self, R):
        self.R = R
        K = R.K
        self.sz = K["sizeof_ed_st"]
        self.ox, self.oy, self.oz, self.ot, self.oc = (K["off_ed_st_x"], K["off_ed_st_y"], K["off_ed_st_z"],
                                                       K["off_ed_st_t"], K["off_ed_st_coord"])
        self.BASIC, self.PROJC, self.EXTND = K["BASIC"], K["PROJC"], K["EXTND"]
        self.X = {}
        S = R.S
        S.vf_x17_const_name.restype = ctypes.c_char_p
        S.vf_x17_const_val.restype = ctypes.c_longlong
        i = 0
        while True:
            n = S.vf_x17_const_name(i)
            if n is None:
                break
            self.X[n.decode()] = S.vf_x17_const_val(i)
            i += 1

    def new(self, n=1):
        return self.R.mem(self.sz * n, self.R.poison)

    def fill(self, P, byte, n=1):
        ctypes.memset(P, byte, self.sz * n)

    def put(self, P, X, Y, Z, T, coord):
        R = self.R
        R.fp_put(P + self.ox, X)
        R.fp_put(P + self.oy, Y)
        R.fp_put(P + self.oz, Z)
        R.fp_put(P + self.ot, T)
        R.wr_int(P + self.oc, coord)

    def get(self, P):
        """-> (X, Y, Z, T, coord, canonical)"""
        R = self.R
        X, cx = R.fp_get(P + self.ox)
        Y, cy = R.fp_get(P + self.oy)
        Z, cz = R.fp_get(P + self.oz)
        T, ct = R.fp_get(P + self.ot)
        return X, Y, Z, T, R.rd_int(P + self.oc), (cx and cy and cz)

    def raw(self, P):
        return ctypes.string_at(P, self.sz)


class Cv(object):
    """model view of the active Edwards curve; points are descriptors (s, t) = [s]G + [t]T, T of order h"""

    def __init__(self, R, E, rng):
        self.p = p = R.fp_setup()
        n, h = R.bn_new(), R.bn_new()
        R.call("ed_curve_get_ord", n)
        R.call("ed_curve_get_cof", h)
        self.n, self.h = R.bn_val(n), R.bn_val(h)
        R.bn_free(n)
        R.bn_free(h)
        g = E.new()
        R.call("ed_curve_get_gen", g)
        gx, gy, gz, gt, gc, canon = E.get(g)
        R.free(g)
        if p != 2 ** 255 - 19:
            raise RuntimeError("the only Edwards curve of the library lives over 2^255 - 19")
        self.a = p - 1
        self.d = (-121665 * pow(121666, -1, p)) % p
        self.C = C = EdCurve(p, self.a, self.d, self.n, self.h)
        if gz == 0:
            raise RuntimeError("generator with Z = 0")
        zi = pow(gz, -1, p)
        self.G = (gx * zi % p, gy * zi % p)
        self.nbits = self.n.bit_length()
        self.fbits = R.K["RLC_FP_BITS"]
        if not (C.complete() and C.selftest(self.G, rng) and C.mul(self.n, self.G) == C.O and
                is_probable_prime(self.n) and self.h == 8):
            raise RuntimeError("Edwards parameters reported by the library are inconsistent with the model")
        T = C.small_order_generator(self.h, rng)
        self.tors = [C.O]
        for _ in range(self.h - 1):
            self.tors.append(C.add(self.tors[-1], T))
        if self.tors[4] != C.order2() or self.tors[2][1] != 0:
            raise RuntimeError("unexpected torsion structure")
        self._sub = {}

    def sub(self, s):
        s %= self.n
        if s == 0:
            return self.C.O
        v = self._sub.get(s)
        if v is None:
            w = self._sub.get(self.n - s)
            v = self.C.neg(w) if w is not None else self.C.mul(s, self.G)
            if len(self._sub) < 20000:
                self._sub[s] = v
        return v

    def remember(self, s, P):
        self._sub[s % self.n] = P

    def aff(self, d):
        t = d[1] % self.h
        P = self.sub(d[0])
        return self.C.add(P, self.tors[t]) if t else P

    def dmul(self, k, d):
        return ((k * d[0]) % self.n, (k * d[1]) % self.h)

    def dadd(self, d, e):
        return ((d[0] + e[0]) % self.n, (d[1] + e[1]) % self.h)

    def dneg(self, d):
        return ((-d[0]) % self.n, (-d[1]) % self.h)

    def norm(self, d):
        return (d[0] % self.n, d[1] % self.h)

    def pcls(self, d):
        s, t = self.norm(d)
        if s == 0:
            if t == 0:
                return "inf"
            return "o2" if t == 4 else ("o4" if t % 2 == 0 else "o8")
        return "sub" if t == 0 else "out"

    def krange(self, k):
        a = -k if k < 0 else k
        bl = a.bit_length()
        if a < self.n:
            return "in"
        if bl <= self.nbits:
            return "ge"
        if bl <= self.fbits:
            return "xw"
        return "xl" if bl <= self.fbits + 7 else "xh"

    def kcls(self, k):
        if k == 0:
            return "z"
        a = -k if k < 0 else k
        tag = "u" if a == 1 else ("r0" if a % self.n == 0 else "r")
        return tag + ("-" if k < 0 else "+") + self.krange(k)

    def in_range(self, k):
        return 0 <= k < self.n


def dshow(d):
    return [hx(d[0]), d[1]]


def pshow(P):
    if P is None or len(P) != 2:
        return repr(P)
    return [hx(P[0]), hx(P[1])]


class PointIO(object):
    def __init__(self, ctx, R, E, cv):
        self.ctx, self.R, self.E, self.cv, self.rng = ctx, R, E, cv, ctx.rng
        self.EQ, self.NE = R.K["RLC_EQ"], R.K["RLC_NE"]
        self.not_built = set()
        # build with extended coordinates as the default system: ed_add/ed_dbl/ed_sub/ed_cmp/ed_on_curve read t of
        # every operand whatever its tag, so every point a routine of that system returns must have T*Z = X*Y
        self.ext = impl_of(R, "ed_add") == "ed_add_extnd"

    # routines of the affine / plain projective systems: their results carry no t by definition
    FOREIGN = ("ed_add_basic", "ed_sub_basic", "ed_dbl_basic", "ed_neg_basic", "ed_add_projc", "ed_sub_projc",
               "ed_dbl_projc")

    def has(self, fn):
        if self.R.has(fn):
            return True
        self.not_built.add(fn)
        return False

    def put(self, ptr, P, rep):
        """B affine | P projective random Z | P1 projective Z = 1 | E extended random Z | E1 extended Z = 1;
        T = XY/Z is written in every representation"""
        E, p, rng = self.E, self.cv.p, self.rng
        x, y = P
        if rep in ("B", "P1", "E1"):
            z = 1
        else:
            z = rng.randrange(1, p)
            if rng.random() < 0.1:
                z = rng.choice([p - 1, 2, (p - 1) // 2, (p + 1) // 2])
        X, Y = x * z % p, y * z % p
        T = x * y % p * z % p
        co = E.BASIC if rep == "B" else (E.PROJC if rep in ("P", "P1") else E.EXTND)
        E.put(ptr, X, Y, z, T, co)

    def stale(self, ptr, n=1):
        """pre-fill n separate output objects with the stale state chosen for this case (C16.Case)"""
        E, R, cv = self.E, self.R, self.cv
        kind = getattr(self.ctx, "stale_kind", "poison")
        E.fill(ptr, R.poison, n)
        if kind == "poison":
            return
        for i in range(n):
            q = ptr + i * E.sz
            if kind == "affine":
                self.put(q, cv.G, "B")
            elif kind == "projective":
                self.put(q, cv.G, "P")
            elif kind == "alt":
                self.put(q, cv.G, "E")
            elif kind == "identity":
                E.put(q, 0, 1, 1, 0, E.PROJC)           # as ed_set_infty leaves it
            else:
                z = self.rng.randrange(2, cv.p)
                E.put(q, 0, z, z, 0, self.rng.choice([E.PROJC, E.EXTND]))

    def get(self, ptr):
        """-> (affine point or tag, coord, ok, raw)"""
        X, Y, Z, T, co, canon = self.E.get(ptr)
        raw = (X, Y, Z, T)
        if not canon:
            return ("non-canonical",), co, False, raw
        if Z == 0:
            return ("Z=0",), co, False, raw
        p = self.cv.p
        zi = pow(Z, -1, p)
        return (X * zi % p, Y * zi % p), co, True, raw

    def expect(self, ptr, exp, affine=False, extended=False, impl=None):
        ctx, E = self.ctx, self.E
        got, co, ok, raw = self.get(ptr)
        good = ok and got == exp
        ctx.check(good, ctx.cur_key + "|value",
                  None if good else {"got": pshow(got), "exp": pshow(exp), "coord": co, "raw": [hx(v) for v in raw]})
        if not good:
            return False
        X, Y, Z, T = raw
        if co == E.BASIC or affine:
            # an affine result must carry Z = 1: the projective routines multiply by Z whatever the tag says
            # (ed_set_infty tags the neutral element PROJC with Z = 1, so the tag itself is not constrained)
            ctx.check(Z == 1, ctx.cur_key + "|not-normalised", {"coord": co, "z": hx(Z)})
        if extended:
            ctx.check(co == E.EXTND and (T * Z - X * Y) % self.cv.p == 0, ctx.cur_key + "|t-inconsistent",
                      {"coord": co, "raw": [hx(v) for v in raw]})
        elif self.ext and impl not in self.FOREIGN:
            ctx.check((T * Z - X * Y) % self.cv.p == 0, ctx.cur_key + "|t-invariant",
                      {"coord": co, "raw": [hx(v) for v in raw]})
        return True

    def no_error(self, res):
        return self.ctx.check(not res.caught, self.ctx.cur_key + "|unexpected-error", {"err": res.err})


# ===================================================================================== law part
class LawPart(PointIO):
    def __init__(self, ctx, R, E, cv):
        PointIO.__init__(self, ctx, R, E, cv)
        self.p_, self.q_, self.r_ = E.new(), E.new(), E.new()
        self.fa, self.fc = R.fp_new(), R.fp_new()
        n = cv.n
        self.fixed = [1, 2, 3, n - 1, n - 2, (n + 1) // 2]
        self.subs = list(self.fixed) + [self.rng.randrange(4, n - 2) for _ in range(12)]

    def fresh(self):
        rng, cv = self.rng, self.cv
        i, j = rng.randrange(len(self.subs)), rng.randrange(len(self.subs))
        if i == j:
            return self.subs[i]
        s = (self.subs[i] + self.subs[j]) % cv.n
        if s == 0:
            return self.subs[i]
        cv.remember(s, cv.C.add(cv.sub(self.subs[i]), cv.sub(self.subs[j])))
        self.subs[rng.randrange(len(self.fixed), len(self.subs))] = s
        return s

    def pick(self):
        rng, cv = self.rng, self.cv
        c = rng.random()
        if c < 0.07:
            return (0, 0)
        if c < 0.22:
            return (0, rng.randrange(1, cv.h))
        s = self.fresh() if rng.random() < 0.5 else rng.choice(self.subs)
        return (s, rng.randrange(1, cv.h) if c < 0.34 else 0)

    def rep_for(self, native, free=False):
        rng = self.rng
        if native == "B":
            return "B"
        if free:
            return rng.choice(["B", "P", "P", "P1", "E", "E1"])
        if native == "P":
            return rng.choice(["B", "P", "P", "P1"])
        return rng.choice(["B", "E", "E", "E1"])

    @staticmethod
    def native_of(impl):
        return "B" if impl.endswith("basic") else ("E" if impl.endswith("extnd") else "P")

    @staticmethod
    def repcls(*reps):
        return "A" if all(r == "B" for r in reps) else ("E" if any(r[0] == "E" for r in reps) else "P")

    def pair(self):
        rng, cv = self.rng, self.cv
        d = self.pick()
        c = rng.random()
        if c < 0.2:
            e = d
        elif c < 0.4:
            e = cv.dneg(d)
        elif c < 0.5:
            e = cv.dadd(d, (0, rng.randrange(1, cv.h)))
        elif c < 0.55:
            e = cv.dadd(cv.dneg(d), (0, rng.randrange(1, cv.h)))
        else:
            e = self.pick()
        return d, e

    def paircls(self, d, e):
        cv = self.cv
        kinds = (cv.pcls(d), cv.pcls(e))
        if cv.norm(d) == cv.norm(e):
            rel = "eq"
        elif cv.dneg(d) == cv.norm(e):
            rel = "neg"
        elif d[0] % cv.n == e[0] % cv.n or (d[0] + e[0]) % cv.n == 0:
            rel = "tors"        # P = +-Q + (small order)
        else:
            rel = "ne"
        if "inf" in kinds:
            rel = "inf"
        for k in ("o2", "o4", "o8", "out"):
            if k in kinds:
                return rel + ":" + k
        return rel + ":" + ("inf" if kinds == ("inf", "inf") else "sub")

    # ------------------------------------------------------------------ operations
    def op_neg(self):
        ctx, R, E, cv, rng = self.ctx, self.R, self.E, self.cv, self.rng
        fn = rng.choice(["ed_neg_basic", "ed_neg_projc", "ed_neg"])
        if not self.has(fn):
            return
        impl = impl_of(R, fn)
        d = self.pick()
        rep = self.rep_for(self.native_of(impl), free=not impl.endswith("basic"))
        alias = rng.randrange(2)
        key = "%s|%s|%s|alias%d" % (impl, cv.pcls(d), self.repcls(rep), alias)
        with Case(ctx, key, {"P": dshow(d), "rep": rep}, nontrivial=cv.pcls(d) != "inf") as go:
            if go:
                P = cv.aff(d)
                self.put(self.p_, P, rep)
                self.stale(self.r_)
                out = self.p_ if alias else self.r_
                if self.no_error(R.call(fn, out, self.p_)):
                    self.expect(out, cv.C.neg(P), impl=impl)

    def op_addsub(self, sub=False):
        ctx, R, E, cv, rng = self.ctx, self.R, self.E, self.cv, self.rng
        base = "ed_sub" if sub else "ed_add"
        fn = rng.choice([base + "_basic", base + "_projc", base + "_extnd", base])
        if not self.has(fn):
            return
        impl = impl_of(R, fn)
        native = self.native_of(impl)
        d, e = self.pair()
        alias = rng.randrange(4)
        rp, rq = self.rep_for(native), self.rep_for(native)
        if alias == 3:
            e, rq = d, rp
        P, Q = cv.aff(d), cv.aff(e)
        exp = cv.C.sub(P, Q) if sub else cv.C.add(P, Q)
        key = "%s|%s|%s|alias%d" % (impl, self.paircls(d, e), self.repcls(rp, rq), alias)
        with Case(ctx, key, {"P": dshow(d), "Q": dshow(e), "reps": [rp, rq]},
                  nontrivial="inf" not in (cv.pcls(d), cv.pcls(e))) as go:
            if go:
                self.put(self.p_, P, rp)
                self.put(self.q_, Q, rq)
                self.stale(self.r_)
                pq = self.p_ if alias == 3 else self.q_
                out = {1: self.p_, 2: self.q_}.get(alias, self.r_)
                rawp, rawq = E.raw(self.p_), E.raw(self.q_)
                if self.no_error(R.call(fn, out, self.p_, pq)):
                    self.expect(out, exp, extended=(native == "E" and not (sub and alias == 3)), impl=impl)
                    if out != self.p_:
                        ctx.check(E.raw(self.p_) == rawp, ctx.cur_key + "|input-modified")
                    if out != self.q_ and alias != 3:
                        ctx.check(E.raw(self.q_) == rawq, ctx.cur_key + "|input-modified")

    def op_dbl(self):
        ctx, R, E, cv, rng = self.ctx, self.R, self.E, self.cv, self.rng
        fn = rng.choice(["ed_dbl_basic", "ed_dbl_projc", "ed_dbl_extnd", "ed_dbl"])
        if not self.has(fn):
            return
        impl = impl_of(R, fn)
        native = self.native_of(impl)
        d = self.pick()
        rep = self.rep_for(native)
        alias = rng.randrange(2)
        key = "%s|%s|%s|alias%d" % (impl, cv.pcls(d), self.repcls(rep), alias)
        with Case(ctx, key, {"P": dshow(d), "rep": rep}, nontrivial=cv.pcls(d) != "inf") as go:
            if go:
                P = cv.aff(d)
                self.put(self.p_, P, rep)
                self.stale(self.r_)
                out = self.p_ if alias else self.r_
                if self.no_error(R.call(fn, out, self.p_)):
                    self.expect(out, cv.C.dbl(P), extended=(native == "E"), impl=impl)

    def op_norm(self):
        ctx, R, E, cv, rng = self.ctx, self.R, self.E, self.cv, self.rng
        d = self.pick()
        rep = self.rep_for("P", free=True)
        alias = rng.randrange(2)
        key = "ed_norm|%s|%s|alias%d" % (cv.pcls(d), rep, alias)
        with Case(ctx, key, {"P": dshow(d), "rep": rep}, nontrivial=cv.pcls(d) != "inf") as go:
            if go:
                P = cv.aff(d)
                self.put(self.p_, P, rep)
                self.stale(self.r_)
                out = self.p_ if alias else self.r_
                if self.no_error(R.call("ed_norm", out, self.p_)):
                    self.expect(out, P, affine=True)

    def op_norm_sim(self):
        ctx, R, E, cv, rng = self.ctx, self.R, self.E, self.cv, self.rng
        n = rng.choice([1, 2, 3, 4, 8])
        ds = [self.pick() for _ in range(n)]
        reps = [self.rep_for("P", free=True) for _ in ds]
        alias = rng.randrange(2)
        kinds = set(cv.pcls(d) for d in ds)
        cls = "inf" if "inf" in kinds else ("tors" if kinds & {"o2", "o4", "o8"} else "fin")
        stale = (not alias) and rng.random() < 0.3
        if stale:
            cls += ",dst-tagged-affine"
        key = "ed_norm_sim|%s|n%s|%s|alias%d" % (cls, "1" if n == 1 else ">1", self.repcls(*reps), alias)
        with Case(ctx, key, {"P": [dshow(d) for d in ds], "reps": reps}, nontrivial="inf" not in kinds) as go:
            if go:
                t = E.new(n)
                r = t if alias else E.new(n)
                try:
                    for i in range(n):
                        self.put(t + i * E.sz, cv.aff(ds[i]), reps[i])
                    if not alias:
                        self.stale(r, n)
                        if stale:
                            for i in range(n):
                                self.put(r + i * E.sz, cv.G, "B")
                    if self.no_error(R.call("ed_norm_sim", r, t, n)):
                        for i in range(n):
                            if not self.expect(r + i * E.sz, cv.aff(ds[i]), affine=True):
                                break
                finally:
                    R.free(t)
                    if r != t:
                        R.free(r)

    def op_cmp(self):
        ctx, R, E, cv, rng = self.ctx, self.R, self.E, self.cv, self.rng
        d, e = self.pair()
        rp, rq = self.rep_for("P", free=True), self.rep_for("P", free=True)
        key = "ed_cmp|%s|%s" % (self.paircls(d, e), self.repcls(rp, rq) + ("m" if (rp == "B") != (rq == "B") else ""))
        with Case(ctx, key, {"P": dshow(d), "Q": dshow(e), "reps": [rp, rq]}) as go:
            if go:
                P, Q = cv.aff(d), cv.aff(e)
                self.put(self.p_, P, rp)
                self.put(self.q_, Q, rq)
                res = R.call("ed_cmp", self.p_, self.q_)
                if self.no_error(res):
                    exp = self.EQ if P == Q else self.NE
                    ctx.check(res.i == exp, key + "|value", {"got": res.i, "exp": exp})

    def op_on_curve(self):
        ctx, R, E, cv, rng = self.ctx, self.R, self.E, self.cv, self.rng
        d = self.pick()
        P = cv.aff(d)
        rep = self.rep_for("P", free=True)
        valid = True
        c = rng.random()
        p = cv.p
        if c < 0.5:
            if c < 0.2:
                P = (P[0], (P[1] + rng.choice([1, p - 1, 1 << rng.randrange(254)])) % p)
            elif c < 0.35:
                P = ((P[0] + rng.choice([1, p - 1, 1 << rng.randrange(254)])) % p, P[1])
            else:
                P = (rng.randrange(p), rng.randrange(p))
            valid = cv.C.on_curve(P)
        key = "ed_on_curve|%s|%s" % (("valid:" + cv.pcls(d)) if valid else "invalid", rep)
        with Case(ctx, key, {"P": pshow(P), "rep": rep}) as go:
            if go:
                self.put(self.p_, P, rep)
                res = R.call("ed_on_curve", self.p_)
                if self.no_error(res):
                    ctx.check(res.i == int(valid), key + "|value", {"got": res.i, "exp": int(valid)})

    def op_codec(self):
        """compression and byte round trips of curve points (decoding of hostile bytes is C07)"""
        ctx, R, E, cv, rng = self.ctx, self.R, self.E, self.cv, self.rng
        d = self.pick()
        P = cv.aff(d)
        xc = "x=0" if P[0] == 0 else "x"
        c = rng.randrange(3)
        if c == 0:
            alias = rng.randrange(2)
            with Case(ctx, "ed_pck+ed_upk|%s,%s|alias%d" % (cv.pcls(d), xc, alias), {"P": dshow(d)}) as go:
                if go:
                    self.put(self.p_, P, "B")
                    self.stale(self.q_)
                    out = self.p_ if alias else self.q_
                    if not self.no_error(R.call("ed_pck", out, self.p_)):
                        return
                    # which of the two abscissae the stored bit denotes is an encoding convention (C07); the
                    # packed form must keep y and hold a single bit in x
                    xr = R.fp_raw(out + E.ox)
                    Y = R.fp_get(out + E.oy)[0]
                    ctx.check(xr in (0, 1) and Y == P[1], ctx.cur_key + "|packed-value", {"x_raw": hx(xr), "y": hx(Y)})
                    self.stale(self.r_)
                    out2 = out if alias else self.r_
                    res = R.call("ed_upk", out2, out)
                    if self.no_error(res):
                        ctx.check(res.i == 1, ctx.cur_key + "|return", {"got": res.i})
                        self.expect(out2, P, affine=True)
        else:
            pack = rng.randrange(2)
            rep = self.rep_for("P")
            with Case(ctx, "ed_write_bin+ed_read_bin|%s,%s|pack%d|%s" % (cv.pcls(d), xc, pack, self.repcls(rep)),
                      {"P": dshow(d), "rep": rep}) as go:
                if go:
                    self.put(self.p_, P, rep)
                    res = R.call("ed_size_bin", self.p_, pack)
                    if not self.no_error(res):
                        return
                    ln = res.r
                    fb = R.K["RLC_FP_BYTES"]
                    want = 1 if P == cv.C.O else (1 + fb if pack else 1 + 2 * fb)
                    ctx.check(ln == want, ctx.cur_key + "|size", {"got": ln, "exp": want})
                    if ln != want:
                        return
                    buf = R.mem(ln, R.poison)
                    try:
                        if not self.no_error(R.call("ed_write_bin", buf, ln, self.p_, pack)):
                            return
                        bs = R.get(buf, ln)
                        if P == cv.C.O:
                            expb = b"\0"
                        elif pack:
                            expb = bs[:1] + P[1].to_bytes(fb, "big")        # tag 2 or 3: convention judged by C07
                        else:
                            expb = b"\x04" + P[1].to_bytes(fb, "big") + P[0].to_bytes(fb, "big")
                        ctx.check(bs == expb and (not pack or P == cv.C.O or bs[0] in (2, 3)), ctx.cur_key + "|bytes",
                                  {"got": bs.hex(), "exp": expb.hex()})
                        self.stale(self.r_)
                        if self.no_error(R.call("ed_read_bin", self.r_, buf, ln)):
                            self.expect(self.r_, P)
                    finally:
                        R.free(buf)

    def op_map(self):
        ctx, R, E, cv, rng = self.ctx, self.R, self.E, self.cv, self.rng
        ln = rng.choice([0, 1, 2, 16, 31, 32, 33, 64, 100, 255])
        msg = bytes(rng.getrandbits(8) for _ in range(ln))
        if rng.random() < 0.1:
            msg = bytes(ln)
        with Case(ctx, "ed_map|len%s" % ("0" if ln == 0 else ">0"), {"msg": msg.hex()}, nontrivial=ln > 0) as go:
            if go:
                mb = R.put(msg)
                dst = R.put(b"RELIC")
                try:
                    self.stale(self.r_)
                    self.stale(self.q_)
                    if not self.no_error(R.call("ed_map", self.r_, mb, ln)):
                        return
                    got, co, ok, raw = self.get(self.r_)
                    good = ok and cv.C.on_curve(got) and cv.C.mul(cv.n, got) == cv.C.O
                    ctx.check(good, ctx.cur_key + "|not-in-subgroup", {"got": pshow(got), "raw": [hx(v) for v in raw]})
                    ctx.check(co == E.BASIC and raw[2] == 1, ctx.cur_key + "|not-normalised", {"coord": co})
                    if self.has("ed_map_dst") and self.no_error(R.call("ed_map_dst", self.q_, mb, ln, dst, 5)):
                        got2 = self.get(self.q_)[0]
                        ctx.check(got2 == got, ctx.cur_key + "|dst-default-differs", {"a": pshow(got), "b": pshow(got2)})
                finally:
                    R.free(mb)
                    R.free(dst)
        if self.has("ed_map_dst") and rng.random() < 0.5:
            dl = rng.choice([0, 1, 5, 16, 43, 255])
            dstb = bytes(rng.getrandbits(8) for _ in range(dl))
            with Case(ctx, "ed_map_dst|len%s|dst%s" % ("0" if ln == 0 else ">0", "0" if dl == 0 else ">0"),
                      {"msg": msg.hex(), "dst": dstb.hex()}) as go:
                if go:
                    mb, db = R.put(msg), R.put(dstb)
                    try:
                        self.stale(self.r_)
                        res = R.call("ed_map_dst", self.r_, mb, ln, db, dl)
                        if res.caught:
                            return      # a refused tag is not a wrong point
                        got, co, ok, raw = self.get(self.r_)
                        good = ok and cv.C.on_curve(got) and cv.C.mul(cv.n, got) == cv.C.O
                        ctx.check(good, ctx.cur_key + "|not-in-subgroup", {"got": pshow(got)})
                    finally:
                        R.free(mb)
                        R.free(db)

    def op_misc(self):
        ctx, R, E, cv, rng = self.ctx, self.R, self.E, self.cv, self.rng
        c = rng.randrange(7)
        d = self.pick()
        P = cv.aff(d)
        p = cv.p
        if c == 0:
            rep = self.rep_for("P", free=True)
            with Case(ctx, "ed_is_infty|%s|%s" % (cv.pcls(d), rep), {"P": dshow(d)}) as go:
                if go:
                    self.put(self.p_, P, rep)
                    res = R.call("ed_is_infty", self.p_)
                    ctx.check(not res.caught and res.i == int(P == cv.C.O), None, {"got": res.i})
        elif c == 1:
            with Case(ctx, "ed_set_infty|", {}) as go:
                if go:
                    self.stale(self.r_)
                    if self.no_error(R.call("ed_set_infty", self.r_)):
                        self.expect(self.r_, cv.C.O)
        elif c == 2:
            rep = self.rep_for("P", free=True)
            with Case(ctx, "ed_copy|%s|%s" % (cv.pcls(d), rep), {"P": dshow(d)}) as go:
                if go:
                    self.put(self.p_, P, rep)
                    self.stale(self.r_)
                    if self.no_error(R.call("ed_copy", self.r_, self.p_)):
                        a, b = E.get(self.r_), E.get(self.p_)
                        ctx.check(a[:3] == b[:3] and a[4] == b[4] and (not self.ext or a[3] == b[3]),
                                  ctx.cur_key + "|value")
        elif c == 3:
            if rng.random() < 0.15:
                with Case(ctx, "ed_rand|", {}, nontrivial=False) as go:
                    if go:
                        self.stale(self.r_)
                        if self.no_error(R.call("ed_rand", self.r_)):
                            got, co, ok, raw = self.get(self.r_)
                            ctx.check(ok and cv.C.on_curve(got) and cv.C.mul(cv.n, got) == cv.C.O, ctx.cur_key + "|value",
                                      {"got": pshow(got)})
        elif c == 4:
            rep = self.rep_for("P")
            with Case(ctx, "ed_blind|%s|%s" % (cv.pcls(d), self.repcls(rep)), {"P": dshow(d)}) as go:
                if go:
                    self.put(self.p_, P, rep)
                    self.stale(self.r_)
                    if self.no_error(R.call("ed_blind", self.r_, self.p_)):
                        self.expect(self.r_, P)
        elif c == 5:
            x = rng.choice([0, 1, p - 1, rng.randrange(p), P[0]])
            with Case(ctx, "ed_rhs|%s" % ("zero" if x == 0 else "x"), [hx(x)]) as go:
                if go:
                    R.fp_put(self.fa, x)
                    R.fp_put_raw(self.fc, 0)
                    if self.no_error(R.call("ed_rhs", self.fc, self.fa)):
                        got, canon = R.fp_get(self.fc)
                        exp = (cv.a * x * x - 1) % p       # a x^2 - 1 = y^2 (d x^2 - 1)
                        ctx.check(got == exp and canon, ctx.cur_key + "|value", {"got": hx(got), "exp": hx(exp)})
        else:
            if not self.has("ed_tab"):
                return
            w = rng.choice([2, 3, 4, 5, 6])
            n = 1 << (w - 2)
            rep = self.rep_for("P")
            with Case(ctx, "ed_tab|%s|w%d|%s" % (cv.pcls(d), w, self.repcls(rep)), {"P": dshow(d)}) as go:
                if go:
                    t = E.new(n)
                    try:
                        self.stale(t, n)
                        self.put(self.p_, P, rep)
                        if self.no_error(R.call("ed_tab", t, self.p_, w)):
                            for i in range(n):
                                if not self.expect(t + i * E.sz, cv.aff(cv.dmul(2 * i + 1, d))):
                                    break
                    finally:
                        R.free(t)

    def run(self, N):
        rng = self.rng
        ops = (["add"] * 12 + ["sub"] * 6 + ["dbl"] * 7 + ["neg"] * 3 + ["norm"] * 3 + ["norm_sim"] * 3 + ["cmp"] * 3 +
               ["on_curve"] * 3 + ["codec"] * 4 + ["map"] * 1 + ["misc"] * 3)
        f = {"add": self.op_addsub, "sub": lambda: self.op_addsub(sub=True), "dbl": self.op_dbl, "neg": self.op_neg,
             "norm": self.op_norm, "norm_sim": self.op_norm_sim, "cmp": self.op_cmp, "on_curve": self.op_on_curve,
             "codec": self.op_codec, "map": self.op_map, "misc": self.op_misc}
        for _ in range(N):
            self.R.poison = rng.randrange(1, 256)
            f[rng.choice(ops)]()


# ===================================================================================== mul part
class MulPart(PointIO):
    def __init__(self, ctx, R, E, cv):
        PointIO.__init__(self, ctx, R, E, cv)
        self.p_, self.q_, self.r_ = E.new(), E.new(), E.new()
        self.w_, self.t2_ = E.new(), E.new()
        self.buf_ = R.mem(1 + 2 * R.K["RLC_FP_BYTES"], 0)
        self.k, self.m = R.bn_new(), R.bn_new()
        self.confined = load_confined()
        self.stepped = 0
        X = E.X
        self.tabsz = {"basic": X["RLC_ED_TABLE_BASIC"], "combs": X["RLC_ED_TABLE_COMBS"],
                      "combd": X["RLC_ED_TABLE_COMBD"], "lwnaf": X["RLC_ED_TABLE_LWNAF"]}
        self.capbits = R.BN_BITS
        n = cv.n
        self.fixed = [1, 2, 3, n - 1]
        self.pool = list(self.fixed) + [self.rng.randrange(4, n - 1) for _ in range(10)]

    def fresh(self):
        rng, cv = self.rng, self.cv
        i, j = rng.randrange(len(self.pool)), rng.randrange(len(self.pool))
        if i == j:
            return self.pool[i]
        s = (self.pool[i] + self.pool[j]) % cv.n
        if s == 0:
            return self.pool[i]
        cv.remember(s, cv.C.add(cv.sub(self.pool[i]), cv.sub(self.pool[j])))
        self.pool[rng.randrange(len(self.fixed), len(self.pool))] = s
        return s

    def point(self, special=0.05):
        rng = self.rng
        c = rng.random()
        if c < special:
            return (0, 0)
        if c < special + 0.2:
            return (rng.choice(self.fixed), 0)
        return ((self.fresh() if rng.random() < 0.6 else rng.choice(self.pool)), 0)

    def scalar(self, hostile=0.4):
        rng, cv = self.rng, self.cv
        n, m = cv.n, cv.fbits
        if rng.random() > hostile:
            return rng.randrange(1, n)
        c = rng.randrange(24)
        if c == 0:
            return 0
        if c == 1:
            return rng.choice([1, -1])
        if c == 2:
            return rng.choice([2, 3, -2, 4, 5, 7, 8, 15, 16])
        if c == 3:
            return n - rng.choice([1, 2, 3])
        if c == 4:
            return n
        if c == 5:
            return n + rng.choice([1, 2])
        if c == 6:
            return rng.choice([2, 3, 4]) * n + rng.choice([-1, 0, 1])
        if c == 7:
            return -(n + rng.choice([-1, 0, 1]))
        if c == 8:
            return 1 << rng.randrange(1, cv.nbits - 1)
        if c == 9:
            return (1 << rng.randrange(2, cv.nbits)) - 1
        if c == 10:
            return int("a" * ((cv.nbits + 3) // 4), 16) % n
        if c == 11:
            return int("5" * ((cv.nbits + 3) // 4), 16) % n
        if c == 12:
            return -rng.randrange(1, n)
        if c == 13:
            return rng.randrange(n, 1 << cv.nbits)
        if c == 14:
            return rng.getrandbits(m) | (1 << rng.randrange(cv.nbits, m))
        if c == 15:
            return rng.getrandbits(m + 7) | (1 << rng.randrange(m, m + 7))
        if c == 16:
            return rng.choice([1 << m, (1 << m) - 1, (1 << (m + 1)) - 1, 1 << (m - 1), (1 << (m + 2)) - 1, 1 << (m + 2),
                               (1 << (m + 7)) - 1, 1 << (m + 7), 1 << (cv.nbits - 1), (1 << cv.nbits) - 1])
        if c == 17:
            return rng.getrandbits(rng.choice([270, 300, 320, 400, 512]))
        if c == 18:
            return rng.getrandbits(self.capbits) | (1 << (self.capbits - 1))
        if c == 19:
            return n * n
        if c == 20:
            return -(rng.getrandbits(m + 7) | (1 << rng.randrange(m - 2, m + 7)))
        if c == 21:
            return ((1 << (cv.nbits - 2)) | rng.getrandbits(16)) % n
        if c == 22:
            return rng.getrandbits(rng.choice([8, 16, 32, 63, 64, 65, 128]))
        return rng.randrange(1, n)

    def paircls(self, ks):
        cv = self.cv
        if any(k == 0 for k in ks):
            tag = "z"
        elif any(abs(k) == 1 for k in ks):
            tag = "u"
        elif any(k % cv.n == 0 for k in ks):
            tag = "r0"
        else:
            tag = "r"
        rank = {"in": 1, "ge": 2, "xw": 3, "xl": 4, "xh": 5}
        top = max((cv.krange(k) for k in ks), key=lambda r: rank[r]) if ks else "in"
        if rank[top] >= 4 and len(ks) == 2:
            top += ":" + ("k" if rank[cv.krange(ks[0])] >= 4 else "") + ("m" if rank[cv.krange(ks[1])] >= 4 else "")
        return tag + "," + top

    def judge(self, res, out, exp, in_range):
        ctx = self.ctx
        if res.caught:
            ctx.check(not in_range, ctx.cur_key + "|unexpected-error", {"err": res.err})
            return
        if self.expect(out, exp, affine=True):
            self.consequences(out, exp)

    def consequences(self, res, exp):
        """what a caller sees next: the result object as it stands goes into the default addition, subtraction,
        doubling, comparison, validity test and serialisation; each is compared with the model"""
        ctx, R, E, cv = self.ctx, self.R, self.E, self.cv
        base = ctx.cur_key
        W = cv.sub(self.pool[self.rng.randrange(len(self.pool))])
        C = cv.C

        def step(what, fn, *a):
            r = R.call(fn, *a)
            if not ctx.check(not r.caught, base + "|then-" + what + "|unexpected-error", {"err": r.err}):
                return None
            return r

        def point(what, want):
            got, co, ok, raw = self.get(self.t2_)
            good = ok and got == want
            ctx.check(good, base + "|then-" + what + "|value",
                      None if good else {"got": pshow(got), "exp": pshow(want), "operand": pshow(exp),
                                         "operand_raw": [hx(v) for v in E.get(res)[:4]]})
        self.put(self.w_, W, self.rng.choice(["B", "P", "E"] if self.ext else ["B", "P"]))
        self.stale(self.t2_)
        if step("add", "ed_add", self.t2_, res, self.w_):
            point("add", C.add(exp, W))
        self.stale(self.t2_)
        if step("add-rev", "ed_add", self.t2_, self.w_, res):
            point("add-rev", C.add(W, exp))
        self.stale(self.t2_)
        if step("sub", "ed_sub", self.t2_, self.w_, res):
            point("sub", C.sub(W, exp))
        self.stale(self.t2_)
        if step("dbl", "ed_dbl", self.t2_, res):
            point("dbl", C.dbl(exp))
        # comparison with a fresh, correct encoding of the expected point and of another point
        self.put(self.w_, exp, self.rng.choice(["B", "P", "E"] if self.ext else ["B", "P"]))
        r = step("cmp", "ed_cmp", res, self.w_)
        if r:
            ctx.check(r.i == self.EQ, base + "|then-cmp|value", {"got": r.i, "exp": self.EQ})
        r = step("on_curve", "ed_on_curve", res)
        if r:
            ctx.check(r.i == 1, base + "|then-on_curve|value", {"got": r.i, "operand_raw": [hx(v) for v in E.get(res)[:4]]})
        if exp != C.O:
            fb = R.K["RLC_FP_BYTES"]
            ln = 1 + 2 * fb
            ctypes.memset(self.buf_, R.poison, ln)
            if step("write_bin", "ed_write_bin", self.buf_, ln, res, 0):
                bs = R.get(self.buf_, ln)
                want = b"\x04" + exp[1].to_bytes(fb, "big") + exp[0].to_bytes(fb, "big")
                ctx.check(bs == want, base + "|then-write_bin|value", {"got": bs.hex(), "exp": want.hex()})

    # ------------------------------------------------------------------ single multiplications
    def mul_case(self, fn, d, k, alias=None):
        """r = [k]P with a separate result object (sep) or in place, r == p (alias)"""
        ctx, R, E, cv = self.ctx, self.R, self.E, self.cv
        if alias is None:
            alias = self.rng.random() < 0.5
        key = "%s|%s|%s|%s|%s" % (impl_of(R, fn), cv.pcls(d), cv.kcls(k), "odd" if k & 1 else "even",
                                  "alias" if alias else "sep")
        with Case(ctx, key, {"P": dshow(d), "k": hx(k), "via": fn},
                  nontrivial=cv.pcls(d) != "inf" and k % cv.n != 0) as go:
            if go:
                self.put(self.p_, cv.aff(d), "B")
                self.stale(self.r_)
                R.bn_put(self.k, k)
                raw = E.raw(self.p_)
                out = self.p_ if alias else self.r_
                res = R.call(fn, out, self.p_, self.k)
                self.judge(res, out, cv.aff(cv.dmul(k, d)), cv.in_range(k))
                ctx.check((alias or E.raw(self.p_) == raw) and R.bn_val(self.k) == k, ctx.cur_key + "|input-modified")

    def gen_case(self, k):
        ctx, R, E, cv = self.ctx, self.R, self.E, self.cv
        with Case(ctx, "ed_mul_gen|sub|%s" % cv.kcls(k), {"k": hx(k)}, nontrivial=k % cv.n != 0) as go:
            if go:
                self.stale(self.r_)
                R.bn_put(self.k, k)
                res = R.call("ed_mul_gen", self.r_, self.k)
                self.judge(res, self.r_, cv.aff(cv.dmul(k, (1, 0))), cv.in_range(k))

    def dig_case(self, d, k, alias=None):
        ctx, R, E, cv = self.ctx, self.R, self.E, self.cv
        if alias is None:
            alias = self.rng.random() < 0.5
        kc = "z" if k == 0 else ("u" if k == 1 else ("top" if k >> (R.DIG - 1) else "d"))
        key = "ed_mul_dig|%s|%s|%s|%s" % (cv.pcls(d), kc, "odd" if k & 1 else "even", "alias" if alias else "sep")
        with Case(ctx, key, {"P": dshow(d), "k": hx(k)}, nontrivial=cv.pcls(d) != "inf" and k != 0) as go:
            if go:
                self.put(self.p_, cv.aff(d), "B")
                self.stale(self.r_)
                out = self.p_ if alias else self.r_
                res = R.call("ed_mul_dig", out, self.p_, k)
                self.judge(res, out, cv.aff(cv.dmul(k, d)), True)

    # ------------------------------------------------------------------ fixed base
    def fix_variants(self):
        out = []
        for v in ("basic", "combs", "combd", "lwnaf"):
            if self.has("ed_mul_pre_" + v) and self.has("ed_mul_fix_" + v):
                out.append(("ed_mul_pre_" + v, "ed_mul_fix_" + v, self.tabsz[v]))
        for v in ("yaowi", "nafwi"):
            self.has("ed_mul_pre_" + v)
            self.has("ed_mul_fix_" + v)
        self.has("ed_mul_fix_lwnaf_mixed")
        if self.has("ed_mul_pre") and self.has("ed_mul_fix"):
            out.append(("ed_mul_pre", "ed_mul_fix", self.R.K["RLC_ED_TABLE"]))
        return out

    def fix_table(self, pre, size, d):
        ctx, R, E, cv = self.ctx, self.R, self.E, self.cv
        tab = E.new(size)
        self.stale(tab, size)
        ok = False
        with Case(ctx, "%s|%s" % (impl_of(R, pre), cv.pcls(d)), {"P": dshow(d)}, nontrivial=cv.pcls(d) != "inf",
                  budget=600, setup=True) as go:
            if go:
                self.put(self.p_, cv.aff(d), "B")
                res = R.call(pre, tab, self.p_)
                ok = ctx.check(not res.caught, None, {"err": res.err})
        if not ok:
            R.free(tab)
            return None
        return tab

    def fix_case(self, fix, tab, d, k, force=False):
        ctx, R, E, cv = self.ctx, self.R, self.E, self.cv
        impl = impl_of(R, fix)
        if not force and impl == "ed_mul_fix_basic" and cv.krange(k) in ("xl", "xh") and \
                "fix_basic_long" in self.confined:
            self.stepped += 1
            return
        key = "%s|%s|%s" % (impl, cv.pcls(d), cv.kcls(k))
        with Case(ctx, key, {"P": dshow(d), "k": hx(k), "via": fix},
                  nontrivial=cv.pcls(d) != "inf" and k % cv.n != 0) as go:
            if go:
                self.stale(self.r_)
                R.bn_put(self.k, k)
                res = R.call(fix, self.r_, tab, self.k)
                self.judge(res, self.r_, cv.aff(cv.dmul(k, d)), cv.in_range(k))

    # ------------------------------------------------------------------ simultaneous
    def relation(self, d, e):
        cv = self.cv
        if "inf" in (cv.pcls(d), cv.pcls(e)):
            return "inf"
        if cv.norm(d) == cv.norm(e):
            return "eq"
        if cv.dneg(d) == cv.norm(e):
            return "neg"
        for i in (1, 2, 3):
            for j in (1, 2, 3):
                for sg in (1, -1):
                    if cv.dadd(cv.dmul(i, d), cv.dmul(sg * j, e)) == (0, 0):
                        return "lin"
        return "ne"

    def sim_case(self, fn, d, e, k, m, alias=None):
        """alias 0: separate result, 1: r == p, 2: r == q, 3: p and q are the same object (needs P = Q)"""
        ctx, R, E, cv = self.ctx, self.R, self.E, self.cv
        impl = impl_of(R, fn)
        gen = impl == "ed_mul_sim_gen"
        if gen:
            d = (1, 0)
        rel = self.relation(d, e)
        if alias is None:
            alias = self.rng.choice([0, 0, 1, 2, 3])
        if gen and alias in (1, 3):
            alias = 2
        if alias == 3 and cv.norm(d) != cv.norm(e):
            alias = 1
        key = "%s|%s|alias%d|%s" % (impl, rel, alias, self.paircls([k, m]))
        live = k != 0 and m != 0 and rel != "inf"
        with Case(ctx, key, {"P": dshow(d), "Q": dshow(e), "k": hx(k), "m": hx(m), "via": fn},
                  nontrivial=live and k % cv.n != 0 and m % cv.n != 0) as go:
            if go:
                self.put(self.p_, cv.aff(d), "B")
                self.put(self.q_, cv.aff(e), "B")
                self.stale(self.r_)
                R.bn_put(self.k, k)
                R.bn_put(self.m, m)
                out = {1: self.p_, 2: self.q_}.get(alias, self.r_)
                pq = self.p_ if alias == 3 else self.q_
                if gen:
                    res = R.call(fn, out, self.k, pq, self.m)
                else:
                    res = R.call(fn, out, self.p_, self.k, pq, self.m)
                exp = cv.aff(cv.dadd(cv.dmul(k, d), cv.dmul(m, e)))
                self.judge(res, out, exp, cv.in_range(k) and cv.in_range(m))

    def lot_case(self, ds, ks, reps):
        ctx, R, E, cv = self.ctx, self.R, self.E, self.cv
        n = len(ds)
        kinds = set(cv.pcls(d) for d in ds)
        cls = "n%s|%s|%s" % (n if n < 3 else ">2", "inf" if "inf" in kinds else "fin", self.paircls(ks) if ks else "none")
        with Case(ctx, "ed_mul_sim_lot|" + cls, {"P": [dshow(d) for d in ds], "k": [hx(k) for k in ks], "reps": reps},
                  nontrivial=n > 0 and "inf" not in kinds and all(k % cv.n for k in ks)) as go:
            if go:
                pts = E.new(max(n, 1))
                bsz = R.bn_sz
                bns = R.mem(bsz * max(n, 1), R.poison)
                try:
                    for i in range(n):
                        self.put(pts + i * E.sz, cv.aff(ds[i]), reps[i])
                        r = R.call("bn_make", bns + i * bsz, R.BN_SIZE)
                        if r.caught:
                            raise RuntimeError("bn_make failed")
                        R.bn_put(bns + i * bsz, ks[i])
                    self.stale(self.r_)
                    res = R.call("ed_mul_sim_lot", self.r_, pts, bns, n)
                    acc = (0, 0)
                    for d, k in zip(ds, ks):
                        acc = cv.dadd(acc, cv.dmul(k, d))
                    self.judge(res, self.r_, cv.aff(acc), all(cv.in_range(k) for k in ks))
                finally:
                    R.free(pts)
                    R.free(bns)

    def sim_points(self):
        rng, cv = self.rng, self.cv
        d = self.point(0.04)
        c = rng.random()
        if c < 0.12:
            return d, d
        if c < 0.24:
            return d, cv.dneg(d)
        if c < 0.3:
            return d, cv.dmul(rng.choice([2, 3, cv.n - 2, cv.n - 3]), d)
        return d, self.point(0.04)

    # ------------------------------------------------------------------ drivers
    def sacrificial(self):
        ctx, R, cv = self.ctx, self.R, self.cv
        todo = []
        if "fix_basic_long" in self.confined and self.has("ed_mul_pre_basic"):
            todo += [("fix", (1 << (cv.fbits + 2)) + 12345)]
        for idx, (what, k) in enumerate(todo):
            if idx % ctx.nshards != ctx.shard:
                continue
            tab = self.fix_table("ed_mul_pre_basic", self.tabsz["basic"], (5, 0))
            if tab:
                self.fix_case("ed_mul_fix_basic", tab, (5, 0), k, force=True)
                R.free(tab)

    def directed_scalars(self):
        cv = self.cv
        n, m = cv.n, cv.fbits
        return [0, 1, -1, 2, 3, n - 1, n, n + 1, 2 * n, 2 * n + 1, 2 * n - 1, -n, -(n - 1), n - 2, (n - 1) // 2, (n + 1) // 2,
                1 << (cv.nbits - 1), (1 << (cv.nbits - 1)) - 1, (1 << cv.nbits) - 1, 1 << (m - 1), (1 << m) - 1, 1 << m,
                (1 << (m + 1)) - 1, (1 << (m + 2)) - 1, 1 << (m + 2), (1 << (m + 6)) + 12345, 1 << (m + 7), n * n,
                (1 << 300) + 7]

    def run(self, N):
        ctx, R, rng, cv = self.ctx, self.R, self.rng, self.cv
        muls = [fn for fn in ("ed_mul_basic", "ed_mul_slide", "ed_mul_monty", "ed_mul_lwnaf", "ed_mul_lwreg", "ed_mul")
                if self.has(fn)]
        sims = [fn for fn in ("ed_mul_sim_basic", "ed_mul_sim_trick", "ed_mul_sim_inter", "ed_mul_sim_joint",
                              "ed_mul_sim_gen", "ed_mul_sim") if self.has(fn)]
        lot = self.has("ed_mul_sim_lot")
        fixes = self.fix_variants()
        ds = self.directed_scalars()
        rp = (self.pool[-1], 0)
        i = 0
        for k in ds:
            for fn in muls:
                for d in ((1, 0), rp, (0, 0)):
                    for alias in (False, True):
                        if ctx.mine(i):
                            self.mul_case(fn, d, k, alias)
                        i += 1
            if ctx.mine(i):
                self.gen_case(k)
            i += 1
        for k in (0, 1, 2, 3, 255, (1 << R.DIG) - 1, 1 << (R.DIG - 1)):
            for d in ((1, 0), rp, (0, 0)):
                for alias in (False, True):
                    if ctx.mine(i):
                        self.dig_case(d, k, alias)
                    i += 1
        for pre, fix, size in fixes:
            for d in ((1, 0), rp, (0, 0)):
                if ctx.mine(i):
                    tab = self.fix_table(pre, size, d)
                    if tab:
                        for k in ds:
                            self.fix_case(fix, tab, d, k)
                        R.free(tab)
                i += 1
        small = [0, 1, -1, 2, cv.n - 1, cv.n, rng.randrange(1, cv.n), (1 << cv.fbits) + 9, (1 << (cv.fbits + 30)) + 9]
        for fn in sims:
            for (d, e) in (((1, 0), rp), (rp, rp), (rp, cv.dneg(rp)), ((0, 0), rp), (rp, (0, 0)), ((3, 0), (cv.n - 1, 0))):
                for k in small:
                    for m in small:
                        if ctx.mine(i) and {cv.krange(k), cv.krange(m)} != {"xl", "xh"}:
                            self.sim_case(fn, d, e, k, m, alias=(i // 7) % 4)
                        i += 1
        if lot:
            for n in (0, 1, 2, 3, 5, 8):
                for mode in ("in", "hostile"):
                    if ctx.mine(i):
                        pts = [self.point(0.1) for _ in range(n)]
                        ks = [self.scalar(0.0 if mode == "in" else 0.6) for _ in range(n)]
                        self.lot_case(pts, ks, ["B"] * n)
                    i += 1
        ops = ["mul"] * 10 + ["gen"] * 2 + ["dig"] + ["fix"] * 6 + ["sim"] * 8 + (["lot"] * 2 if lot else [])
        it = 0
        while it < N:
            R.poison = rng.randrange(1, 256)
            op = rng.choice(ops)
            if op == "mul":
                self.mul_case(rng.choice(muls), self.point(), self.scalar())
                it += 1
            elif op == "gen":
                self.gen_case(self.scalar())
                it += 1
            elif op == "dig":
                self.dig_case(self.point(), rng.choice([0, 1, 2, rng.getrandbits(R.DIG), rng.getrandbits(8),
                                                        (1 << R.DIG) - 1]))
                it += 1
            elif op == "fix" and fixes:
                pre, fix, size = rng.choice(fixes)
                d = self.point()
                tab = self.fix_table(pre, size, d)
                if tab:
                    for _ in range(8):
                        self.fix_case(fix, tab, d, self.scalar())
                        it += 1
                    R.free(tab)
                else:
                    it += 1
            elif op == "lot":
                n = rng.choice([0, 1, 2, 3, 4, 7, 12])
                pts = [self.point(0.05) for _ in range(n)]
                hostile = rng.choice([0.0, 0.0, 0.3])
                ks = [self.scalar(hostile) for _ in range(n)]
                reps = [rng.choice(["B", "B", "P", "P1"]) for _ in range(n)]
                self.lot_case(pts, ks, reps)
                it += 1
            else:
                d, e = self.sim_points()
                k, m = self.scalar(0.35), self.scalar(0.35)
                if {cv.krange(k), cv.krange(m)} == {"xl", "xh"}:
                    m = k
                self.sim_case(rng.choice(sims), d, e, k, m)
                it += 1


# ===================================================================================== entry
def run(ctx, part):
    R = RT(ctx.cfg)
    E = EX(R)
    ok = False
    with Case(ctx, "ed_param_set|CURVE_ED25519", {}, nontrivial=False, budget=600, setup=True) as go:
        if go:
            ident = R.E.get("CURVE_ED25519", 1)
            r = R.call("ed_param_set", ident)
            ok = ctx.check(not r.caught and R.L.ed_param_get() == ident, None, {"err": r.err})
    if not ok:
        raise RuntimeError("ed_param_set(CURVE_ED25519) is not available in configuration " + ctx.cfg)
    with Case(ctx, "ed_param_set_any|", {}, nontrivial=False, budget=600) as go:
        if go:
            r = R.call("ed_param_set_any")
            ctx.check(not r.caught and r.i == R.K["RLC_OK"] and R.L.ed_param_get() == R.E.get("CURVE_ED25519", 1), None,
                      {"ret": r.i})
    cv = Cv(R, E, ctx.rng)
    ctx.note("default_coordinates_" + ctx.cfg, impl_of(R, "ed_add"))
    ctx.note("curve", {"id": "CURVE_ED25519", "p": hx(cv.p), "a": "-1", "d": hx(cv.d), "n": hx(cv.n), "h": cv.h})
    ctx.note("dispatch", {k: impl_of(R, k) for k in ("ed_neg", "ed_add", "ed_sub", "ed_dbl", "ed_mul", "ed_mul_pre",
                                                      "ed_mul_fix", "ed_mul_sim")})
    if part == "law":
        w = LawPart(ctx, R, E, cv)
        w.has("ed_projc_to_extnd")      # only declared and built when ED_ADD == EXTND
        w.run(ctx.n(3000, 50000) if not w.ext else ctx.n(1500, 30000))
    else:
        w = MulPart(ctx, R, E, cv)
        w.sacrificial()
        w.run(ctx.n(700, 14000) if not w.ext else ctx.n(300, 8000))
        ctx.note("confined_known_fatal", sorted(w.confined))
        ctx.add("cases_stepped_around_confined_known_fatal", w.stepped)
    ctx.note("functions_not_built", sorted(w.not_built))
    ctx.note("functions_exercised", sorted(R.fn_seen))
    ctx.note("error_codes_seen", {str(k): v for k, v in R.err_codes.items()})


def finish(cov):
    """function-coverage accounting against the API inventory of the design (DESIGN.md 10)"""
    inv = os.path.join(os.path.dirname(KNOWN) if not os.environ.get("VF_KNOWN") else
                       os.path.dirname(os.path.dirname(os.path.dirname(os.path.abspath(__file__)))),
                       "design", "api_inventory.json")
    try:
        fns = json.load(open(inv))["functions"]
    except (OSError, ValueError, KeyError):
        return
    scope = sorted(k for k, v in fns.items() if v.get("property") == "C17")
    seen = set(cov.get("functions_exercised", []))
    absent = set(cov.get("functions_not_built", []))
    cov["functions_in_scope"] = len(scope)
    cov["functions_in_scope_exercised"] = len([f for f in scope if f in seen])
    cov["functions_uncovered"] = [f for f in scope if f not in seen and f not in absent]
