"""C01 - multi-precision integer arithmetic is exact (oracle: Python integers)."""
from ..rt import RT, MonitorViolation
from ..ctx import hx

LEVEL = "exploration"
RULE = ("operands drawn from structured digit patterns (0, 1, B-1, B/2, B/2+-1, single bit, random) with lengths "
        "0..capacity, both signs, every alias pattern, plus engineered Knuth-D pairs; every result compared with "
        "Python integer arithmetic, normal form and input immutability read from the raw bn_st; a case is "
        "non-trivial when at least one operand is non-zero; distinct = distinct (operation, class, operands, alias)")
ASSUMPTIONS = ["Python's arbitrary-precision integers are the reference for Z",
               "bn_div*/bn_mod* are floor division with a remainder of the divisor's sign (header documentation)",
               "bn_rsh/bn_hlv are floor(a/2^k) as documented"]


def parts(tier):
    q = tier == "quick"
    return [dict(part="main", cfg="asan256", shards=6 if q else 8),
            dict(part="main", cfg="asan256w8", shards=6 if q else 8),
            dict(part="main", cfg="asan256k", shards=4 if q else 8),
            # ALLOC=DYNAMIC: same generators; results may grow beyond RLC_BN_SIZE digits (bn_grow reallocates),
            # so no precision error is ever expected there
            dict(part="main", cfg="dyn256", shards=2 if q else 4)]


class G(object):
    """operand generators"""

    def __init__(self, R, rng):
        self.R = R
        self.rng = rng
        self.W = R.DIG
        self.B = 1 << R.DIG

    def pat(self):
        rng, B, W = self.rng, self.B, self.W
        c = rng.randrange(10)
        if c == 0:
            return 0
        if c == 1:
            return B - 1
        if c == 2:
            return 1 << rng.randrange(W)
        if c == 3:
            return B >> 1
        if c == 4:
            return (B >> 1) + rng.choice([-1, 1])
        if c == 5:
            return 1
        if c == 6:
            return B - 2
        return rng.randrange(B)

    def mag(self, nd):
        v = 0
        mode = self.rng.randrange(6)
        for i in range(nd):
            if mode == 0:
                d = self.B - 1
            elif mode == 1:
                d = 0 if i else self.pat()
            elif mode == 2:
                d = self.rng.randrange(self.B)
            else:
                d = self.pat()
            v = (v << self.W) | d
        if mode == 1 and nd:
            v |= self.pat() << (self.W * (nd - 1))
        return v

    def operand(self, maxd, signed=True):
        rng = self.rng
        nd = rng.choice([0, 1, 1, 2, 2, 3, rng.randrange(0, maxd + 1), rng.randrange(0, maxd + 1), maxd])
        v = self.mag(nd)
        if signed and rng.random() < 0.4:
            v = -v
        return v

    def divpair(self, maxd):
        """pairs that drive Knuth D into its corner cases"""
        rng, B, W = self.rng, self.B, self.W
        c = rng.randrange(8)
        nb = rng.randrange(1, max(2, maxd // 2))
        na = nb + rng.randrange(0, max(1, maxd - nb))
        if c == 0:      # top divisor digit B/2 (already normalised), dividend prefix equal to divisor prefix
            b = ((B >> 1) << (W * (nb - 1))) | self.mag(nb - 1)
            a = (b << (W * (na - nb))) | self.mag(na - nb)
            if rng.random() < 0.5:
                a -= 1
        elif c == 1:    # q*b + r with q having B-1 digits
            b = self.mag(nb) | (1 << (W * nb - 1))
            q = (1 << (W * (na - nb + 1))) - 1
            r = rng.randrange(b) if rng.random() < 0.7 else b - 1
            a = q * b + r
        elif c == 2:    # products +-1: add-back
            b = self.mag(nb) | 1
            q = self.mag(max(1, na - nb))
            a = q * b + rng.choice([-1, 0, 1, b - 1])
            a = abs(a)
        elif c == 3:    # divisor with top digit B-1 / B/2+1 / small
            top = rng.choice([B - 1, (B >> 1) + 1, (B >> 1) - 1, 1, 2, 3])
            b = (top << (W * (nb - 1))) | self.mag(nb - 1)
            a = self.mag(na)
        elif c == 4:    # 3-by-2 estimate corner: dividend top two digits == divisor top two digits
            hi = rng.randrange(1, B) << W | rng.randrange(B)
            b = (hi << (W * max(0, nb - 2))) | self.mag(max(0, nb - 2)) if nb >= 2 else hi >> W or 1
            a = (hi << (W * max(0, na - 2))) | self.mag(max(0, na - 2))
        elif c == 5:    # equal magnitudes / off by one
            b = self.mag(nb) or 1
            a = b + rng.choice([-1, 0, 1])
        elif c == 6:    # |a| < |b|
            b = self.mag(na + 1) or 1
            a = self.mag(nb)
        else:
            a = self.mag(na)
            b = self.mag(nb) or 1
        if b == 0:
            b = 1
        if rng.random() < 0.35:
            a = -a
        if rng.random() < 0.35:
            b = -b
        return a, b


def sg(x):
    return "neg" if x < 0 else ("zero" if x == 0 else "pos")


def run(ctx, part):
    R = RT(ctx.cfg)
    R.strict_chain = True
    rng = ctx.rng
    g = G(R, rng)
    W, B, CAP = R.DIG, R.B, R.BN_SIZE
    a, b, c, d = R.bn_new(), R.bn_new(), R.bn_new(), R.bn_new()
    dig = R.mem(8, 0)
    K = R.K
    half = CAP // 2 - 1
    ctx.note("digit_bits", W)
    ctx.note("capacity_digits", CAP)
    ctx.note("dispatch", {"bn_mul": R.target("bn_mul"), "bn_sqr": R.target("bn_sqr")})
    LT, EQ, GT = K["RLC_LT"], K["RLC_EQ"], K["RLC_GT"]

    def cmpv(x, y):
        return GT if x > y else (LT if x < y else EQ)

    def readdig():
        import ctypes
        return int.from_bytes(ctypes.string_at(dig, R.DB), "little")

    DYN = R.dyn

    def fits(v, margin=0):
        return DYN or abs(v).bit_length() <= (CAP - margin) * W

    binops = ["add", "sub", "mul_basic", "mul_comba", "mul_karat", "mul"]
    unops = ["sqr_basic", "sqr_comba", "sqr_karat", "sqr", "dbl", "hlv", "neg", "abs", "copy"]
    digops = ["add_dig", "sub_dig", "mul_dig", "div_dig", "div_rem_dig", "mod_dig", "cmp_dig"]
    shifts = ["lsh", "rsh", "mod_2b", "set_2b", "set_bit", "get_bit"]
    preds = ["cmp", "cmp_abs", "bits", "ham", "is_even", "is_zero", "sign", "get_dig", "set_dig", "zero"]
    divs = ["div", "div_rem"]
    allops = binops * 3 + unops * 2 + digops * 2 + shifts * 2 + preds + divs * 8
    N = ctx.n(25000, 600000)

    def nd(v):
        return max(1, (abs(v).bit_length() + W - 1) // W)

    def stale():
        """what a separate output object holds before the call: a value of either sign and of any length the object
        admits, left by an earlier computation (results must not depend on it)"""
        bits = rng.choice([0, 1, W - 1, W, 70, 2 * W + 3, W * half, W * (CAP - 1)])
        v = rng.getrandbits(bits) if bits else 0
        return -v if rng.random() < 0.5 else v

    def verdict(op, cls, alias, out, exp, ins, res, may_err=False):
        """common result handling: error policy, value, normal form, input immutability"""
        key = ctx.cur_key
        if res.caught:
            # an error is legitimate only when the exact result does not fit the precision
            # (a conservative rejection is accepted when the operation's natural scratch size exceeds the capacity)
            ctx.check((may_err and not DYN) or not fits(exp), key + "|unexpected-error", {"err": res.err, "exp_bits": abs(exp).bit_length()})
            return
        v, used, sign, normal = R.bn_get(out)
        ctx.check(v == exp, key + "|value", {"got": hx(v) if v is not None else None, "exp": hx(exp)})
        ctx.check(normal, key + "|normal-form", {"used": used, "sign": sign, "exp": hx(exp)})
        for p, val in ins:
            if p != out:
                vv = R.bn_get(p)
                ctx.check(vv[0] == val and vv[3], key + "|input-modified", {"was": hx(val), "now": repr(vv)})

    for it in range(N):
        op = rng.choice(allops)
        poison = rng.randrange(1, 256)
        R.poison = poison
        try:
            if op in binops:
                big = rng.random() < 0.15
                x = g.operand(CAP if big else half)
                y = g.operand(CAP if big else half)
                alias = rng.randrange(4)  # 0 none, 1 c==a, 2 c==b, 3 a==b
                if alias == 3:
                    y = x
                exp = {"add": x + y, "sub": x - y}.get(op, x * y)
                cls = sg(x) + "," + sg(y) + ("|zero-result" if exp == 0 and (x or y) else "") + "|alias%d" % alias
                if not ctx.begin("bn_%s|%s" % (op, cls), [hx(x), hx(y)], nontrivial=bool(x or y)):
                    continue
                R.bn_put(a, x)
                R.bn_put(b, y)
                R.bn_put(c, stale())
                pa = a
                pb = a if alias == 3 else b
                out = c if alias in (0, 3) else (a if alias == 1 else b)
                res = R.call("bn_" + op, out, pa, pb)
                # multiplication needs room for the full double-length product (documented precision)
                me = (nd(x) + nd(y) > CAP) if op.startswith("mul") else (max(nd(x), nd(y)) + 1 > CAP)
                verdict(op, cls, alias, out, exp, [(a, x)] + ([(b, y)] if alias != 3 else []), res, may_err=me)
            elif op in unops:
                big = rng.random() < 0.15
                x = g.operand(CAP if big else half)
                alias = rng.randrange(2)
                exp = {"dbl": 2 * x, "hlv": x >> 1, "neg": -x, "abs": abs(x), "copy": x}.get(op, x * x)
                cls = sg(x) + "|alias%d" % alias
                if op == "hlv" and x < 0:
                    cls = ("neg-odd" if x & 1 else "neg-even") + "|alias%d" % alias
                if not ctx.begin("bn_%s|%s" % (op, cls), [hx(x)], nontrivial=bool(x)):
                    continue
                R.bn_put(a, x)
                R.bn_put(c, stale())
                out = a if alias else c
                res = R.call("bn_" + op, out, a)
                me = (2 * nd(x) > CAP) if op.startswith("sqr") else (op == "dbl" and nd(x) + 1 > CAP)
                verdict(op, cls, alias, out, exp, [(a, x)], res, may_err=me)
            elif op in digops:
                x = g.operand(CAP - 1)
                dg = g.pat()
                alias = rng.randrange(2)
                out = a if alias else c
                if op in ("div_dig", "div_rem_dig", "mod_dig") and dg == 0:
                    if not ctx.begin("bn_%s|divisor-zero" % op, [hx(x)]):
                        continue
                    R.bn_put(a, x)
                    if op == "mod_dig":
                        # documented without a throw clause; not exercised with 0
                        continue
                    res = R.call("bn_" + op, *([out, dig, a, 0] if op == "div_rem_dig" else [out, a, 0]))
                    ctx.check(res.caught and res.err == K["ERR_NO_VALID"], None, {"err": res.err})
                    continue
                if op in ("div_dig", "div_rem_dig"):
                    q, r = divmod(x, dg)
                    cls = sg(x) + ("|rem0" if r == 0 else "|rem") + ("|b1" if dg == 1 else "") + "|alias%d" % alias
                    if not ctx.begin("bn_%s|%s" % (op, cls), [hx(x), hx(dg)], nontrivial=bool(x)):
                        continue
                    R.bn_put(a, x)
                    R.bn_put(c, stale())
                    if op == "div_dig":
                        res = R.call("bn_div_dig", out, a, dg)
                    else:
                        res = R.call("bn_div_rem_dig", out, dig, a, dg)
                    verdict(op, cls, alias, out, q, [(a, x)], res)
                    if op == "div_rem_dig" and not res.caught:
                        ctx.check(readdig() == r, ctx.cur_key + "|remainder", {"got": readdig(), "exp": r})
                elif op == "mod_dig":
                    cls = sg(x)
                    if not ctx.begin("bn_mod_dig|%s" % cls, [hx(x), hx(dg)], nontrivial=bool(x)):
                        continue
                    R.bn_put(a, x)
                    res = R.call("bn_mod_dig", dig, a, dg)
                    if not res.caught:
                        ctx.check(readdig() == x % dg, None, {"got": readdig(), "exp": x % dg})
                        vv = R.bn_get(a)
                        ctx.check(vv[0] == x, ctx.cur_key + "|input-modified")
                    else:
                        ctx.fail(ctx.cur_key + "|unexpected-error", {"err": res.err})
                elif op == "cmp_dig":
                    if rng.random() < 0.3:
                        x = dg + rng.choice([-1, 0, 1])
                    cls = sg(x)
                    if not ctx.begin("bn_cmp_dig|%s" % cls, [hx(x), hx(dg)]):
                        continue
                    R.bn_put(a, x)
                    res = R.call("bn_cmp_dig", a, dg)
                    ctx.check(res.i == cmpv(x, dg), None, {"got": res.i, "exp": cmpv(x, dg)})
                else:
                    exp = {"add_dig": x + dg, "sub_dig": x - dg, "mul_dig": x * dg}[op]
                    cls = sg(x) + ("|zero-result" if exp == 0 and x else "") + "|alias%d" % alias
                    if op != "mul_dig" and x < 0:
                        cls += "|small" if abs(x) < B else "|large"
                    if not ctx.begin("bn_%s|%s" % (op, cls), [hx(x), hx(dg)], nontrivial=bool(x or dg)):
                        continue
                    R.bn_put(a, x)
                    R.bn_put(c, stale())
                    res = R.call("bn_" + op, out, a, dg)
                    verdict(op, cls, alias, out, exp, [(a, x)], res, may_err=nd(x) + 1 > CAP)
            elif op in shifts:
                x = g.operand(CAP)
                if op in ("lsh", "rsh"):
                    s = rng.choice([0, 1, W - 1, W, W + 1, 2 * W, rng.randrange(0, 3 * W), rng.randrange(0, CAP * W + 70)])
                    alias = rng.randrange(2)
                    out = a if alias else c
                    if op == "lsh":
                        exp = x << s
                        cls = sg(x)
                    else:
                        exp = x >> s
                        inexact = x < 0 and (abs(x) & ((1 << s) - 1)) != 0
                        cls = "neg-inexact" if inexact else sg(x)
                    sc = "s0" if s == 0 else ("whole-digits" if s % W == 0 else "s")
                    cls += "|%s|alias%d" % (sc, alias)
                    if not ctx.begin("bn_%s|%s" % (op, cls), [hx(x), s], nontrivial=bool(x)):
                        continue
                    R.bn_put(a, x)
                    R.bn_put(c, stale())
                    res = R.call("bn_" + op, out, a, s)
                    verdict(op, cls, alias, out, exp, [(a, x)], res, may_err=(op == "lsh" and nd(x) + s // W + 1 > CAP))
                elif op == "mod_2b":
                    s = rng.choice([0, 1, W - 1, W, W + 1, rng.randrange(0, CAP * W + 70)])
                    alias = rng.randrange(2)
                    out = a if alias else c
                    x = abs(x)  # negative operands of bn_mod_2b are judged under C09 (modular reduction)
                    cls = sg(x) + "|alias%d" % alias
                    if not ctx.begin("bn_mod_2b|%s" % cls, [hx(x), s], nontrivial=bool(x)):
                        continue
                    R.bn_put(a, x)
                    R.bn_put(c, stale())
                    res = R.call("bn_mod_2b", out, a, s)
                    verdict(op, cls, alias, out, x % (1 << s), [(a, x)], res)
                elif op == "set_2b":
                    s = rng.choice([0, 1, W - 1, W, CAP * W - 1, CAP * W, CAP * W + 1, rng.randrange(0, CAP * W + 70)])
                    cls = "fits" if s < CAP * W else "beyond-capacity"
                    if not ctx.begin("bn_set_2b|%s" % cls, [s]):
                        continue
                    R.bn_put(c, x)
                    res = R.call("bn_set_2b", c, s)
                    if res.caught and s >= CAP * W:
                        ctx.ok()    # explicit argument check of bn_set_2b (ERR_NO_VALID), also with ALLOC=DYNAMIC
                    else:
                        verdict(op, cls, 0, c, 1 << s, [], res)
                elif op == "set_bit":
                    x = abs(g.operand(CAP))
                    ux = max(1, (x.bit_length() + W - 1) // W)
                    s = rng.choice([0, 1, W - 1, W, ux * W - 1, ux * W, ux * W + 1, CAP * W - 1, CAP * W, CAP * W + 1,
                                    rng.randrange(0, CAP * W + 70)])
                    val = rng.randrange(2)
                    if s >= CAP * W:
                        cls = "bit>=capacity"
                    elif s >= (ux + 1) * W:
                        cls = "gap-beyond-used"
                    elif s >= ux * W:
                        cls = "next-digit"
                    else:
                        cls = "inside"
                    cls += "|v%d" % val
                    if not ctx.begin("bn_set_bit|%s" % cls, [hx(x), s, val], nontrivial=True):
                        continue
                    R.bn_put(a, x)
                    res = R.call("bn_set_bit", a, s, val)
                    exp = (x | (1 << s)) if val else (x & ~(1 << s))
                    if res.caught:
                        ctx.check(not DYN and s >= CAP * W and val == 1, ctx.cur_key + "|unexpected-error", {"err": res.err})
                    else:
                        v, used, sign, normal = R.bn_get(a)
                        ctx.check(v == exp, ctx.cur_key + "|value", {"got": hx(v) if v is not None else None, "exp": hx(exp)})
                        # bn_set_bit(…,0) may leave a leading zero digit: header does not promise trimming; value only
                else:  # get_bit
                    s = rng.choice([0, 1, W - 1, W, rng.randrange(0, CAP * W)])
                    x = abs(x)
                    ux = max(1, (x.bit_length() + W - 1) // W)
                    if s >= ux * W:
                        s = s % (ux * W)  # bits beyond 'used' are unspecified storage
                    if not ctx.begin("bn_get_bit|in-range", [hx(x), s], nontrivial=bool(x)):
                        continue
                    R.bn_put(a, x)
                    res = R.call("bn_get_bit", a, s)
                    ctx.check(res.i == ((x >> s) & 1), None, {"got": res.i})
            elif op in preds:
                x = g.operand(CAP)
                y = g.operand(CAP)
                if rng.random() < 0.3:
                    y = x + rng.choice([-1, 0, 1]) * rng.choice([1, 1 << (W * rng.randrange(0, 3))])
                    if not fits(y):
                        y = x
                if rng.random() < 0.1:
                    y = -x
                if op in ("cmp", "cmp_abs"):
                    cls = sg(x) + "," + sg(y)
                    if not ctx.begin("bn_%s|%s" % (op, cls), [hx(x), hx(y)], nontrivial=bool(x or y)):
                        continue
                    R.bn_put(a, x)
                    R.bn_put(b, y)
                    res = R.call("bn_" + op, a, b)
                    e = cmpv(x, y) if op == "cmp" else cmpv(abs(x), abs(y))
                    ctx.check(res.i == e, None, {"got": res.i, "exp": e})
                elif op == "set_dig":
                    dg = g.pat()
                    if not ctx.begin("bn_set_dig|", [hx(dg)]):
                        continue
                    R.bn_put(c, x)
                    res = R.call("bn_set_dig", c, dg)
                    verdict(op, "", 0, c, dg, [], res)
                elif op == "zero":
                    if not ctx.begin("bn_zero|" + sg(x), [hx(x)]):
                        continue
                    R.bn_put(c, x)
                    res = R.call("bn_zero", c)
                    verdict(op, "", 0, c, 0, [], res)
                else:
                    cls = sg(x)
                    if not ctx.begin("bn_%s|%s" % (op, cls), [hx(x)], nontrivial=bool(x)):
                        continue
                    R.bn_put(a, x)
                    if op == "get_dig":
                        res = R.call("bn_get_dig", dig, a)
                        got, e = readdig(), abs(x) & (B - 1)
                    else:
                        res = R.call("bn_" + op, a)
                        got = res.i if op in ("is_even", "is_zero", "sign") else res.r
                        e = {"bits": abs(x).bit_length(), "ham": bin(abs(x)).count("1"), "is_even": int(x % 2 == 0),
                             "is_zero": int(x == 0), "sign": K["RLC_NEG"] if x < 0 else K["RLC_POS"]}[op]
                    ctx.check(got == e and not res.caught, None, {"got": got, "exp": e})
                    vv = R.bn_get(a)
                    ctx.check(vv[0] == x, ctx.cur_key + "|input-modified")
            else:  # div, div_rem
                if rng.random() < 0.75:
                    x, y = g.divpair(CAP - 1)
                else:
                    x, y = g.operand(CAP - 1), g.operand(half)
                if abs(x).bit_length() > (CAP - 1) * W:
                    x >>= W
                if abs(y).bit_length() > (CAP - 1) * W:
                    y >>= W
                if y == 0:
                    if not ctx.begin("bn_%s|divisor-zero" % op, [hx(x)]):
                        continue
                    R.bn_put(a, x)
                    R.bn_put(b, 0)
                    res = R.call("bn_div", c, a, b) if op == "div" else R.call("bn_div_rem", c, d, a, b)
                    ctx.check(res.caught and res.err == K["ERR_NO_VALID"], None, {"err": res.err})
                    continue
                q, r = divmod(x, y)
                # alias patterns: 0 none, 1 c==a, 2 c==b, 3 d==a, 4 d==b, 5 a==b
                alias = rng.choice([0, 0, 1, 2, 5] if op == "div" else [0, 0, 1, 2, 3, 4, 5])
                if alias == 5 and x == 0:
                    alias = 0
                if alias == 5:
                    y = x
                    q, r = divmod(x, y)
                rel = "lt" if abs(x) < abs(y) else "ge"
                cls = "%s,%s|%s|%s|alias%d" % (sg(x), sg(y), rel, "rem0" if r == 0 else "rem", alias)
                if not ctx.begin("bn_%s|%s" % (op, cls), [hx(x), hx(y)], nontrivial=bool(x)):
                    continue
                R.bn_put(a, x)
                R.bn_put(b, y)
                R.bn_put(c, stale())
                R.bn_put(d, stale())
                pa = a
                pb = a if alias == 5 else b
                pc = {1: a, 2: b}.get(alias, c)
                pd = {3: a, 4: b}.get(alias, d)
                if op == "div":
                    res = R.call("bn_div", pc, pa, pb)
                else:
                    res = R.call("bn_div_rem", pc, pd, pa, pb)
                if res.caught:
                    # documented conservative rejection: the dividend needs one spare digit
                    ctx.check(not DYN and abs(x).bit_length() > (CAP - 2) * W, ctx.cur_key + "|unexpected-error", {"err": res.err})
                    continue
                v, used, sign, normal = R.bn_get(pc)
                ctx.check(v == q, ctx.cur_key + "|quotient", {"got": hx(v) if v is not None else None, "exp": hx(q)})
                ctx.check(normal, ctx.cur_key + "|normal-form", {"used": used, "sign": sign})
                if op == "div_rem":
                    v, used, sign, normal = R.bn_get(pd)
                    ctx.check(v == r, ctx.cur_key + "|remainder", {"got": hx(v) if v is not None else None, "exp": hx(r)})
                    ctx.check(normal, ctx.cur_key + "|normal-form-rem", {"used": used, "sign": sign})
                for p, val in ((a, x), (b, y)):
                    if p not in (pc, pd) and not (p is b and alias == 5):
                        vv = R.bn_get(p)
                        ctx.check(vv[0] == val and vv[3], ctx.cur_key + "|input-modified", {"was": hx(val), "now": repr(vv)})
        except MonitorViolation as e:
            ctx.fail((ctx.cur_key or op) + "|" + e.kind, e.detail)
        finally:
            ctx.end()
    ctx.note("functions_exercised", sorted(R.fn_seen))
    ctx.note("error_codes_seen", {str(k): v for k, v in R.err_codes.items()})
