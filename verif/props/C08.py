"""C08 - no call reads or writes outside its objects; overflow is reported, not performed.

part sweep   (asan256): operand sizes around the configured precision, buffer lengths around each required size,
                        counts n >= 0 of array-taking functions, recodings with *len around the requirement and
                        degenerate scalars, output lengths of the KDF family, short RSA buffers; every caller-owned
                        object is an exact-size heap block (red zones directly behind it); each case also runs under
                        two slack-poison patterns and must give identical results (never-written storage).
                        The library context is a single object for the sanitizers, so stores that leave one of its members
                        are watched separately: every case runs between two raw snapshots of the context (member table from
                        shim/vf_x_C08.c) - calls that configure nothing must leave it unchanged (error state and generator
                        state excepted), and the parameter-setting entry points (fp_prime_set_pairf/_pmers/_dense, the
                        *_param_set identifiers, ep2_curve_set_twist, fb_poly_set_trino/_penta, rand_seed) are fed hostile
                        caller-chosen parameters (dense / maximal-weight recodings, term counts around RLC_TERMS, zero,
                        negative, over-long, identifiers outside the enumerations) and judged by member ownership, bounded
                        length members, integer headers, an equivalent-history comparison and behavioural batteries.
part fault   (dyn256) : ALLOC=DYNAMIC build with a countdown allocation-failure injector: for every recorded call the
                        1st..A-th allocation is failed in turn; accepted outcomes are an error or the correct result,
                        never a sanitizer report, a heap growth larger than the successful run (leaked temporaries)
                        or an unusable library.
part sampler:<Cxx>    : a reduced pass of the workload generators of the other property modules with the sanitizers
                        as the only oracle (their value oracles are ignored here), so that every kind of call the other
                        checks make is also made under this property's id.
"""
import ctypes
import importlib
import os
import re

from ..rt import RT, MonitorViolation
from ..ctx import hx
from ..model.curves import Fp, WCurve

LEVEL = "fault_enumeration"
RULE = ("sweep: enumerated boundary sizes x structured operands (random fill from the shard seed); fault: exhaustive "
        "enumeration of the allocation-failure points of each recorded call (sampled above 400 points per record in "
        "the quick tier); sampler: the generators of the other modules at reduced size. A case is non-trivial when an "
        "operand/buffer is within one unit of a capacity or a failure is injected; distinct = distinct (function, "
        "sizes, operands, failure index)")
ASSUMPTIONS = ["ASan red zones behind exact-size heap blocks and UBSan catch the accesses the property forbids on the executed paths",
               "stores inside the library context (one object, no red zones between its members) are visible as byte differences "
               "between raw snapshots of the context taken between calls; the member layout is exported from the real headers",
               "the ASan allocator statistics are exact for the single-threaded worker (leak monitor of the fault part)",
               "allocation failure is modelled as malloc/calloc/realloc returning NULL (posix_memalign: ENOMEM)"]

SAMPLED = ["C01", "C02", "C03", "C07", "C09", "C10", "C11", "C12", "C13", "C14", "C15", "C16", "C17", "C05", "C06", "C04"]


def _claimed():
    import json
    try:
        m = json.load(open(os.path.join(os.path.dirname(os.path.dirname(os.path.dirname(os.path.abspath(__file__)))), "MANIFEST.json")))
        return set(c["property_id"] for c in m.get("checks", []))
    except Exception:
        return set()


def _sampler_parts(tier_quick=True):
    out = []
    claimed = _claimed()
    for pid in SAMPLED:
        if pid not in claimed:
            continue    # only modules that are registered (silent on the unchanged tree) are sampled
        try:
            mod = importlib.import_module("verif.props." + pid)
        except Exception:
            continue
        seen = set()
        for p in mod.parts("quick"):
            from .. import build
            if build.CONFIGS[p["cfg"]].get("san", "asan") != "asan":
                continue
            if (p["part"], p["cfg"]) in seen:
                continue
            seen.add((p["part"], p["cfg"]))
            out.append(dict(part="sampler:%s:%s" % (pid, p["part"]), cfg=p["cfg"], shards=1 if tier_quick else 2,
                            timeout=p.get("timeout", 1800)))
    return out


def parts(tier):
    q = tier == "quick"
    ps = [dict(part="sweep", cfg="asan256", shards=8 if q else 12),
          dict(part="fault", cfg="dyn256", shards=8 if q else 14)]
    if os.environ.get("VF_C08_NO_SAMPLER") != "1":
        ps += _sampler_parts(q)
    return ps


def run(ctx, part):
    if part == "sweep":
        run_sweep(ctx)
    elif part == "fault":
        run_fault(ctx)
    elif part.startswith("sampler:"):
        _, pid, sub = part.split(":", 2)
        mod = importlib.import_module("verif.props." + pid)
        # sanitizers are the only oracle here: value disagreements belong to the other property's own check
        real_fail = ctx.fail

        def sampler_fail(key, detail=None):
            # value disagreements belong to the other property; what the trampoline's own monitors see (a handler
            # chain left dangling by a return from inside a protected block, a sticky code that disagrees with the
            # handler) is exactly "the library remains usable afterwards" and stays a failure here
            if str(key).endswith(("|handler-chain", "|sticky-code", "|library-unusable-afterwards")):   # (the context invariants below report through real_fail)
                real_fail(key, detail)
        ctx.fail = sampler_fail
        # invariants of the library context after every sampled case (the context has no red zones between its members):
        # length members stay inside their tables, integer members keep the header core_init gave them
        inv = {"cm": None, "ref": None, "n": 0}
        real_end = ctx.end

        def sampler_end():
            real_end()
            try:
                if inv["cm"] is None:
                    Rv = RT(ctx.cfg, init=False)
                    Rv.ctx = Rv.S.vf_core_get()
                    inv["cm"] = _CtxMon(Rv) if Rv.ctx else None
                    if inv["cm"] is None:
                        return
                cm = inv["cm"]
                if not cm or not cm.ok:
                    return
                cm.R.ctx = cm.R.S.vf_core_get()
                if not cm.R.ctx:
                    return
                hdr = cm.headers()
                if inv["ref"] is None:
                    inv["ref"] = hdr
                inv["n"] += 1
                bad = cm.headers_bad(inv["ref"], hdr)
                if bad:
                    real_fail(str(ctx.cur_key) + "|" + bad[0], bad[1])
                    inv["ref"] = hdr        # report a broken header once, not after every later case
            except AttributeError:
                inv["cm"] = False
        if os.environ.get("VF_C08_NO_CTXINV") != "1":
            ctx.end = sampler_end
        real_n = ctx.n
        ctx.n = lambda q, t=None: max(1, real_n(q, t) // (4 if ctx.quick else 2))
        ctx.default_budget = 300
        ctx.sampler = True
        ctx.sample_every = 16 if ctx.quick else 3
        ctx.sample_phase = (ctx.seed + ctx.shard) % ctx.sample_every
        mod.run(ctx, sub)
        ctx.evaluations = max(ctx.evaluations, ctx.cases)
        ctx.add("context_invariant_checks", inv["n"])


# =========================================================================================== sweep
def run_sweep(ctx):
    R = RT(ctx.cfg)
    rng = ctx.rng
    K = R.K
    W, B, CAP = R.DIG, R.B, R.BN_SIZE
    DB = R.DB
    a, b, c, d = R.bn_new(), R.bn_new(), R.bn_new(), R.bn_new()
    idx = [0]

    def mine():
        idx[0] += 1
        return ctx.mine(idx[0])

    def fits(v):
        return abs(v).bit_length() <= CAP * W

    def nd(v):
        return max(1, (abs(v).bit_length() + W - 1) // W)

    def big(ndig, mode):
        if ndig <= 0:
            return 0
        if mode == 0:
            return (1 << (W * ndig)) - 1
        if mode == 1:
            return 1 << (W * ndig - 1)
        if mode == 2:
            return (1 << (W * (ndig - 1)))          # lowest bit of the top digit
        return rng.getrandbits(W * ndig) | (1 << (W * ndig - 1))

    def canary():
        R.bn_put(a, 0x1234567)
        R.bn_put(b, 0x89ABCDE)
        r = R.call("bn_mul", c, a, b)
        return (not r.caught) and R.bn_val(c) == 0x1234567 * 0x89ABCDE

    CM = _CtxMon(R)

    def guarded(key, desc, fn, nontrivial=True, budget=None, owners=("rand",)):
        """owners: groups of context members the calls of this case may modify besides the error state (None: the case
        judges the context itself).  Calls that configure nothing must leave every other member of the library context
        byte-identical - the context is one object for the sanitizers, so this is the only view of a stray store in it."""
        if not ctx.begin(key, desc, nontrivial=nontrivial, budget=budget):
            return
        try:
            before = CM.snap() if (CM.ok and owners is not None) else None
            fn()
            if before is not None:
                after = CM.snap()
                if after != before:
                    ch = [n for n in CM.changed(before, after) if CM.group[n] != "err" and CM.group[n] not in owners
                          and not _CACHE_MEMBER.search(n)]
                    ctx.check(not ch, ctx.cur_key + "|context-member-modified-by-a-call-that-configures-nothing", {"members": ch[:8]})
                else:
                    ctx.ok()
        except MonitorViolation as e:
            ctx.fail(ctx.cur_key + "|" + e.kind, e.detail)
        finally:
            ctx.end()

    # ---------------------------------------------------------------- S1 growth at the precision boundary
    def s1():
        for ndx in (CAP - 2, CAP - 1, CAP):
            for mode in range(4):
                x = big(ndx, mode)
                for op in ("lsh", "dbl", "add", "add_dig", "mul_dig", "sqr_basic", "sqr_comba", "sqr_karat", "mul_basic",
                           "mul_comba", "mul_karat", "neg", "abs", "sub"):
                    for var in range(3):
                        if not mine():
                            continue
                        y = None
                        if op == "lsh":
                            s = [1, W - 1, W, W + 1, 2 * W][var] if var < 5 else 1
                            exp, args, me = x << s, lambda: (c, a, s), nd(x) + s // W + 1 > CAP
                        elif op == "dbl":
                            exp, args, me = 2 * x, lambda: (c, a), nd(x) + 1 > CAP
                        elif op in ("add", "sub"):
                            y = [x, 1, big(ndx, 3)][var]
                            if op == "sub":
                                y = -y
                                exp = x - y
                            else:
                                exp = x + y
                            args, me = (lambda: (c, a, b)), nd(x) + 1 > CAP
                        elif op == "add_dig":
                            dg = [B - 1, 1, 0][var]
                            exp, args, me = x + dg, (lambda dg=dg: (c, a, dg)), nd(x) + 1 > CAP
                        elif op == "mul_dig":
                            dg = [B - 1, 2, 1][var]
                            exp, args, me = x * dg, (lambda dg=dg: (c, a, dg)), nd(x) + 1 > CAP
                        elif op.startswith("sqr"):
                            xx = big([CAP // 2 - 1, CAP // 2, CAP // 2 + 1][var], mode)
                            exp, args, me = xx * xx, lambda: (c, a), 2 * nd(xx) > CAP
                        elif op.startswith("mul"):
                            y = big([1, CAP - ndx, CAP - ndx + 1][var], 3 if mode == 3 else 0)
                            exp, args, me = x * y, lambda: (c, a, b), nd(x) + nd(y) > CAP
                        else:
                            exp, args, me = (-x if op == "neg" else abs(x)), lambda: (c, a), False

                        opnd = xx if op.startswith("sqr") else x

                        def f(op=op, x=opnd, y=y, exp=exp, args=args, me=me):
                            for poison in (0x00, 0xFF):
                                R.poison = poison
                                R.bn_put(a, x)
                                if y is not None:
                                    R.bn_put(b, y)
                                R.bn_put(c, rng.getrandbits(64))
                                r = R.call("bn_" + op, *args())
                                if r.caught:
                                    ctx.check(me or not fits(exp), ctx.cur_key + "|unexpected-error", {"err": r.err})
                                else:
                                    v, used, sign, normal = R.bn_get(c)
                                    ctx.check(fits(exp) and v == exp, ctx.cur_key + "|overflow-not-reported" if not fits(exp)
                                              else ctx.cur_key + "|value", {"got": hx(v) if v is not None else None, "exp_bits": abs(exp).bit_length()})
                                    ctx.check(normal, ctx.cur_key + "|normal-form")
                                ctx.check(canary(), ctx.cur_key + "|library-unusable-afterwards")
                        guarded("bn_%s|digits=CAP%+d" % (op, (nd(opnd) * 2 - CAP) if op.startswith("sqr") else ndx - CAP),
                                [op, ndx, mode, var], f)
        # bn_set_2b / bn_set_bit at the last valid and first invalid bit
        for bit in (CAP * W - 2, CAP * W - 1, CAP * W, CAP * W + 1, CAP * W + W, 2 * CAP * W):
            for fn in ("set_2b", "set_bit1", "set_bit0"):
                if not mine():
                    continue

                def f(bit=bit, fn=fn):
                    for poison in (0x00, 0xFF):
                        R.poison = poison
                        x = big(2, 3)
                        R.bn_put(c, x)
                        if fn == "set_2b":
                            r = R.call("bn_set_2b", c, bit)
                            exp = 1 << bit
                        else:
                            v1 = 1 if fn == "set_bit1" else 0
                            r = R.call("bn_set_bit", c, bit, v1)
                            exp = (x | (1 << bit)) if v1 else (x & ~(1 << bit))
                        if r.caught:
                            ctx.check(bit >= CAP * W, ctx.cur_key + "|unexpected-error")
                        else:
                            ctx.check(fits(exp) and R.bn_val(c) == exp, ctx.cur_key + ("|value" if fits(exp) else "|overflow-not-reported"),
                                      {"bit": bit})
                        ctx.check(canary(), ctx.cur_key + "|library-unusable-afterwards")
                guarded("bn_%s|bit=%s" % (fn, "capacity%+d" % (bit - CAP * W)), [fn, bit], f)

    # ---------------------------------------------------------------- S2 integer I/O around the required sizes
    def s2():
        vals = [0, 1, 255, 256, big(1, 0), big(2, 3), big(CAP // 2, 3), big(CAP - 1, 0), big(CAP, 0), big(CAP, 1), -big(3, 3), -1]
        for v in vals:
            nbytes = (abs(v).bit_length() + 7) // 8   # zero needs no byte (bn_size_bin(0) == 0)
            for delta in (-2, -1, 0, 1, 7):
                if not mine():
                    continue
                L = nbytes + delta
                if L < 0:
                    continue

                def f(v=v, L=L, nbytes=nbytes):
                    R.bn_put(a, v)
                    sz = R.call("bn_size_bin", a).r
                    ctx.check(sz == nbytes, ctx.cur_key + "|size_bin", {"got": sz, "exp": nbytes})
                    buf = R.mem(L, 0xEE)
                    r = R.call("bn_write_bin", buf, L, a)
                    if L < nbytes:
                        ctx.check(r.caught, ctx.cur_key + "|short-buffer-not-reported")
                    else:
                        ctx.check(not r.caught and int.from_bytes(R.get(buf, L), "big") == abs(v), ctx.cur_key + "|value")
                    R.free(buf)
                    ctx.check(canary(), ctx.cur_key + "|library-unusable-afterwards")
                guarded("bn_write_bin|len=need%+d" % (L - nbytes), [hx(v), L], f)
            # raw digits
            for delta in (-1, 0, 1):
                if not mine():
                    continue
                nraw = nd(v)
                L = nraw + delta
                if L < 0:
                    continue

                def f(v=v, L=L, nraw=nraw):
                    R.bn_put(a, v)
                    buf = R.mem(L * DB, 0xEE)
                    r = R.call("bn_write_raw", buf, L, a)
                    if L < nraw:
                        ctx.check(r.caught, ctx.cur_key + "|short-buffer-not-reported")
                    else:
                        ctx.check(not r.caught and int.from_bytes(R.get(buf, L * DB), "little") == abs(v), ctx.cur_key + "|value")
                    R.free(buf)
                guarded("bn_write_raw|len=need%+d" % delta, [hx(v), L], f)
            # strings
            for radix in (2, 10, 16, 64):
                for delta in (-2, -1, 0, 1):
                    if not mine():
                        continue

                    def f(v=v, radix=radix, delta=delta):
                        R.bn_put(a, v)
                        need = R.call("bn_size_str", a, radix).r
                        L = need + delta
                        if L < 0 or need > 100000:
                            return
                        buf = R.mem(L, 0xEE)
                        r = R.call("bn_write_str", buf, L, a, radix)
                        if not r.caught:
                            s = R.get(buf, L)
                            ctx.check(b"\0" in s, ctx.cur_key + "|unterminated")
                            txt = s.split(b"\0")[0].decode("ascii", "replace")
                            ctx.check(_parse_radix(txt, radix) == v, ctx.cur_key + "|value", {"txt": txt[:80]})
                        else:
                            ctx.check(delta < 0, ctx.cur_key + "|unexpected-error", {"need": need, "len": L})
                        R.free(buf)
                        ctx.check(canary(), ctx.cur_key + "|library-unusable-afterwards")
                    guarded("bn_write_str|radix%d|len=size_str%+d" % (radix, delta), [hx(v), radix, delta], f)
        # reading: one byte / digit / character too long for the precision
        for extra in (-1, 0, 1, 2, 9):
            if mine():
                def f(extra=extra):
                    L = CAP * DB + extra
                    data = bytes([0xFF]) * L
                    p = R.put(data)
                    R.bn_put(c, 5)
                    r = R.call("bn_read_bin", c, p, L)
                    exp = int.from_bytes(data, "big")
                    if r.caught:
                        ctx.check(not fits(exp), ctx.cur_key + "|unexpected-error")
                    else:
                        ctx.check(fits(exp) and R.bn_val(c) == exp, ctx.cur_key + ("|value" if fits(exp) else "|overflow-not-reported"))
                    R.free(p)
                    ctx.check(canary(), ctx.cur_key + "|library-unusable-afterwards")
                guarded("bn_read_bin|len=capacity%+d" % extra, [extra], f)
            if mine():
                def f(extra=extra):
                    L = CAP + (1 if extra > 0 else (0 if extra == 0 else -1))
                    data = bytes([0xFF]) * (L * DB)
                    p = R.put(data)
                    R.bn_put(c, 5)
                    r = R.call("bn_read_raw", c, p, L)
                    if r.caught:
                        ctx.check(L > CAP, ctx.cur_key + "|unexpected-error")
                    else:
                        ctx.check(L <= CAP and R.bn_val(c) == int.from_bytes(data, "little"), ctx.cur_key + "|overflow-not-reported")
                    R.free(p)
                    ctx.check(canary(), ctx.cur_key + "|library-unusable-afterwards")
                guarded("bn_read_raw|digits=capacity%+d" % (1 if extra > 0 else (0 if extra == 0 else -1)), [extra], f)
            for radix in (2, 16, 64):
                if not mine():
                    continue

                def f(extra=extra, radix=radix):
                    bits_per = {2: 1, 16: 4, 64: 6}[radix]
                    nch = (CAP * W) // bits_per + extra
                    ch = {2: b"1", 16: b"f", 64: b"/"}[radix]
                    s = ch * nch + b"\0"
                    p = R.put(s)
                    R.bn_put(c, 5)
                    r = R.call("bn_read_str", c, p, nch, radix)
                    exp = radix ** nch - 1
                    if r.caught:
                        ctx.check(abs(exp).bit_length() > (CAP - 1) * W, ctx.cur_key + "|unexpected-error")
                    else:
                        ctx.check(fits(exp) and R.bn_val(c) == exp, ctx.cur_key + ("|value" if fits(exp) else "|overflow-not-reported"),
                                  {"got": hx(R.bn_val(c) or 0)[:40]})
                    R.free(p)
                    ctx.check(canary(), ctx.cur_key + "|library-unusable-afterwards")
                guarded("bn_read_str|radix%d|chars=capacity%+d" % (radix, extra), [radix, extra], f)

    # ---------------------------------------------------------------- S3 recodings
    def s3():
        scal = [0, 1, 2, 3, 1 << 7, (1 << 8) - 1, 1 << 64, (1 << 64) - 1, 1 << 200, (1 << 256) - 1, big(4, 3) << 130,
                big(4, 3), big(8, 3), big(CAP // 2, 3)]
        # hostile shapes (appended: the joint-sparse-form cases below index the list): densest recodings (alternating
        # bits: every other digit of the non-adjacent form is non-zero), negative scalars, a scalar filling the precision
        alt = int("55" * 32, 16)
        hostile_shape = {alt: "max-naf-weight", alt << 1: "max-naf-weight", -big(4, 3): "negative", -alt: "negative", big(CAP, 0): "digits=CAP"}
        scal += list(hostile_shape)
        for name in ("win", "slw", "naf", "reg"):
            for w in range(2, 9):
                for kv in scal:
                    for delta in (-1, 0, 1):
                        if not mine():
                            continue

                        def f(name=name, w=w, kv=kv, delta=delta):
                            R.bn_put(a, kv)
                            n = max(kv.bit_length(), 1)
                            lenp = R.mem(8, 0)
                            # requirement measured with a generous buffer first
                            bigbuf = R.mem(4096, 0x55)
                            R.wr_sz(lenp, 4096)
                            if name == "reg":
                                r0 = R.call("bn_rec_reg", bigbuf, lenp, a, n, w)
                            else:
                                r0 = R.call("bn_rec_" + name, bigbuf, lenp, a, w)
                            need = R.rd_sz(lenp)
                            R.free(bigbuf)
                            if r0.caught:
                                ctx.ok()
                                R.free(lenp)
                                return
                            ctx.check(need <= 4096, ctx.cur_key + "|length")
                            L = need + delta
                            if L < 0:
                                R.free(lenp)
                                return
                            buf = R.mem(L, 0x55)
                            R.wr_sz(lenp, L)
                            if name == "reg":
                                r = R.call("bn_rec_reg", buf, lenp, a, n, w)
                            else:
                                r = R.call("bn_rec_" + name, buf, lenp, a, w)
                            got = R.rd_sz(lenp)
                            if not r.caught:
                                ctx.check(got <= L, ctx.cur_key + "|returned-length-exceeds-buffer", {"len": got, "buffer": L})
                            else:
                                ctx.ok()
                            R.free(buf)
                            R.free(lenp)
                            ctx.check(canary(), ctx.cur_key + "|library-unusable-afterwards")
                        cls = hostile_shape.get(kv) or ("zero" if kv == 0 else ("bits<w" if kv.bit_length() < w else ("low-zero-digits" if kv & ((1 << 64) - 1) == 0 else "general")))
                        guarded("bn_rec_%s|%s|len=need%+d" % (name, cls, delta), [name, w, hx(kv), delta], f)
        # joint sparse form
        for kv in scal[:10]:
            for lv in (0, 1, scal[9], scal[11]):
                for delta in (-1, 0, 1):
                    if not mine():
                        continue

                    def f(kv=kv, lv=lv, delta=delta):
                        R.bn_put(a, kv)
                        R.bn_put(b, lv)
                        need = 2 * (max(kv.bit_length(), lv.bit_length()) + 1)
                        L = need + delta
                        buf = R.mem(L, 0x55)
                        lenp = R.mem(8, 0)
                        R.wr_sz(lenp, L)
                        r = R.call("bn_rec_jsf", buf, lenp, a, b)
                        if not r.caught:
                            ctx.check(R.rd_sz(lenp) <= L, ctx.cur_key + "|returned-length-exceeds-buffer")
                        else:
                            ctx.ok()
                        R.free(buf)
                        R.free(lenp)
                        ctx.check(canary(), ctx.cur_key + "|library-unusable-afterwards")
                    guarded("bn_rec_jsf|%s|len=2(bits+1)%+d" % ("k<l" if kv < lv else "k>=l", delta), [hx(kv), hx(lv), delta], f)

    # ---------------------------------------------------------------- S4 array-taking functions
    def s4():
        ids = R.ep_param_ids()
        for name, pid in ids[:3] if ctx.quick else ids:
            R.call("ep_param_set", pid)
            P = R.ep_params()
            C = WCurve(Fp(P["p"]), P["a"], P["b"], P["n"])
            G = (P["gx"], P["gy"])
            epsz = K["sizeof_ep_st"]
            for n in (0, 1, 2, 3, 7, 8, 9, 31, 32, 33):
                if mine():
                    def f(n=n):
                        pts = [C.mul(rng.randrange(1, 50), G) for _ in range(n)]
                        ks = [rng.choice([0, 1, P["n"] - 1, rng.randrange(P["n"]), rng.getrandbits(64)]) for _ in range(n)]
                        pa = R.mem(epsz * n, 0x33)
                        ka = R.mem(R.bn_sz * n, 0x33)
                        for i in range(n):
                            R.ep_put(pa + i * epsz, pts[i][0], pts[i][1])
                            R.call("bn_make", ka + i * R.bn_sz, CAP)
                            R.bn_put(ka + i * R.bn_sz, ks[i])
                        r = R.ep_new()
                        res = R.call("ep_mul_sim_lot", r, pa, ka, n)
                        exp = None
                        for pt, kv in zip(pts, ks):
                            exp = C.add(exp, C.mul(kv, pt))
                        if not res.caught:
                            x, y, z, co, can = R.ep_get(r)
                            got = None if z == 0 else (x, y)
                            if z not in (0, 1):
                                got = C.from_jacob(x, y, z) if co == K["JACOB"] else C.from_homog(x, y, z)
                            ctx.check(C.eq(got, exp), ctx.cur_key + "|value", {"n": n})
                        else:
                            ctx.check(n == 0, ctx.cur_key + "|unexpected-error", {"n": n})
                        for p_ in (pa, ka, r):
                            R.free(p_)
                        ctx.check(canary(), ctx.cur_key + "|library-unusable-afterwards")
                    guarded("ep_mul_sim_lot|n=%d" % n, [name, n], f, budget=300)
            for n in (0, 1, 2, 5):
                if mine():
                    def f(n=n):
                        pa = R.mem(epsz * n, 0x33)
                        ra = R.mem(epsz * n, 0x33)
                        exp = []
                        for i in range(n):
                            pt = C.mul(rng.randrange(1, 50), G)
                            z = rng.randrange(1, P["p"])
                            R.ep_put(pa + i * epsz, pt[0] * z * z % P["p"], pt[1] * z * z * z % P["p"], z, K["JACOB"])
                            exp.append(pt)
                        res = R.call("ep_norm_sim", ra, pa, n)
                        # the coordinate system of the build decides how z is interpreted: only memory safety and
                        # self-consistency (every output affine) are judged here, values are C03's business
                        ctx.ok()
                        R.free(pa)
                        R.free(ra)
                        ctx.check(canary(), ctx.cur_key + "|library-unusable-afterwards")
                    guarded("ep_norm_sim|n=%d" % n, [name, n], f)
            for n in (0, 1, 2, 5, 9):
                if mine():
                    def f(n=n):
                        pa = R.mem(epsz * n, 0x33)
                        da = R.mem(DB * n, 0x33)
                        pts, ds = [], []
                        for i in range(n):
                            pt = C.mul(rng.randrange(1, 50), G)
                            dg = rng.choice([0, 1, B - 1, rng.randrange(B)])
                            R.ep_put(pa + i * epsz, pt[0], pt[1])
                            ctypes.memmove(da + i * DB, dg.to_bytes(DB, "little"), DB)
                            pts.append(pt)
                            ds.append(dg)
                        r = R.ep_new()
                        res = R.call("ep_mul_sim_dig", r, pa, da, n)
                        exp = None
                        for pt, kv in zip(pts, ds):
                            exp = C.add(exp, C.mul(kv, pt))
                        if not res.caught:
                            x, y, z, co, can = R.ep_get(r)
                            got = None if z == 0 else (x, y)
                            if z not in (0, 1):
                                got = C.from_jacob(x, y, z) if co == K["JACOB"] else C.from_homog(x, y, z)
                            ctx.check(C.eq(got, exp), ctx.cur_key + "|value", {"n": n})
                        else:
                            ctx.check(n == 0, ctx.cur_key + "|unexpected-error", {"n": n})
                        for p_ in (pa, da, r):
                            R.free(p_)
                    guarded("ep_mul_sim_dig|n=%d" % n, [name, n], f, budget=300)
            for n in (0, 1, 2, 7):
                if mine():
                    def f(n=n):
                        fa = R.mem(R.fp_sz * n, 0x33)
                        fc = R.mem(R.fp_sz * n, 0x33)
                        xs = [rng.randrange(1, P["p"]) for _ in range(n)]
                        for i, x in enumerate(xs):
                            R.fp_put(fa + i * R.fp_sz, x)
                        res = R.call("fp_inv_sim", fc, fa, n)
                        if not res.caught:
                            for i, x in enumerate(xs):
                                v, can = R.fp_get(fc + i * R.fp_sz)
                                ctx.check(v == pow(x, -1, P["p"]) and can, ctx.cur_key + "|value")
                        else:
                            ctx.check(n == 0, ctx.cur_key + "|unexpected-error")
                        R.free(fa)
                        R.free(fc)
                    guarded("fp_inv_sim|n=%d" % n, [name, n], f)
        # integer batch functions
        q = (1 << 127) - 1
        for n in (0, 1, 2, 5):
            if mine():
                def f(n=n):
                    ia = R.mem(R.bn_sz * n, 0x33)
                    oa = R.mem(R.bn_sz * n, 0x33)
                    xs = [rng.randrange(1, q) for _ in range(n)]
                    for i, x in enumerate(xs):
                        for arr in (ia, oa):
                            R.call("bn_make", arr + i * R.bn_sz, CAP)
                        R.bn_put(ia + i * R.bn_sz, x)
                    R.bn_put(b, q)
                    res = R.call("bn_mod_inv_sim", oa, ia, b, n)
                    if not res.caught:
                        for i, x in enumerate(xs):
                            ctx.check(R.bn_val(oa + i * R.bn_sz) == pow(x, -1, q), ctx.cur_key + "|value")
                    else:
                        ctx.check(n == 0, ctx.cur_key + "|unexpected-error")
                    R.free(ia)
                    R.free(oa)
                guarded("bn_mod_inv_sim|n=%d" % n, [n], f)
            if mine():
                def f(n=n):
                    ia = R.mem(R.bn_sz * n, 0x33)
                    coef = [rng.randrange(q) for _ in range(n)]
                    for i, x in enumerate(coef):
                        R.call("bn_make", ia + i * R.bn_sz, CAP)
                        R.bn_put(ia + i * R.bn_sz, x)
                    xv = rng.randrange(q)
                    R.bn_put(a, xv)
                    R.bn_put(b, q)
                    res = R.call("bn_evl", c, ia, a, b, n)
                    if not res.caught and n > 0:
                        exp = sum(cf * pow(xv, i, q) for i, cf in enumerate(coef)) % q
                        ctx.check(R.bn_val(c) == exp, ctx.cur_key + "|value")
                    else:
                        ctx.ok()
                    R.free(ia)
                guarded("bn_evl|n=%d" % n, [n], f)

    # ---------------------------------------------------------------- S5 KDF family output lengths
    def s5():
        import hashlib
        dl = K["RLC_MD_LEN"]
        msg = bytes(rng.getrandbits(8) for _ in range(45))
        pm = R.put(msg)
        for fn in ("md_kdf", "md_mgf"):
            for L in (0, 1, dl - 1, dl, dl + 1, 2 * dl + 3, 255 * dl, 255 * dl + 1):
                if not mine():
                    continue

                def f(fn=fn, L=L):
                    out = R.mem(L, 0xEE)
                    r = R.call(fn, out, L, pm, len(msg))
                    if not r.caught:
                        exp = b""
                        ctr = 1 if fn == "md_kdf" else 0
                        while len(exp) < L:
                            exp += hashlib.sha256(msg + ctr.to_bytes(4, "big")).digest()
                            ctr += 1
                        ctx.check(R.get(out, L) == exp[:L], ctx.cur_key + "|value")
                    else:
                        ctx.ok()
                    R.free(out)
                    ctx.check(canary(), ctx.cur_key + "|library-unusable-afterwards")
                guarded("%s|outlen=%s" % (fn, _lencls(L, dl)), [fn, L], f)
        dst = R.put(b"QUUX-V01-CS02")
        for L in (0, 1, dl - 1, dl, dl + 1, 255 * dl - 1, 255 * dl, 255 * dl + 1, 65536):
            if not mine():
                continue

            def f(L=L):
                out = R.mem(L, 0xEE)
                r = R.call("md_xmd_sh256", out, L, pm, len(msg), dst, 13)
                ctx.check(r.caught == (L > 255 * dl) or (L == 0), ctx.cur_key + ("|overlong-not-rejected" if L > 255 * dl else "|unexpected-error"))
                R.free(out)
                ctx.check(canary(), ctx.cur_key + "|library-unusable-afterwards")
            guarded("md_xmd_sh256|outlen=%s" % _lencls(L, dl), [L], f)
        for kl in (0, 1, 63, 64, 65, 200):
            if not mine():
                continue

            def f(kl=kl):
                import hmac
                key = bytes(rng.getrandbits(8) for _ in range(kl))
                pk = R.put(key)
                out = R.mem(dl, 0xEE)
                r = R.call("md_hmac", out, pm, len(msg), pk, kl)
                ctx.check(not r.caught and R.get(out, dl) == hmac.new(key, msg, hashlib.sha256).digest(), ctx.cur_key + "|value")
                R.free(pk)
                R.free(out)
            guarded("md_hmac|keylen=%d" % kl, [kl], f)

    # ---------------------------------------------------------------- S6 point / field output buffers
    def s6():
        ids = R.ep_param_ids()
        for name, pid in ids[:2] if ctx.quick else ids:
            R.call("ep_param_set", pid)
            P = R.ep_params()
            FB = R.FP_BYTES
            g = R.ep_new()
            R.call("ep_curve_get_gen", g)
            for pack in (0, 1):
                need = R.call("ep_size_bin", g, pack).r
                for delta in (-2, -1, 0, 1):
                    if not mine():
                        continue

                    def f(pack=pack, need=need, delta=delta):
                        L = need + delta
                        buf = R.mem(L, 0xEE)
                        r = R.call("ep_write_bin", buf, L, g, pack)
                        ctx.check(r.caught == (delta != 0) or (delta > 0 and not r.caught), ctx.cur_key + "|short-buffer-not-reported"
                                  if delta < 0 else ctx.cur_key + "|unexpected-error")
                        R.free(buf)
                        ctx.check(canary(), ctx.cur_key + "|library-unusable-afterwards")
                    guarded("ep_write_bin|pack%d|len=size_bin%+d" % (pack, delta), [name, pack, delta], f)
            x = R.fp_new(rng.randrange(P["p"]))
            for delta in (-1, 0, 1):
                if not mine():
                    continue

                def f(delta=delta):
                    L = FB + delta
                    buf = R.mem(L, 0xEE)
                    r = R.call("fp_write_bin", buf, L, x)
                    ctx.check(r.caught == (delta != 0), ctx.cur_key + "|length-check")
                    R.free(buf)
                guarded("fp_write_bin|len=FP_BYTES%+d" % delta, [name, delta], f)
            R.free(g)
            R.free(x)

    # ---------------------------------------------------------------- S7 RSA with short buffers (one shard: keygen is slow)
    def s7():
        if ctx.shard != 0:
            return
        S = R.S
        S.vf_rsa_new.restype = ctypes.c_void_p
        pub, prv = S.vf_rsa_new(), S.vf_rsa_new()
        if not ctx.begin("cp_rsa_gen|1024", [1024], budget=900):
            return
        r = R.call("cp_rsa_gen", pub, prv, 1024)
        ctx.end()
        if r.caught or r.i != K["RLC_OK"]:
            ctx.fail("cp_rsa_gen|failed", {"ret": r.i})
            return
        msg = R.put(b"attack at dawn")
        klen = 128
        for fn in ("enc", "sig"):
            for delta in (-1, 0, 1):
                def f(fn=fn, delta=delta):
                    L = klen + delta
                    out = R.mem(L, 0xEE)
                    lenp = R.mem(8, 0)
                    R.wr_sz(lenp, L)
                    if fn == "enc":
                        r = R.call("cp_rsa_enc", out, lenp, msg, 14, pub)
                    else:
                        r = R.call("cp_rsa_sig", out, lenp, msg, 14, 0, prv)
                    okv = (not r.caught) and r.i == K["RLC_OK"]
                    if delta < 0:
                        ctx.check(not okv, ctx.cur_key + "|short-buffer-not-reported")
                    else:
                        ctx.check(okv and R.rd_sz(lenp) == klen, ctx.cur_key + "|unexpected-error", {"ret": r.i, "len": R.rd_sz(lenp)})
                    R.free(out)
                    R.free(lenp)
                    ctx.check(canary(), ctx.cur_key + "|library-unusable-afterwards")
                guarded("cp_rsa_%s|outlen=keylen%+d" % (fn, delta), [fn, delta], f, budget=600)

    # ---------------------------------------------------------------- S8 exponent / scalar lengths up to the bignum capacity
    def s8():
        m_ = (1 << 1023) | rng.getrandbits(1023) | 1
        base = rng.getrandbits(1000)
        for fn in ("bn_mxp_basic", "bn_mxp_slide", "bn_mxp_monty"):
            for bits in (1, 64, 512, 1023, 1024, 1025, 1100, 2047, 2048, 2049, CAP * W - 1, CAP * W):
                if not mine():
                    continue

                def f(fn=fn, bits=bits):
                    e = (1 << (bits - 1)) | rng.getrandbits(bits - 1) if bits > 1 else 1
                    R.bn_put(a, base)
                    R.bn_put(b, e)
                    R.bn_put(d, m_)
                    R.bn_put(c, 7)
                    r = R.call(fn, c, a, b, d)
                    if not r.caught:
                        ctx.check(R.bn_val(c) == pow(base, e, m_), ctx.cur_key + "|value")
                    else:
                        ctx.ok()
                    ctx.check(canary(), ctx.cur_key + "|library-unusable-afterwards")
                guarded("%s|exponent-bits=%s" % (fn, "capacity%+d" % (bits - CAP * W) if bits >= CAP * W - 1 else
                                               ("precision%+d" % (bits - 1024) if 1023 <= bits <= 1100 else str(bits))), [fn, bits], f, budget=600)
        # field / curve exponents far longer than the field
        ids = R.ep_param_ids()
        for name, pid in ids[:2] if ctx.quick else ids:
            R.call("ep_param_set", pid)
            P = R.ep_params()
            x = R.fp_new(rng.randrange(2, P["p"]))
            o = R.fp_new()
            for fn in ("fp_exp_basic", "fp_exp_slide", "fp_exp_monty"):
                for bits in (255, 256, 257, 320, 1024, CAP * W):
                    if not mine():
                        continue

                    def f(fn=fn, bits=bits):
                        e = (1 << (bits - 1)) | rng.getrandbits(bits - 1)
                        R.bn_put(b, e)
                        r = R.call(fn, o, x, b)
                        if not r.caught:
                            xv = R.fp_get(x)[0]
                            ctx.check(R.fp_get(o)[0] == pow(xv, e, P["p"]), ctx.cur_key + "|value")
                        else:
                            ctx.ok()
                    guarded("%s|exponent-bits=%d" % (fn, bits), [name, fn, bits], f, budget=600)
            R.free(x)
            R.free(o)

    # ---------------------------------------------------------------- S9 extension-field encoders at every buffer length
    def s9():
        for pname in R.pairing_names()[:1] if ctx.quick else R.pairing_names():
            R.pairing_set(pname)
            FB = R.FP_BYTES
            for deg in (2, 3, 4, 6, 8, 9, 12, 16, 18, 24):
                wfn, sfn = "fp%d_write_bin" % deg, "fp%d_size_bin" % deg
                if not R.has(wfn):
                    continue
                npar = 4 if deg in (2, 8, 12, 16, 18, 24, 48, 54) and R.has(sfn) else 3
                elems = {"generic": [rng.randrange(1, R.p) for _ in range(deg)], "one": [1] + [0] * (deg - 1)}
                # a unitary element: x^(p^(deg/2) - 1) computed by the library itself is C10's business; here conj/inv
                if R.has("fp%d_conv_cyc" % deg):
                    t = R.fpx_new(deg, elems["generic"])
                    R.call("fp%d_conv_cyc" % deg, t, t)
                    elems["cyclotomic"] = R.fpx_get(t, deg)[0]
                    R.free(t)
                for ename, ev in elems.items():
                    for pack in ((0, 1) if npar == 4 else (None,)):
                        if not mine():
                            continue

                        def f(deg=deg, wfn=wfn, ev=ev, pack=pack, npar=npar):
                            e = R.fpx_new(deg, ev)
                            full = deg * FB
                            for L in sorted(set(list(range(0, 8)) + list(range(FB - 2, FB + 4)) + list(range(full // 2 - 2, full // 2 + 4))
                                                + list(range(full - 3, full + 3)) + [rng.randrange(0, full + 2) for _ in range(6)])):
                                buf = R.mem(L, 0xEE)
                                r = R.call(wfn, buf, L, e, pack) if npar == 4 else R.call(wfn, buf, L, e)
                                ctx.ok()
                                R.free(buf)
                            R.free(e)
                            ctx.check(canary(), ctx.cur_key + "|library-unusable-afterwards")
                        guarded("%s|%s|pack=%s|all-lengths" % (wfn, ename, pack), [pname, deg, ename, pack], f)

    # ---------------------------------------------------------------- S10 parameter-setting entry points, hostile parameters
    # The library context is ONE object for the sanitizers: an index that runs past an array member (the sparse forms
    # par_sps[] / sps[], a table) lands in the neighbouring member without a red zone.  Every case therefore runs
    # between two raw snapshots of the context (layout exported by shim/vf_x_C08.c) and is judged by
    #  - ownership: only members of the groups the entry point configures (and the error state) may change,
    #  - bounded members (par_len, sps_len, chain_len) stay inside their tables, bn members keep their header,
    #  - equivalent history: what the call leaves outside the sparse form it owns equals either the state before the
    #    call (nothing installed) or the state that installing the same modulus densely leaves (modulus installed),
    #  - the defining equations of the getters when the call is accepted (modulus, sparse form sums to the parameter),
    #  - usability: field arithmetic and conversions at the modulus the getter reports agree with the Python model,
    #    and after re-selecting a built-in curve a scalar multiplication agrees with the reference curve.
    def s10():
        if not CM.ok:
            ctx.note("context_monitor", "unavailable: " + CM.why)
            return
        from ..model.curves import is_probable_prime
        TERMS = CM.terms
        FPB = K["RLC_FP_BITS"]
        FPD = K["RLC_FP_DIGS"]
        FAM = dict((k, v) for k, v in R.EH.get("relic_ep.h", {}).items() if k.startswith("EP_") and k[3:] in
                   ("K1", "SS2", "BN", "GMT8", "B12", "AFG16", "FM16", "K16", "K18", "FM18", "SG18", "B24", "B48", "SG54"))
        HANDLED = ("BN", "B12", "AFG16", "FM16", "K16", "K18", "FM18", "SG18", "B24", "B48", "SG54")
        ids = R.ep_param_ids()
        bases = [ids[0]] + [(nm, pid) for nm, pid in ids if nm.startswith("BN_")][:1]
        base_snap = {}
        FPOWN = ("fp", "fp.par", "fp.sps", "fpx")
        t_, u_ = R.bn_new(), R.bn_new()

        def set_base(bi):
            """establish (and cache as raw bytes) the state after selecting built-in curve bi from the initial state"""
            nm, pid = bases[bi % len(bases)]
            if nm not in base_snap:
                R.call("ep_param_set", pid)
                P = R.ep_params()
                base_snap[nm] = (CM.snap(), P)
            CM.restore(base_snap[nm][0])
            R.fp_setup()
            return base_snap[nm]

        def fits_field(pv):
            return pv > 0 and (pv.bit_length() + W - 1) // W == FPD

        def model_p(fam, x):
            if fam == "BN":
                return 36 * x ** 4 + 36 * x ** 3 + 24 * x ** 2 + 6 * x + 1
            if fam == "B12":
                return ((x * x - 2 * x + 1) * (x ** 4 - x * x + 1)) // 3 + x
            return None

        def naf_sum(entries):
            # entries of the sparse form are signed bit positions; position 0 cannot carry a sign
            return sum((1 if e >= 0 else -1) << abs(e) for e in entries)

        def rand_naf(top, weight, sign=1):
            """an integer whose non-adjacent form has exactly `weight` non-zero digits, the highest at position `top`"""
            k = weight - 1
            if k < 0 or top < 2 * k:
                return None
            # k positions in [0, top - 2], pairwise (and from `top`) at distance >= 2
            ys = sorted(rng.sample(range(0, top - 1 - (k - 1)), k)) if k else []
            v = 1 << top
            for i, y in enumerate(ys):
                v += rng.choice((1, -1)) << (y + i)
            return sign * v

        def find_x(fam, weight, sign=1):
            """family parameter with the given NAF weight whose modulus p(x) is a prime of exactly the field's digit count"""
            if fam == "BN":
                lo, hi = ((FPD - 1) * W - 5) // 4 + 1, (FPB - 6) // 4
            else:
                lo, hi = ((FPD - 1) * W + 2) // 6 + 1, (FPB + 1) // 6
            lo = max(lo, 2 * (weight - 1))
            if lo > hi:
                return None
            for _ in range(6000):
                x = rand_naf(rng.randint(lo, hi), weight, sign)
                if x is None:
                    continue
                pv = model_p(fam, x)
                if fits_field(pv) and pv.bit_length() <= FPB and is_probable_prime(pv, 8):
                    return x
            return None

        def field_battery(key, allowed, rejected):
            """arithmetic and conversions at the modulus the library reports, against Python integers"""
            pm = R.fp_setup()
            if pm not in allowed:
                # a refused modulus may be left half-installed (the caller was told); an accepted one may not
                ctx.check(rejected, key + "|modulus-neither-old-nor-new", {"modulus": hx(pm)})
                return
            rm = pow(2, W * FPD, pm)
            ctx.check(R.mont in (rm, 1), key + "|field-unusable-afterwards", {"what": "fp_set_dig(1) is not R mod p"})
            if R.mont not in (rm, 1):
                return
            fa, fb_, fc = R.fp_new(), R.fp_new(), R.fp_new()
            try:
                xv, yv = rng.randrange(1, pm), rng.randrange(1, pm)
                big_ = rng.getrandbits(FPB + 40)
                R.bn_put(t_, big_)
                r = R.call("fp_prime_conv", fa, t_)
                ctx.check(not r.caught and R.fp_get(fa) == (big_ % pm, True), key + "|field-unusable-afterwards",
                          {"what": "fp_prime_conv"})
                r = R.call("fp_set_dig", fa, 5)
                ctx.check(not r.caught and R.fp_get(fa)[0] == 5 % pm, key + "|field-unusable-afterwards", {"what": "fp_set_dig(5)"})
                R.fp_put(fa, xv)
                R.bn_put(t_, 3)
                r = R.call("fp_prime_back", t_, fa)
                ctx.check(not r.caught and R.bn_val(t_) == xv, key + "|field-unusable-afterwards", {"what": "fp_prime_back"})
                R.fp_put(fb_, yv)
                r = R.call("fp_mul", fc, fa, fb_)
                ctx.check(not r.caught and R.fp_get(fc) == (xv * yv % pm, True), key + "|field-unusable-afterwards", {"what": "fp_mul"})
                r = R.call("fp_inv", fc, fa)
                ctx.check(not r.caught and R.fp_get(fc)[0] == pow(xv, -1, pm), key + "|field-unusable-afterwards", {"what": "fp_inv"})
                R.fp_put(fa, xv * xv % pm)
                r = R.call("fp_srt", fc, fa)
                rt = R.fp_get(fc)[0]
                ctx.check(not r.caught and r.i == 1 and rt * rt % pm == xv * xv % pm, key + "|field-unusable-afterwards",
                          {"what": "fp_srt of a square"})
            finally:
                for o in (fa, fb_, fc):
                    R.free(o)

        def reselect_battery(key, bi):
            """after the hostile call: selecting a built-in curve again works and the group law agrees with the model"""
            nm, pid = bases[bi % len(bases)]
            P = base_snap[nm][1]
            r = R.call("ep_param_set", pid)
            ctx.check(not r.caught, key + "|library-unusable-afterwards", {"what": "ep_param_set(%s) rejected" % nm})
            if r.caught:
                return
            P2 = R.ep_params()
            ctx.check(all(P2[f] == P[f] for f in ("p", "a", "b", "gx", "gy", "n")), key + "|library-unusable-afterwards",
                      {"what": "curve parameters differ after re-selection"})
            C = WCurve(Fp(P["p"]), P["a"], P["b"], P["n"])
            kv = rng.randrange(1, P["n"])
            R.bn_put(t_, kv)
            g = R.ep_new()
            try:
                for fn in ("ep_mul_gen", "ep_mul_basic"):
                    if fn == "ep_mul_gen":
                        r = R.call(fn, g, t_)
                    else:
                        h = R.ep_new()
                        R.ep_put(h, P["gx"], P["gy"])
                        r = R.call(fn, g, h, t_)
                        R.free(h)
                    x, y, z, co, can = R.ep_get(g)
                    got = None if z == 0 else ((x, y) if z == 1 else (C.from_jacob(x, y, z) if co == K["JACOB"] else C.from_homog(x, y, z)))
                    ctx.check(not r.caught and C.eq(got, C.mul(kv, (P["gx"], P["gy"]))), key + "|library-unusable-afterwards", {"what": fn})
            finally:
                R.free(g)

        def judge(key, s0, s1, owners, own_sparse=None, dense_p=None, note=None):
            """ownership, bounded members, bn headers, equivalent history; returns the set of changed members"""
            ch = CM.changed(s0, s1)
            if note and "rejected" in note:
                ctx.add("parameter_calls_rejected" if note["rejected"] else "parameter_calls_accepted", 1)
            foreign = [n for n in ch if CM.group[n] not in owners and CM.group[n] != "err"]
            ctx.check(not foreign, key + "|context-member-not-owned-by-the-call-modified", {"members": foreign[:8], "note": note})
            bad = CM.bounded_bad(s1)
            ctx.check(not bad, key + "|context-length-member-out-of-range", {"members": bad[:4]})
            hb = CM.bn_bad(s0, s1)
            ctx.check(not hb, key + "|context-integer-header-overwritten", {"members": hb[:4]})
            if own_sparse is not None:
                # (both sparse forms are excluded: installing a modulus one way may forget the form kept by the other)
                excl = ("err", own_sparse, "fp.par", "fp.sps")
                d0 = [n for n in ch if CM.group[n] not in excl]
                if d0:
                    # something outside the sparse form changed: it must be exactly what installing the modulus changes
                    # (the same integer presented densely - whether or not the library can install it: a modulus it
                    # refuses half-way is refused half-way in both histories)
                    CM.restore(s0)
                    if dense_p is not None and abs(dense_p).bit_length() <= CAP * W:
                        R.bn_put(u_, dense_p)
                        R.call("fp_prime_set_dense", u_)
                    sd = CM.snap()
                    dd = [n for n in CM.changed(sd, s1) if CM.group[n] not in excl]
                    ctx.check(not dd, key + "|context-differs-from-equivalent-history",
                              {"differs_from_dense_installation_in": dd[:8], "differs_from_state_before_in": d0[:8], "note": note})
                    CM.restore(s1)
                else:
                    ctx.ok()
            return ch

        def par_sps():
            lp = R.mem(4, 0xEE)
            r = R.call("fp_prime_get_par_sps", lp)
            n = R.rd_int(lp)
            R.free(lp)
            if r.caught or n < 0 or n > TERMS + 1:
                return n, None
            return n, ([ctypes.c_int.from_address(r.r + 4 * i).value for i in range(n)] if r.r else [])

        def sps_get():
            lp = R.mem(4, 0xEE)
            r = R.call("fp_prime_get_sps", lp)
            n = R.rd_int(lp)
            R.free(lp)
            if r.caught or n < 0 or n > TERMS + 1:
                return n, None
            return n, ([ctypes.c_int.from_address(r.r + 4 * i).value for i in range(n)] if r.r else [])

        # ---- fp_prime_set_pairf(x, family): caller-chosen family parameter
        def pairf_case(famname, famid, xcls, xv, bi, pv):
            famcls = famname if famname in ("BN", "B12") else ("other-handled" if famname in HANDLED else
                                                               ("unhandled" if famname in FAM_NAMES else "unknown-id"))

            def f():
                s0, P0 = set_base(bi)
                R.bn_put(a, xv)
                r = R.call("fp_prime_set_pairf", a, famid)
                s1 = CM.snap()
                key = ctx.cur_key
                ctx.check(R.bn_val(a) == xv, key + "|input-modified")
                judge(key, s0, s1, FPOWN, own_sparse="fp.par", dense_p=pv, note={"rejected": bool(r.caught)})
                allowed = [P0["p"]] + ([pv] if pv is not None and fits_field(pv) else [])
                if not r.caught and famname in HANDLED:
                    # accepted: the getters describe the parameter that was given
                    pm = R.fp_setup()
                    ctx.check(pv is None or pm == pv, key + "|accepted|modulus", {"modulus": hx(pm)})
                    R.bn_put(t_, 1)
                    R.call("fp_prime_get_par", t_)
                    ctx.check(R.bn_val(t_) == xv, key + "|accepted|parameter-getter")
                    n, ent = par_sps()
                    ctx.check(ent is not None and 0 <= n <= TERMS and (xv <= 0 or naf_sum(ent) == xv), key + "|accepted|sparse-form",
                              {"len": n, "entries": ent})
                field_battery(key, allowed, r.caught)
                if r.caught:
                    reselect_battery(key, bi)
                ctx.check(canary(), key + "|library-unusable-afterwards")
            guarded("fp_prime_set_pairf|family=%s|%s" % (famcls, xcls), [famname, famid, hx(xv), bi % len(bases)], f, owners=None)

        FAM_NAMES = set(k[3:] for k in FAM)
        fams = sorted((k[3:], v) for k, v in FAM.items())
        top_id = max([v for _, v in fams] + [0])
        fams += [("id=0", 0), ("id=max+1", top_id + 1), ("id=-1", -1), ("id=INT_MAX", 0x7FFFFFFF)]
        dense_lo = FPB // 8 + 8       # every family but BN (degree 4) and B12 (degree 6) has degree >= 8: p(x) cannot fit
        weights = [("naf-weight=TERMS-1", TERMS - 1), ("naf-weight=TERMS", TERMS), ("naf-weight=TERMS+1", TERMS + 1),
                   ("naf-weight=TERMS+2", TERMS + 2), ("naf-weight=max", None)]
        reps = ctx.n(1, 4)
        for famname, famid in fams:
            right = famname in ("BN", "B12")
            for rep in range(reps):
                for wname, wt in weights:
                    # right-size modulus where the family allows it, otherwise a dense parameter whose p(x) cannot fit
                    for sign in ((1, -1) if famname == "BN" else (1,)):
                        if not mine():
                            continue
                        if right:
                            hi = ((FPB - 6) // 4) if famname == "BN" else ((FPB + 1) // 6)
                            w_ = wt if wt is not None else hi // 2 + 1
                            xv = find_x(famname, w_, sign)
                            if xv is None:
                                ctx.add("s10_parameter_search_failed", 1)
                                continue
                            pairf_case(famname, famid, ("neg|" if sign < 0 else "") + wname + "|modulus-fits", xv, idx[0], model_p(famname, xv))
                        else:
                            top = rng.randint(max(dense_lo, 2 * ((wt or 0) - 1)), FPB - 2)
                            w_ = wt if wt is not None else top // 2 + 1
                            xv = rand_naf(top, w_, sign)
                            if xv is None:
                                continue
                            # unhandled / unknown families install nothing; handled ones must refuse the oversized p(x)
                            pairf_case(famname, famid, wname + "|bits<=FP_BITS", xv, idx[0], None)
            # degenerate and over-long parameters (p(x) never has the field's size)
            for xcls, xv in (("zero", 0), ("one", 1), ("minus-one", -1), ("bits=FP_BITS|sparse", (1 << (FPB - 1)) + 1),
                             ("bits=FP_BITS|all-ones", (1 << FPB) - 1)):
                if mine():
                    pairf_case(famname, famid, xcls, xv, idx[0], model_p(famname, xv) if right else None)
            if famname in HANDLED:
                # over-long parameter with a family the library knows: p(x) exceeds the field (or the precision)
                for xcls, xv in (("bits=FP_BITS+1", (1 << FPB) | rng.getrandbits(FPB)), ("bits=2*FP_BITS", rng.getrandbits(2 * FPB) | (1 << (2 * FPB - 1))),
                                 ("digits=CAP", big(CAP, 3)), ("neg|digits=CAP", -big(CAP, 0))):
                    if mine():
                        pairf_case(famname, famid, xcls, xv, idx[0], None)
        # over-long parameter with a family identifier the library does not handle: no modulus is derived, the parameter
        # itself is recoded (one directed case per class: the key is narrow on purpose)
        for xv in ((1 << FPB) + 1, big(CAP, 0)):
            if mine():
                pairf_case("id=max+1", top_id + 1, "bits>FP_BITS", xv, idx[0], None)

        # ---- fp_prime_set_pmers(f, len): caller-chosen sparse form
        import struct

        def pmers_case(cls, form, ln, bi, pv):
            def f():
                s0, P0 = set_base(bi)
                raw = struct.pack("<%di" % len(form), *form)
                fp_ = R.put(raw)
                r = R.call("fp_prime_set_pmers", fp_, ln)
                s1 = CM.snap()
                key = ctx.cur_key
                ctx.check(R.get(fp_, len(raw)) == raw, key + "|input-modified")
                R.free(fp_)
                judge(key, s0, s1, FPOWN, own_sparse="fp.sps", dense_p=pv, note={"rejected": bool(r.caught)})
                if not r.caught:
                    pm = R.fp_setup()
                    ctx.check(pv is not None and pm == pv, key + "|accepted|modulus", {"modulus": hx(pm)})
                    n, ent = sps_get()
                    ctx.check(ent is not None and n == ln and ent == list(form[:ln]), key + "|accepted|sparse-form", {"len": n, "entries": ent})
                field_battery(key, [P0["p"]] + ([pv] if pv is not None and fits_field(pv) else []), r.caught)
                if r.caught:
                    reselect_battery(key, bi)
                ctx.check(canary(), key + "|library-unusable-afterwards")
            guarded("fp_prime_set_pmers|%s" % cls, [list(form)[:40], ln, bi % len(bases)], f, owners=None)

        def pm_value(form):
            # the integer the routine builds: 2^f[len-1] +- 2^|f[i]| (0 < i < len-1) + f[0]
            v = 1 << form[-1]
            for e in form[1:-1]:
                v += (1 << e) if e > 0 else -(1 << -e)
            return v + form[0]

        def lengthen(form, n):
            """the same integer written with n terms: +-2^k == +-2^(k+1) -+ 2^k"""
            form = list(form)
            guard = 0
            while len(form) < n and guard < 1000:
                guard += 1
                i = rng.randrange(1, len(form) - 1)
                e = form[i]
                form[i:i + 1] = [-e, (abs(e) + 1) * (1 if e > 0 else -1)]
            return form
        sparse_primes = []
        if FPB == 256:
            sparse_primes = [("NIST", [-1, 96, 192, -224, 256]), ("SECG", [-977, -32, 256])]
        elif FPB == 255:
            sparse_primes = [("25519", [-19, 255])]
        for pname, form in sparse_primes:
            pv = pm_value(form)
            if not is_probable_prime(pv):
                continue
            for n in sorted(set([len(form), len(form) + 1, TERMS - 2, TERMS - 1, TERMS, TERMS + 1, TERMS + 2, 3 * TERMS])):
                if n < len(form) or len(form) < 3 or not mine():
                    continue
                fl = lengthen(form, n)
                if len(fl) != n or pm_value(fl) != pv:
                    continue
                pmers_case("terms=%s" % ("TERMS%+d" % (n - TERMS) if n >= TERMS - 2 else "few"), fl, n, idx[0], pv)
        base_form = sparse_primes[0][1] if sparse_primes else [-1, 3, FPB]
        hostile = [("top-exponent=capacity", base_form[:-1] + [CAP * W]), ("top-exponent=capacity-1", base_form[:-1] + [CAP * W - 1]),
                   ("top-exponent=huge", base_form[:-1] + [1 << 20]), ("top-exponent=INT_MAX", base_form[:-1] + [0x7FFFFFFF]),
                   ("top-exponent=negative", base_form[:-1] + [-FPB]), ("top-exponent=FP_BITS+W", base_form[:-1] + [FPB + W]),
                   ("top-exponent=FP_BITS-W", base_form[:-1] + [FPB - W]),
                   ("middle-exponent=capacity", [base_form[0], CAP * W, base_form[-1]]),
                   ("middle-exponent=-capacity", [base_form[0], -CAP * W, base_form[-1]]),
                   ("middle-exponent=zero", [base_form[0], 0, base_form[-1]]),
                   ("low-term=INT_MAX", [0x7FFFFFFF] + base_form[1:]), ("low-term=zero", [0] + base_form[1:]),
                   ("single-term", [FPB]), ("single-term|FP_BITS-1", [FPB - 1])]
        for cls, form in hostile:
            if not mine():
                continue
            pv = None
            try:
                pv = pm_value(form) if 0 <= form[-1] < 100000 and all(abs(e) < 100000 for e in form[1:-1]) else None
            except (ValueError, OverflowError):
                pv = None
            if pv is not None and fits_field(pv) and not is_probable_prime(pv):
                continue        # a composite of the field's size is not a parameter the interface admits: nothing to demand
            pmers_case(cls, form, len(form), idx[0], pv)
        # count 0: the array is empty (the quantifier covers all counts n >= 0)
        if mine():
            pmers_case("terms=0", [], 0, idx[0], None)
        # the count exceeds the table but the array given is exactly that long
        if mine():
            pmers_case("terms=1000", lengthen(base_form, 12) + [base_form[-1]] * 988, 1000, idx[0], None)

        # ---- fp_prime_set_dense(p): digit counts around the field's
        def dense_case(cls, pv, bi):
            def f():
                s0, P0 = set_base(bi)
                R.bn_put(a, pv)
                r = R.call("fp_prime_set_dense", a)
                s1 = CM.snap()
                key = ctx.cur_key
                ctx.check(R.bn_val(a) == pv, key + "|input-modified")
                judge(key, s0, s1, FPOWN)
                if not r.caught:
                    ctx.check(fits_field(pv) and R.fp_setup() == pv, key + "|accepted|modulus")
                field_battery(key, [P0["p"]] + ([pv] if fits_field(pv) else []), r.caught)
                if r.caught:
                    reselect_battery(key, bi)
            guarded("fp_prime_set_dense|%s" % cls, [hx(pv), bi % len(bases)], f, owners=None)
        dense_vals = [("digits=FP_DIGS-1", (1 << ((FPD - 1) * W)) - 1), ("digits=FP_DIGS+1", (1 << (FPD * W)) + 1 + (1 << 7)),
                      ("digits=1", 7), ("zero", 0), ("digits=CAP", big(CAP, 0) - 2), ("digits=2*FP_DIGS", (1 << (2 * FPD * W)) - 1)]
        for pname, form in sparse_primes:
            dense_vals.append(("digits=FP_DIGS|prime", pm_value(form)))
        for fam_ in ("BN", "B12"):
            if mine():
                xv = find_x(fam_, 5)
                if xv is not None:
                    dense_case("digits=FP_DIGS|prime", model_p(fam_, xv), idx[0])
        for cls, pv in dense_vals:
            if mine():
                dense_case(cls, pv, idx[0])

        # ---- parameter identifiers: every enumerator of the headers (most are for other field sizes) and values outside
        def id_case(fn, owners, cls, pid, bi, slow=False):
            def f():
                s0, P0 = set_base(bi)
                r = R.call(fn, pid)
                s1 = CM.snap()
                key = ctx.cur_key
                judge(key, s0, s1, owners, note={"rejected": bool(r.caught)})
                if r.caught:
                    reselect_battery(key, bi)
                ctx.check(canary(), key + "|library-unusable-afterwards")
            guarded("%s|%s" % (fn, cls), [fn, pid, bi % len(bases)], f, owners=None, budget=600 if slow else None)
        CURVE = FPOWN + ("ep", "ep2", "ep3", "ep4", "ep8", "gt")
        idfns = [("fp_param_set", FPOWN, "relic_fp.h", False), ("ep_param_set", CURVE, "relic_ep.h", False),
                 ("ed_param_set", FPOWN + ("ed",), "relic_ed.h", False), ("eb_param_set", ("fb", "eb"), "relic_eb.h", True),
                 ("fb_param_set", ("fb",), "relic_fb.h", True)]
        for fn, owners, hdr, slow in idfns:
            if not R.has(fn):
                continue
            enum = sorted((v, k) for k, v in R.EH.get(hdr, {}).items() if not k.startswith(("EP_", "RLC_")) and "_" in k)
            known = [v for v, _ in enum]
            outside = [("id=0", 0), ("id=-1", -1), ("id=max+1", (max(known) if known else 0) + 1), ("id=INT_MAX", 0x7FFFFFFF),
                       ("id=INT_MIN", -0x80000000)]
            for cls, pid in outside:
                if mine():
                    id_case(fn, owners, cls, pid, idx[0])
            if slow and ctx.quick:
                continue        # a supported binary-field identifier recomputes every table (seconds): thorough tier only
            pick = enum if not ctx.quick else rng.sample(enum, min(len(enum), 10))
            for v, k in pick:
                if mine():
                    id_case(fn, owners, "id=enumerator", v, idx[0], slow)
        if R.has("ep2_curve_set_twist") and len(bases) > 1:
            for ty in (-1, 0, K.get("RLC_EP_DTYPE", 1), K.get("RLC_EP_MTYPE", 2), 3, 0x7FFFFFFF):
                if mine():
                    id_case("ep2_curve_set_twist", ("ep2", "gt"), "type=%s" % ("valid" if ty in (1, 2) else "invalid"), ty, 1)

        # ---- binary-field polynomial by exponents: fb_poly_set_trino(a), fb_poly_set_penta(a, b, c)
        if R.has("fb_poly_set_trino") and "RLC_FB_BITS" in K:
            FBB, FBD = K["RLC_FB_BITS"], K["RLC_FB_DIGS"]

            def fb_case(fn, cls, args):
                def f():
                    s0, P0 = set_base(0)
                    r = R.call(fn, *args)
                    s1 = CM.snap()
                    key = ctx.cur_key
                    judge(key, s0, s1, ("fb",), note={"rejected": bool(r.caught)})
                    CM.restore(s0)
                    ctx.check(canary(), key + "|library-unusable-afterwards")
                guarded("%s|%s" % (fn, cls), [fn, list(args)], f, owners=None, budget=600)
            # positions that exist in the digit vector but not in the field, then positions outside the vector
            inside = sorted(set([FBB, FBB + 1, FBD * W - 1]) & set(range(FBB, FBD * W)))
            for e in inside:
                cls = "exponent-inside-digit-vector-outside-field"
                if mine():
                    fb_case("fb_poly_set_trino", cls, (e,))
                if mine():
                    fb_case("fb_poly_set_penta", cls, (e, 7, 5))
                if mine():
                    fb_case("fb_poly_set_penta", cls, (12, 7, e))
            cls = "exponent-outside-digit-vector"
            for args in ((-1,), (FBD * W,)):
                if mine():
                    fb_case("fb_poly_set_trino", cls, args)
            for args in ((12, 7, -1), (FBD * W, 7, 5)):
                if mine():
                    fb_case("fb_poly_set_penta", cls, args)

        # ---- seeding the generator: the state lives in the context, the seed length is the caller's
        if R.has("rand_seed") and "rand.rand" in CM.group:
            rsz = CM.size_of["rand.rand"]
            for L in (0, 1, (rsz - 1) // 2 - 1, (rsz - 1) // 2, (rsz - 1) // 2 + 1, rsz - 1, rsz, rsz + 1, 4 * rsz + 3):
                if not mine():
                    continue

                def f(L=L):
                    s0, P0 = set_base(0)
                    sd_ = R.put(bytes(rng.getrandbits(8) for _ in range(L)))
                    r = R.call("rand_seed", sd_, L)
                    s1 = CM.snap()
                    R.free(sd_)
                    judge(ctx.cur_key, s0, s1, ("rand",), note={"rejected": bool(r.caught)})
                    out = R.mem(40, 0xEE)
                    r2 = R.call("rand_bytes", out, 40)
                    ctx.check(not r2.caught, ctx.cur_key + "|library-unusable-afterwards", {"what": "rand_bytes"})
                    R.free(out)
                guarded("rand_seed|len=%s" % ("state%+d" % (L - rsz) if L >= rsz - 1 else ("half-state%+d" % (L - (rsz - 1) // 2) if L > 1 else str(L))),
                        [L], f, owners=None)
        for o in (t_, u_):
            R.free(o)
        ctx.note("context_monitor", ["sizeof(ctx_t)=%d" % CM.size, "members=%d" % len(CM.fields), "RLC_TERMS=%d" % TERMS]
                 + ["base=" + nm for nm, _ in bases])

    only = os.environ.get("VF_C08_SECTIONS")        # development aid: e.g. VF_C08_SECTIONS=3,10
    for i, s in enumerate((s1, s2, s3, s4, s5, s6, s7, s8, s9, s10)):
        if only is None or str(i + 1) in only.split(","):
            s()
    ctx.note("functions_exercised", sorted(R.fn_seen))
    ctx.note("error_codes_seen", {str(k): v for k, v in R.err_codes.items()})


# members that hold precomputation / scratch the library may legitimately (re)build at any time: a call that
# configures nothing may touch them (e.g. a table built on first use) - only the parameter members must stay put
_CACHE_MEMBER = re.compile(r"(_pre|_ptr|_iso)$|^(fb_tab|fb_half|fb_srz|chain|gt_g|before|after|total|over|perf_|lzcnt|tzcnt)")


class _CtxMon(object):
    """Raw view of the library context through the member table of shim/vf_x_C08.c (ALLOC=AUTO builds only: the
    context then holds no heap pointers, so a snapshot can be written back between two calls)."""

    def __init__(self, R):
        self.R = R
        self.ok = False
        self.why = ""
        S = R.S
        try:
            S.vf_x08_field_name.restype = ctypes.c_char_p
            for f in ("off", "size", "kind", "aux"):
                getattr(S, "vf_x08_field_" + f).restype = ctypes.c_longlong
            S.vf_x08_sizeof_ctx.restype = ctypes.c_longlong
            S.vf_x08_terms.restype = ctypes.c_longlong
        except AttributeError:
            self.why = "libvfx_C08.so not built for this configuration"
            return
        if R.dyn:
            self.why = "ALLOC=DYNAMIC"
            return
        self.size = S.vf_x08_sizeof_ctx()
        self.terms = S.vf_x08_terms()
        self.fields = []
        self.group = {}
        self.size_of = {}
        self.off_of = {}
        i = 0
        while True:
            n = S.vf_x08_field_name(i)
            if n is None:
                break
            g, m = n.decode().rsplit(".", 1)
            self.fields.append((m, g, S.vf_x08_field_off(i), S.vf_x08_field_size(i), S.vf_x08_field_kind(i), S.vf_x08_field_aux(i)))
            self.group[m] = g
            self.size_of[g + "." + m] = S.vf_x08_field_size(i)
            self.group[g + "." + m] = g
            self.off_of[m] = S.vf_x08_field_off(i)
            i += 1
        self.ok = self.size == R.K.get("sizeof_ctx_t", self.size) and len(self.fields) > 10
        if not self.ok:
            self.why = "layout table inconsistent"

    def snap(self):
        return ctypes.string_at(self.R.ctx, self.size)

    def restore(self, s):
        ctypes.memmove(self.R.ctx, s, self.size)

    def changed(self, a, b):
        """names of the members whose bytes differ (padding between members is not attributed to anything)"""
        if a == b:
            return []
        return [m for (m, g, off, sz, kind, aux) in self.fields if a[off:off + sz] != b[off:off + sz]]

    def bounded_bad(self, s):
        out = []
        for (m, g, off, sz, kind, aux) in self.fields:
            if kind == 2:
                v = int.from_bytes(s[off:off + sz], "little", signed=True)
                if v < 0 or v > aux:
                    out.append({"member": m, "value": v, "table_entries": aux + 1})
        return out

    def headers(self):
        """(length members, integer headers) read straight from the live context"""
        R = self.R
        lens, bns = [], []
        for (m, g, off, sz, kind, aux) in self.fields:
            if kind == 2:
                lens.append((m, aux, ctypes.c_int.from_address(R.ctx + off).value))
            elif kind == 1:
                for e in range(sz // R.bn_sz):
                    o = R.ctx + off + e * R.bn_sz
                    bns.append((m, e, R.rd_sz(o + R.bn_off_alloc), R.rd_sz(o + R.bn_off_used), R.rd_int(o + R.bn_off_sign)))
        return lens, bns

    def headers_bad(self, ref, cur):
        for (m, aux, v) in cur[0]:
            if v < 0 or v > aux:
                return ("context-length-member-out-of-range", {"member": m, "value": v, "table_entries": aux + 1})
        for (m0, e0, al0, us0, sg0), (m, e, al, us, sg) in zip(ref[1], cur[1]):
            if al != al0 or (al and us > al) or sg not in (0, 1):
                return ("context-integer-header-overwritten", {"member": m, "element": e, "alloc_at_first_case": al0, "alloc": al, "used": us, "sign": sg})
        return None

    def bn_bad(self, a, b):
        """integer members keep their header: capacity field unchanged, used <= capacity, sign is one of the two codes"""
        R = self.R
        out = []
        for (m, g, off, sz, kind, aux) in self.fields:
            if kind != 1 or a[off:off + sz] == b[off:off + sz]:
                continue
            for e in range(sz // R.bn_sz):
                o = off + e * R.bn_sz
                al0 = int.from_bytes(a[o + R.bn_off_alloc:o + R.bn_off_alloc + 8], "little")
                al1 = int.from_bytes(b[o + R.bn_off_alloc:o + R.bn_off_alloc + 8], "little")
                us = int.from_bytes(b[o + R.bn_off_used:o + R.bn_off_used + 8], "little")
                sg = int.from_bytes(b[o + R.bn_off_sign:o + R.bn_off_sign + 4], "little", signed=True)
                if al0 != al1 or us > al1 or sg not in (0, 1):
                    out.append({"member": m, "element": e, "alloc_before": al0, "alloc": al1, "used": us, "sign": sg})
        return out


def _lencls(L, dl):
    if L in (0, 1):
        return str(L)
    for m in (1, 2, 255):
        for dlt in (-1, 0, 1, 3):
            if L == m * dl + dlt:
                return "%d*digest%+d" % (m, dlt)
    return str(L)


_DIGS = "0123456789ABCDEFGHIJKLMNOPQRSTUVWXYZabcdefghijklmnopqrstuvwxyz+/"


def _parse_radix(txt, radix):
    neg = txt.startswith("-")
    if neg:
        txt = txt[1:]
    v = 0
    for ch in txt:
        d = _DIGS.find(ch)
        if d < 0 or d >= radix:
            if radix <= 36 and ch.islower():
                d = _DIGS.find(ch.upper())
            if d < 0 or d >= radix:
                return None
        v = v * radix + d
    return -v if neg else v


# =========================================================================================== fault
def run_fault(ctx):
    R = RT(ctx.cfg)
    rng = ctx.rng
    K = R.K
    S = R.S
    fi = ctypes.CDLL(os.path.join(os.path.dirname(R.L._name), "..", "libvffi.so"), mode=ctypes.RTLD_GLOBAL)
    fi.vf_fi_seen.restype = ctypes.c_long
    fi.vf_fi_fired_count.restype = ctypes.c_long
    fi.vf_fi_arm.argtypes = [ctypes.c_long, ctypes.c_int]
    S.vf_last_heap_delta.restype = ctypes.c_longlong
    if not R.dyn:
        raise RuntimeError("fault part needs the ALLOC=DYNAMIC build")
    R.call("ep_param_set", R.E["NIST_P256"] if ctx.shard % 2 == 0 else R.E["SECG_K256"])
    P = R.ep_params()
    p, n = P["p"], P["n"]
    C = WCurve(Fp(p), P["a"], P["b"], n)
    G = (P["gx"], P["gy"])
    cap = ctx.n(400, 100000)

    # ---- records: name -> (make_args() -> (args, read_output()), sticky?)
    recs = []

    def rec(name, make):
        recs.append((name, make))

    def bnv(v):
        return R.bn_put(R.bn_new(max(1, (abs(v).bit_length() + R.DIG - 1) // R.DIG)), v)

    def bnrec(name, fn, vals, nout=1, outcap=None, inplace=False):
        """outcap: capacity (digits) of the separate outputs - a small one forces bn_grow to enlarge the object inside the
        call; inplace: the first input is also the output and has exactly the capacity its value needs"""
        def make():
            if inplace:
                first = bnv(vals[0])
                ins = [first] + [bnv(v) if not isinstance(v, tuple) else v[0] for v in vals[1:]]
                outs = [first]
                args = [first] + ins
            else:
                outs = [R.bn_new(outcap) for _ in range(nout)]
                ins = [bnv(v) if not isinstance(v, tuple) else v[0] for v in vals]
                args = outs + ins

            def read():
                return [R.bn_val(o) for o in outs]
            # objects the caller still owns after a failed call: (pointer, value it must still hold or None for outputs)
            read.bn_objs = [(o, None) for o in outs] + [(i, v) for i, v in zip(ins, vals)
                                                        if not isinstance(v, tuple) and not (inplace and i == ins[0])]

            def clean():
                for o in ([] if inplace else outs) + [i for i, v in zip(ins, vals) if not isinstance(v, tuple)]:
                    R.bn_free(o)
            return args, read, clean
        rec(name, (fn, make))

    x1 = rng.getrandbits(1000) | 1
    x2 = rng.getrandbits(900) | 1
    m1 = rng.getrandbits(1024) | (1 << 1023) | 1
    bnrec("bn_mul_karat", "bn_mul_karat", [x1, x2])
    bnrec("bn_mul_comba", "bn_mul_comba", [x1, x2])
    bnrec("bn_sqr_karat", "bn_sqr_karat", [x1])
    bnrec("bn_div_rem", "bn_div_rem", [x1 * x2, x2 + 2], nout=2)
    bnrec("bn_mod_basic", "bn_mod_basic", [x1 * x2, m1])
    bnrec("bn_mxp_slide", "bn_mxp_slide", [x1, rng.getrandbits(96), m1])
    bnrec("bn_mxp_monty", "bn_mxp_monty", [x1, rng.getrandbits(64), m1])
    bnrec("bn_mxp_basic", "bn_mxp_basic", [x1, rng.getrandbits(64), m1])
    bnrec("bn_gcd_basic", "bn_gcd_basic", [x1 * 15, x2 * 21])
    bnrec("bn_gcd_lehme", "bn_gcd_lehme", [x1 * 15, x2 * 21])
    bnrec("bn_gcd_binar", "bn_gcd_binar", [x1 * 15, x2 * 21])
    bnrec("bn_gcd_ext_basic", "bn_gcd_ext_basic", [x1, x2], nout=3)
    bnrec("bn_gcd_ext_lehme", "bn_gcd_ext_lehme", [x1, x2], nout=3)
    bnrec("bn_mod_inv", "bn_mod_inv", [x2 % n, n])
    bnrec("bn_lcm", "bn_lcm", [x1, x2])
    bnrec("bn_srt", "bn_srt", [x1 * x1 + 5])
    bnrec("bn_lsh", "bn_lsh", [x1, (777,)])
    bnrec("bn_add", "bn_add", [x1, -x2])
    bnrec("bn_mul_dig", "bn_mul_dig", [x1, (12345,)])
    # the same kind of calls with objects that have to be ENLARGED inside the call (bn_grow -> realloc): the dynamic
    # allocation is padded to multiples of RLC_BN_SIZE digits, so the results must be longer than that
    capbits = R.BN_SIZE * R.DIG
    y1 = rng.getrandbits(capbits - 70) | (1 << (capbits - 71))
    y2 = rng.getrandbits(capbits - 200) | 1
    bnrec("bn_add|grow-out", "bn_add", [y1 << 200, y2], outcap=1)
    bnrec("bn_mul_comba|grow-out", "bn_mul_comba", [y1, y2], outcap=1)
    bnrec("bn_mul_basic|grow-out", "bn_mul_basic", [y1, y2], outcap=1)
    bnrec("bn_copy|grow-out", "bn_copy", [y1 << 200], outcap=1)
    bnrec("bn_lsh|grow-out", "bn_lsh", [y1, (777,)], outcap=2)
    bnrec("bn_div_rem|grow-out", "bn_div_rem", [(y1 * y2) << 300, y2 + 2], nout=2, outcap=1)
    bnrec("bn_lsh|grow-inplace", "bn_lsh", [y1, (777,)], inplace=True)
    bnrec("bn_add|grow-inplace", "bn_add", [y2, y1 << 300], inplace=True)
    bnrec("bn_mul_dig|grow-inplace", "bn_mul_dig", [(1 << capbits) - 1, (0xFFFFFFFF,)], inplace=True)
    bnrec("bn_sqr_comba|grow-inplace", "bn_sqr_comba", [y1], inplace=True)
    bnrec("bn_sqr_basic|grow-inplace", "bn_sqr_basic", [y1], inplace=True)

    def fprec(name, fn, xs):
        def make():
            out = R.fp_new()
            ins = [R.fp_new(x) for x in xs]

            def read():
                return [R.fp_get(out)[0]]

            def clean():
                for o in [out] + ins:
                    R.free(o)
            return [out] + ins, read, clean
        rec(name, (fn, make))
    fx = rng.randrange(2, p)
    for fn in ("fp_inv_basic", "fp_inv_binar", "fp_inv_monty", "fp_inv_exgcd", "fp_inv_divst", "fp_inv_jmpds", "fp_inv_lower"):
        if R.has(fn):
            fprec(fn, fn, [fx])
    fprec("fp_mul", "fp_mul", [fx, fx + 1])
    fprec("fp_srt", "fp_srt", [fx * fx % p])

    def fpexp(name):
        ev = rng.getrandbits(200)

        def make():
            out, a_, e = R.fp_new(), R.fp_new(fx), R.bn(ev)

            def read():
                return [R.fp_get(out)[0]]

            def clean():
                R.free(out)
                R.free(a_)
                R.bn_free(e)
            return [out, a_, e], read, clean
        rec(name, (name, make))
    for fn in ("fp_exp_basic", "fp_exp_slide", "fp_exp_monty"):
        fpexp(fn)

    def eprec(name, fn, kind, kv=None):
        kv2 = rng.randrange(1, n)
        if kv is None:
            kv = rng.randrange(1, n)

        def make():
            r = R.ep_new()
            g = R.ep_new()
            R.ep_put(g, G[0], G[1])
            k = R.bn(kv)
            if kind == "mul":
                args = [r, g, k]
            elif kind == "gen":
                args = [r, k]
            elif kind == "sim":
                g2 = R.ep_new()
                pt = C.mul(7, G)
                R.ep_put(g2, pt[0], pt[1])
                k2 = R.bn(kv2)
                args = [r, g, k, g2, k2]
            elif kind == "add":
                g2 = R.ep_new()
                pt = C.mul(7, G)
                R.ep_put(g2, pt[0], pt[1])
                args = [r, g, g2]
            elif kind == "dbl":
                args = [r, g]
            elif kind == "map":
                m = R.put(b"fault injection")
                args = [r, m, 15]

            def read():
                x, y, z, co, can = R.ep_get(r)
                if z == 0:
                    return [None]
                if z == 1:
                    return [(x, y)]
                return [C.from_jacob(x, y, z) if co == K["JACOB"] else C.from_homog(x, y, z)]

            def clean():
                R.free(r)
                R.free(g)
                R.bn_free(k)
            return args, read, clean
        rec(name, (fn, make))
    kfix = rng.randrange(1, n)
    for fn in ("ep_mul_basic", "ep_mul_slide", "ep_mul_monty", "ep_mul_lwnaf", "ep_mul_lwreg"):
        eprec(fn, fn, "mul", kfix)
    eprec("ep_mul_gen", "ep_mul_gen", "gen", kfix)
    for fn in ("ep_mul_sim_basic", "ep_mul_sim_trick", "ep_mul_sim_inter", "ep_mul_sim_joint"):
        eprec(fn, fn, "sim", kfix)
    eprec("ep_add_projc", "ep_add_projc", "add")
    eprec("ep_add_basic", "ep_add_basic", "add")
    eprec("ep_dbl_projc", "ep_dbl_projc", "dbl")
    eprec("ep_map", "ep_map", "map")

    def iorec():
        def make():
            a_ = R.bn(x1)
            need = R.call("bn_size_str", a_, 10).r
            buf = R.mem(need, 0)

            def read():
                return [R.get(buf, need)]

            def clean():
                R.bn_free(a_)
                R.free(buf)
            return [buf, need, a_, 10], read, clean
        rec("bn_write_str", ("bn_write_str", make))

        def make2():
            s = str(x1).encode() + b"\0"
            ps = R.put(s)
            o = R.bn_new()

            def read():
                return [R.bn_val(o)]

            def clean():
                R.free(ps)
                R.bn_free(o)
            return [o, ps, len(s) - 1, 10], read, clean
        rec("bn_read_str", ("bn_read_str", make2))
    iorec()

    def canary():
        a_, b_, c_ = R.bn(0x1234567), R.bn(0x89ABCDE), R.bn_new()
        r = R.call("bn_mul", c_, a_, b_)
        okv = (not r.caught) and R.bn_val(c_) == 0x1234567 * 0x89ABCDE
        for o in (a_, b_, c_):
            R.bn_free(o)
        return okv

    total_inj = 0
    total_err = 0
    total_tol = 0
    alloc_counts = {}
    for ri, (name, (fn, make)) in enumerate(recs):
        if not ctx.mine(ri):
            continue
        if not R.has(fn):
            continue
        # reference run (no failure): count allocations, remember result and heap growth
        if not ctx.begin("fault|%s" % name, {"reference_run": name}, nontrivial=False, budget=300):
            continue
        try:
            args, read, clean = make()
            fi.vf_fi_arm(-1, 0)
            res = R.call(fn, *args)
            A = fi.vf_fi_seen()
            d_ok = S.vf_last_heap_delta()
            ref = read()
            clean()
            if res.caught:
                ctx.fail("fault|%s|reference-failed" % name, {"err": res.err})
                continue
            ctx.ok()
        except MonitorViolation as e:
            ctx.fail("fault|%s|reference|%s" % (name, e.kind), e.detail)
            continue
        finally:
            ctx.end()
        alloc_counts[name] = A
        points = list(range(1, A + 1))
        if A > cap:
            # deterministic head and tail (set-up and tear-down allocations) plus a random sample of the middle
            points = sorted(set(points[:250] + points[-30:] + rng.sample(points, max(1, cap - 280))))
        for i in points:
            key = "fault|%s" % name
            if not ctx.begin(key, {"fail_allocation": i, "of": A}, budget=300):
                break
            try:
                args, read, clean = make()
                fi.vf_fi_arm(i, 0)
                res = R.call(fn, *args)
                fired = fi.vf_fi_fired_count()
                fi.vf_fi_disarm()
                d = S.vf_last_heap_delta()
                total_inj += 1
                if res.caught:
                    total_err += 1
                    ctx.check(True)
                    ctx.check(d <= d_ok, key + "|leak-on-error-path", {"fail_allocation": i, "heap_growth_bytes": d, "successful_run": d_ok})
                    # the caller's objects survive a reported failure: still valid objects (inputs unchanged), and usable
                    for o, val in getattr(read, "bn_objs", []):
                        dp = R.bn_dp(o)
                        al, us = R.rd_sz(o + R.bn_off_alloc), R.rd_sz(o + R.bn_off_used)
                        sane = bool(dp) and us <= al
                        ctx.check(sane, key + "|object-destroyed-by-failed-call", {"fail_allocation": i, "dp": dp, "alloc": al, "used": us})
                        if sane:
                            ctx.check(not R.call("bn_cmp_abs", o, o).caught, key + "|object-unusable-after-failed-call", {"fail_allocation": i})
                            if val is not None:
                                ctx.check(R.bn_val(o) == val, key + "|input-changed-by-failed-call", {"fail_allocation": i})
                        else:
                            # do not hand a broken object to bn_clean
                            ctypes.memset(o, 0, R.bn_sz)
                else:
                    got = read()
                    if fired:
                        total_tol += 1
                    ctx.check(got == ref, key + "|wrong-result-after-allocation-failure", {"fail_allocation": i, "fired": fired})
                clean()
                ctx.check(canary(), key + "|library-unusable-afterwards", {"fail_allocation": i})
            except MonitorViolation as e:
                fi.vf_fi_disarm()
                ctx.fail(key + "|" + e.kind, {"fail_allocation": i, "detail": e.detail})
            finally:
                fi.vf_fi_disarm()
                ctx.end()
    ctx.add("allocation_failures_injected", total_inj)
    ctx.add("injections_reported_as_error", total_err)
    ctx.add("injections_tolerated_with_correct_result", total_tol)
    ctx.note("allocations_per_record", alloc_counts)
    ctx.note("functions_exercised", sorted(R.fn_seen))


def finish(cov):
    inj = cov.get("allocation_failures_injected", 0)
    cov["explanation_fault_part"] = ("%d allocation failures injected; every failure point of each recorded call is "
                                     "enumerated unless the record has more points than the tier's cap" % inj)
