"""C10 - extension-field towers compute in the quotient rings they denote.

Oracle: verif/model/tower.py (schoolbook polynomial arithmetic modulo t^d = nr, inversion through norms)
built from defining polynomials that are *measured* on the library's own basis elements
(verif/model/fpxmeas.py).  Every fpN_* entry point that is built is driven from the prototype list of
relic_fpx.h; results are read raw (residues + canonical-form flag) and compared coefficient by coefficient.
"""
import ctypes
import os
import re

from ..rt import RT, MonitorViolation
from ..ctx import hx
from .. import build
from ..model import fpxmeas
from ..model.fpxmeas import TOWERS
from ..model.tower import Ext

LEVEL = "exploration"
RULE = ("for every pairing/plain prime selectable in the build the defining polynomials of every built tower "
        "(degrees 2,3,4,6,8,9,12,16,18,24,48,54) are measured on the library's basis elements, compared with the reported "
        "non-residues and checked to be non-residues in the model; then every built fpN_* function (list parsed from "
        "relic_fpx.h, dispatch macros included) is called on elements of the classes zero, one, basis element, random "
        "subset of coefficients zero, subfield element, boundary residues (0,1,2,p-1,p-2,(p+-1)/2 and complementary pairs "
        "summing to p), unitary, cyclotomic (model easy-part exponent), order-r, random, with every output/input alias "
        "pattern, exponents 0,1,2,small,negative,sparse,p,r,random and Frobenius powers 0..degree(+); each result is "
        "compared with the quotient-ring model on raw coefficients, must be in canonical form (digits < p) and must leave "
        "non-aliased inputs bit-identical.  A case is non-trivial when an operand is non-zero; distinct = distinct "
        "(function, class, alias, operands, parameter set)")
ASSUMPTIONS = [
    "Python integers; verif/model/tower.py schoolbook quotient-ring arithmetic is the reference",
    "Frobenius in the model: images of the adjoined elements by plain exponentiation x^p extended by the ring-homomorphism "
    "property (self-checked against plain exponentiation of random elements at start-up); squareness in the model: "
    "Legendre symbol of the norm to the prime field (self-checked against x^((q-1)/2))",
    "cyclotomic subgroup of fpN = elements of order dividing Phi_N(p): (p^(N/2)-1)(p^(N/6)+1)-th powers for N = 12,18,24,48,54 "
    "(the header text of fp24/48/54_conv_cyc states another exponent, the code and the mathematics agree with this one); "
    "unitary = (p^(N/2)-1)-th powers for N = 2,4,8,16",
    "sparse operand shapes of fpN_mul_dxs are the ones the pairing line functions produce (source comments), for the "
    "projective-coordinate build: fp6/fp9 b2=0; fp8 b[1][0]=0; fp12 D-type {b00,b10,b11}, otherwise {b00,b01,b11}; "
    "fp16 {b0,b[1][1]} or {b[0][0],b1}; fp18 {b00,b01,b11}; fp24 {b0,b1} or {b0,b2}; fp48 {b00,b01,b11}; fp54 {b0,b[2][0]}; "
    "for the affine build (EP_ADD == BASIC, asan256x): fp12 D-type {b[0][0][0] in Fp, b10, b11}, M-type {b00, b01, b[1][1][0] in Fp}, "
    "fp16 second form {b[0][0][0][0] in Fp, b1}; fp18/fp48/fp54 not exercised there",
    "fp2_mul_frb(i,j) multiplies by xi^(j(p-1)/6) (i=1, j=1..5) and xi^(p div 4|8|12|24) (i=2, j=1..4), xi = fp2_mul_nor(1); "
    "fp3_mul_frb analogously with p div 6, 9, 18 (comments of relic_fpx_field.c)",
    "compressed (Karabina) form: only the coefficients g2..g5 are significant, except that the unit is represented by 1",
    "I/O (read_bin/write_bin/size_bin), rand and print are out of scope (C07)",
]

OUT_OF_SCOPE = {"field_init", "field_get_qnr", "field_get_cnr", "rand", "print", "size_bin", "read_bin", "write_bin"}

PAIRING_PARTS = {"BN_P256": "asan256", "SM9_P256": "asan256", "B12_P381": "asan381"}
PLAIN256 = ["NIST_P256", "BSI_P256", "SECG_K256", "SM2_P256"]
# thorough sweep: configuration -> prime identifiers of relic_fp.h (activated with fp_param_set; no curve is needed for
# the towers).  Only configurations of build.py on which the unchanged tree is silent (up to the known findings).
SWEEP = {"asan315": ["B24_315"], "asan377": ["B12_377"], "asan382": ["BN_382"], "asan446": ["BN_446", "B12_446"],
         "asan509": ["B24_509"], "asan638": ["BN_638", "B12_638", "K18_638", "SG18_638"]}
SWEEP_NAMES = set(n for v in SWEEP.values() for n in v)


def parts(tier):
    q = tier == "quick"
    P = [dict(part="BN_P256", cfg="asan256", shards=5 if q else 6),
         dict(part="SM9_P256", cfg="asan256", shards=4 if q else 6),
         dict(part="plain256", cfg="asan256", shards=2 if q else 4),
         dict(part="B12_P381", cfg="asan381", shards=5 if q else 6),
         # alternative dispatch (FPX_METHD=BASIC;BASIC;BASIC: the macro-selected fpN mul/sqr/... are the _basic variants;
         # EP add BASIC, so the sparse products, whose operand shapes are narrower there, are not exercised): reduced volume
         dict(part="BN_P256", cfg="asan256x", shards=2),
         # the sparse products in the (M-type twist, affine curve arithmetic) path: SM9_P256 in the affine build
         dict(part="SM9_P256-dxs", cfg="asan256x", shards=1)]
    if not q:
        for cfg in sorted(SWEEP):
            P.append(dict(part="sweep-" + cfg, cfg=cfg, shards=4 * len(SWEEP[cfg]) if cfg != "asan638" else 8))
    return P


# ------------------------------------------------------------------------------------------- model helpers
class Frob(object):
    """x -> x^(p^i) on a model tower: t^(p^i) of each adjoined element by plain exponentiation (iterated p-th powers),
    extended additively and multiplicatively (Frobenius is a ring homomorphism fixing the prime field)."""

    def __init__(self, F, sub):
        self.F = F
        self.sub = sub              # Frob of the base field, None over the prime field
        t = F.gen()
        self.img = {0: [F.one, t, F.mul(t, t)][:F.d]}

    def _img(self, i):
        i %= self.F.deg
        if i not in self.img:
            if i == 1:
                F = self.F
                T = F.pow(F.gen(), F.p)
            else:
                prev = self._img(i - 1)[1]
                T = self.apply(prev, 1)
            self.img[i] = [self.F.one, T, self.F.mul(T, T)][:self.F.d]
        return self.img[i]

    def apply(self, x, i=1):
        F = self.F
        i %= F.deg
        if i == 0:
            return x
        tk = self._img(i)
        acc = F.zero
        for k in range(F.d):
            c = x[k] if self.sub is None else self.sub.apply(x[k], i)
            acc = F.add(acc, F.mul_base(tk[k], c))
        return acc


def norm_down(F, a):
    """norm of a from F to F.base"""
    B = F.base
    if F.d == 2:
        return B.sub(B.mul(a[0], a[0]), B.mul(F.nr, B.mul(a[1], a[1])))
    a0, a1, a2 = a
    nr = F.nr
    t = B.add(B.mul(a0, B.mul(a0, a0)), B.mul(nr, B.mul(a1, B.mul(a1, a1))))
    t = B.add(t, B.mul(B.mul(nr, nr), B.mul(a2, B.mul(a2, a2))))
    return B.sub(t, B.mul(B.small(3), B.mul(nr, B.mul(a0, B.mul(a1, a2)))))


def is_square(F, a):
    """a is a square in F  <=>  its norm to the prime field is a square there (a != 0)"""
    if F.is_zero(a):
        return True
    while isinstance(F, Ext):
        a = norm_down(F, a)
        F = F.base
    return pow(a, (F.p - 1) // 2, F.p) == 1


def path_range(d, path):
    off, cur = 0, d
    for idx in path:
        bd = TOWERS[cur][0]
        off += idx * bd
        cur = bd
    return range(off, off + cur)


def dxs_shapes(d, dtype, basic=False):
    """allowed non-zero sub-blocks of the sparse operand (list of alternatives): the shapes of the line functions of the
    (twist type, EP_ADD) path the build and the active curve select.  With affine curve arithmetic (EP_ADD == BASIC) one
    block of the fp12/fp16 line lies in the prime field; fp18/fp48/fp54 are not exercised there."""
    if basic:
        return {6: [[(0,), (1,)]], 9: [[(0,), (1,)]], 8: [[(0,), (1, 1)]],
                12: [[(0, 0, 0), (1, 0), (1, 1)]] if dtype else [[(0, 0), (0, 1), (1, 1, 0)]],
                16: [[(0,), (1, 1)], [(0, 0, 0, 0), (1,)]],
                24: [[(0,), (1,)], [(0,), (2,)]]}.get(d)
    return {6: [[(0,), (1,)]], 9: [[(0,), (1,)]], 8: [[(0,), (1, 1)]],
            12: [[(0, 0), (1, 0), (1, 1)]] if dtype else [[(0, 0), (0, 1), (1, 1)]],
            16: [[(0,), (1, 1)], [(0, 0), (1,)]], 18: [[(0, 0), (0, 1), (1, 1)]],
            24: [[(0,), (1,)], [(0,), (2,)]], 48: [[(0, 0), (0, 1), (1, 1)]], 54: [[(0,), (2, 0)]]}.get(d)


def header_functions():
    """{degree: {suffix: return type}} from the prototypes of relic_fpx.h"""
    txt = open(os.path.join(build.REPO, "include", "relic_fpx.h"), errors="replace").read()
    txt = re.sub(r"/\*.*?\*/", "", txt, flags=re.S)
    out = {}
    for m in re.finditer(r"^\s*(void|int)\s+fp(\d+)_(\w+)\s*\(", txt, re.M):
        out.setdefault(int(m.group(2)), {})[m.group(3)] = m.group(1)
    return out


def header_const(name, hdr="relic_ep.h"):
    txt = open(os.path.join(build.REPO, "include", hdr), errors="replace").read()
    m = re.search(r"#define\s+%s\s+(\d+)" % name, txt)
    return int(m.group(1)) if m else None


# kinds of entry points, by suffix
BIN = {"add": "add", "add_basic": "add", "add_integ": "add", "sub": "sub", "sub_basic": "sub", "sub_integ": "sub",
       "mul": "mul", "mul_basic": "mul", "mul_integ": "mul", "mul_lazyr": "mul"}
UN = {"neg": "neg", "dbl": "dbl", "dbl_basic": "dbl", "dbl_integ": "dbl", "sqr": "sqr", "sqr_basic": "sqr",
      "sqr_integ": "sqr", "sqr_lazyr": "sqr", "mul_art": "art", "mul_nor": "nor", "mul_nor_basic": "nor",
      "mul_nor_integ": "nor", "inv": "inv", "copy": "copy"}
CYC_UN = {"sqr_cyc": "sqr", "sqr_cyc_basic": "sqr", "sqr_cyc_lazyr": "sqr", "inv_cyc": "inv"}
PCK_SQR = {"sqr_pck", "sqr_pck_basic", "sqr_pck_lazyr"}
DXS = {"mul_dxs", "mul_dxs_basic", "mul_dxs_lazyr"}
UNR = {"mul_unr": "mul", "sqr_unr": "sqr"}
DIG = {"add_dig": "add", "sub_dig": "sub", "mul_dig": "mul"}
OTHER = {"mul_frb", "exp", "exp_dig", "exp_cyc", "exp_cyc_sim", "exp_cyc_sps", "exp_cyc_gls", "frb", "inv_sim", "is_sqr",
         "srt", "conv_cyc", "test_cyc", "back_cyc", "back_cyc_sim", "pck", "upk", "pck_max", "upk_max", "cmp", "cmp_dig",
         "is_zero", "zero", "set_dig", "copy_sec"}
# relative selection weight of a kind in the random phase (cheap arithmetic dominates, heavy model work is rare)
GROUP = {"zero": "zero", "cyc": "cyclo", "uni": "cyclo", "ordr": "cyclo"}      # class -> group used in case keys
HEAVY = {"exp": 0.35, "exp_cyc": 0.35, "exp_cyc_sim": 0.25, "exp_cyc_sps": 0.3, "exp_dig": 0.5, "srt": 0.5,
         "conv_cyc": 0.3, "inv_sim": 0.5, "back_cyc_sim": 0.5, "frb": 1.0}

# Entry points that abort under the sanitizers on the unchanged tree for a whole input class (known findings): the class
# is produced by exactly one directed case per run and configuration, first thing in the shard that owns it, and the
# random generators stay away from it (each hit would cost a worker restart).
#   fpN_inv_sim with n == 0 reads a[0]/c[-1] and writes c[0] and a zero-length alloca
#   fp54_frb indexes ctx->fp3_p2[2] (declared [2]) for every input; conv_cyc/test_cyc/pck/upk/exp/exp_dig call it
FATAL_54 = {"frb", "conv_cyc", "test_cyc", "pck", "upk", "exp", "exp_dig", "exp_cyc", "exp_cyc_sps", "exp_cyc_sim"}
FATAL_PARTS = ("BN_P256", "B12_P381")      # one part per configuration runs the directed fatal cases
FATAL_CFGS = ("asan256", "asan381")

# cases per run and degree (whole part, all shards together): quick, thorough
COUNTS = {2: (9000, 200000), 3: (5000, 100000), 4: (4500, 90000), 6: (4500, 90000), 8: (3500, 70000),
          9: (3000, 60000), 12: (6000, 150000), 16: (1400, 30000), 18: (1400, 30000), 24: (900, 20000),
          48: (160, 3000), 54: (160, 3000)}


class Tower(object):
    """one active parameter set: measured towers, element generators, handlers"""

    def __init__(self, R, ctx, pname):
        self.R, self.ctx, self.pname = R, ctx, pname
        self.rng = ctx.rng
        self.p = R.p
        self.M = fpxmeas.measure(R)
        self.F = self.M.F
        self.frob = {}
        for d in fpxmeas.ORDER:
            if d in self.F:
                bd = TOWERS[d][0]
                self.frob[d] = Frob(self.F[d], self.frob.get(bd))
        self.sz = {d: R.fp_sz * d for d in TOWERS}
        self.pool = {}
        self.cyc_seed = {}
        self.cyc_cur = {}
        self.ord_seed = None
        self.ord_cur = None
        self.r = None
        self.K = R.K
        self.EQ, self.NE = R.K["RLC_EQ"], R.K["RLC_NE"]
        self.hdr = header_functions()
        self.dvsz = R.K["sizeof_dv_t"]
        self.dvdigs = R.K["RLC_DV_DIGS"]
        self.bnk = R.bn_new()
        self.bnk2 = R.bn_new()
        dt = header_const("RLC_EP_DTYPE")
        tw = R.L.ep2_curve_is_twist() if R.has("ep2_curve_is_twist") else 0
        self.dtype = (tw == dt) and dt is not None
        self.ep_add = R.target("ep_add")
        self.fpbits = R.K["RLC_FP_BITS"]
        self.edge_vals = None

    # ---------------------------------------------------------------- memory
    def objs(self, d):
        o = self.pool.get(d)
        if o is None:
            R = self.R
            o = dict(a=R.fpx_new(d), b=R.fpx_new(d), c=R.fpx_new(d), e=R.fpx_new(d),
                     arr_a=R.mem(self.sz[d] * 6, 0x5A), arr_c=R.mem(self.sz[d] * 6, 0x5A),
                     dv=R.mem(self.dvsz * d, 0x5A))
            self.pool[d] = o
        return o

    def poison(self, ptr, n):
        ctypes.memset(ptr, self.R.poison, n)

    # ---------------------------------------------------------------- elements
    def edges(self):
        if self.edge_vals is None:
            p, R = self.p, self.R
            v = [0, 1, 2, 3, p - 1, p - 2, (p - 1) // 2, (p + 1) // 2, (p - 1) // 2 - 1, (p + 1) // 2 + 1]
            # residues whose internal (Montgomery) digits are special
            mi = R.mont_inv
            for raw in (1, 2, p - 1, p - 2, (p - 1) // 2, (p + 1) // 2, (1 << (p.bit_length() - 1)),
                        (1 << (p.bit_length() - 1)) - 1, (1 << 64) - 1, 1 << 64, p - (1 << 64)):
                v.append(raw % p * mi % p)
            self.edge_vals = v
        return self.edge_vals

    def chain(self, d):
        """degrees of the subfields along the tower of fpN, prime field first"""
        c = []
        while d > 1:
            d = TOWERS[d][0]
            c.append(d)
        return c[::-1]

    def flat(self, d, cls):
        """-> flat coefficient list of an element of class cls"""
        rng, p = self.rng, self.p
        if cls == "zero":
            return [0] * d
        if cls == "one":
            return [1] + [0] * (d - 1)
        if cls == "basis":
            v = [0] * d
            v[rng.randrange(d)] = 1
            return v
        if cls == "sparse":
            while True:
                v = [rng.randrange(p) if rng.random() < 0.5 else 0 for _ in range(d)]
                if any(v) and not all(v):
                    return v
        if cls == "sub":
            m = rng.choice(self.chain(d))
            return [rng.randrange(1, p) for _ in range(m)] + [0] * (d - m)
        if cls == "edge":
            ev = self.edges()
            v = [rng.choice(ev) for _ in range(d)]
            if rng.random() < 0.5:
                # complementary neighbours: sums of adjacent coefficients are 0 mod p (== p before reduction)
                for i in range(0, d - 1, 2):
                    if rng.random() < 0.7:
                        v[i + 1] = (p - v[i]) % p if rng.random() < 0.8 else (p - v[i] + rng.choice([-1, 1])) % p
            return v
        if cls == "comp":
            # random with complementary structure inside the element
            v = [rng.randrange(p) for _ in range(d)]
            h = rng.choice(self.chain(d))
            for i in range(d - h):
                if rng.random() < 0.6:
                    v[i + h] = (p - v[i]) % p
            return v
        if cls == "rnd":
            return [rng.randrange(p) for _ in range(d)]
        if cls in ("cyc", "ordr", "uni"):
            return self.F[d].flatten(self.special(d, cls))
        raise KeyError(cls)

    def complement(self, d, a):
        """operand whose coefficients sum with a's to multiples of p (or off by one)"""
        rng, p = self.rng, self.p
        return [((p - x) % p if rng.random() < 0.85 else (p - x + rng.choice([-1, 1])) % p) for x in a]

    def easy_part(self, d, x):
        """model 'conversion to cyclotomic': x^(p^(d/2)-1) and then ^(p^(d/6)+1) for the degrees with a cubic level"""
        F, fr = self.F[d], self.frob[d]
        y = F.mul(fr.apply(x, d // 2), F.inv(x))
        if d in (12, 18, 24, 48, 54):
            y = F.mul(fr.apply(y, d // 6), y)
        return y

    def unitary(self, d, x):
        F, fr = self.F[d], self.frob[d]
        return F.mul(fr.apply(x, d // 2), F.inv(x))

    def special(self, d, cls):
        """model elements of the unitary / cyclotomic / order-r subgroups; new ones by cheap walks inside the group"""
        F, fr, rng = self.F[d], self.frob[d], self.rng
        if cls == "uni":
            return self.unitary(d, F.rand(rng))
        if cls == "cyc":
            if d not in self.cyc_seed:
                s = self.easy_part(d, F.rand(rng))
                self.cyc_seed[d] = s
                self.cyc_cur[d] = s
            s = self.cyc_seed[d]
            c = rng.random()
            if c < 0.15:
                # a fresh one
                s = self.easy_part(d, F.rand(rng))
                self.cyc_seed[d] = s
            cur = F.mul(self.cyc_cur[d], fr.apply(s, rng.randrange(d)))
            if rng.random() < 0.3:
                cur = F.mul(cur, cur)
            if F.eq(cur, F.one):
                cur = s
            self.cyc_cur[d] = cur
            return cur
        if cls == "ordr":
            if self.ord_seed is None:
                phi = self.p ** 4 - self.p ** 2 + 1
                assert d == 12 and self.r and phi % self.r == 0
                g = F.one
                while F.eq(g, F.one):
                    g = F.pow(self.easy_part(12, F.rand(rng)), phi // self.r)
                self.ord_seed = g
                self.ord_cur = g
            g = self.ord_seed
            cur = F.mul(self.ord_cur, fr.apply(g, rng.randrange(12)))
            if rng.random() < 0.3:
                cur = F.pow(cur, rng.randrange(2, 1 << 16))
            if F.eq(cur, F.one):
                cur = g
            self.ord_cur = cur
            return cur
        raise KeyError(cls)

    def has_cyc(self, d):
        return d in (2, 8, 12, 16, 18, 24, 48, 54) or d == 4

    def cyc_classes(self, d):
        """classes of elements satisfying the precondition of the cyclotomic forms of degree d"""
        if d in (2, 4, 8, 16):
            return ["uni", "one"]
        c = ["cyc", "cyc", "one"]
        if d == 12 and self.r:
            c.append("ordr")
        return c

    # ---------------------------------------------------------------- self checks of the model
    def selfcheck(self):
        rng = self.rng
        for d in sorted(self.F):
            if d == 1 or d > 12:
                continue
            F = self.F[d]
            x = F.rand(rng)
            if self.frob[d].apply(x, 1) != F.pow(x, self.p):
                raise RuntimeError("model self-check: Frobenius of fp%d" % d)
            if d <= 4:
                for _ in range(4):
                    y = F.rand(rng)
                    if is_square(F, y) != F.is_sqr(y):
                        raise RuntimeError("model self-check: squareness in fp%d" % d)
        if 12 in self.F:
            F = self.F[12]
            x = F.rand(rng)
            e = fpxmeas.cyc_exponents(self.p)[12]
            if self.easy_part(12, x) != F.pow(x, e):
                raise RuntimeError("model self-check: easy part of fp12")
        if 2 in self.F:
            F = self.F[2]
            x = F.rand(rng)
            if self.unitary(2, x) != F.pow(x, self.p - 1):
                raise RuntimeError("model self-check: unitary fp2")


def classify(d, v, p):
    """input class of a flat element, for case keys (computed from the value)"""
    nz = sum(1 for x in v if x)
    if nz == 0:
        return "zero"
    if nz == 1 and v[0] == 1:
        return "one"
    if nz == 1 and 1 in v:
        return "basis"
    if nz < d:
        return "sparse"
    return "dense"


def run(ctx, part):
    R = RT(ctx.cfg)
    rng = ctx.rng
    E = R.E
    only = None
    if part.endswith("-dxs"):
        part = part[:-4]
        only = lambda d, s: s in DXS or (s in ("mul", "mul_basic", "mul_lazyr") and d in (6, 12))   # noqa: E731
    if part in PAIRING_PARTS:
        names = [part]
    elif part == "plain256":
        names = PLAIN256
    else:
        names = SWEEP.get(ctx.cfg, [])
    ctx.note("ep_add_dispatch", R.target("ep_add"))
    for nm in names:
        if nm not in E:
            ctx.note("param_missing_" + nm, True)
            continue
        if not ctx.begin("setup|%s" % nm, [nm]):
            continue
        try:
            if nm in SWEEP_NAMES:
                r = R.call("fp_param_set", E[nm])
                ok = not r.caught and R.L.fp_param_get() == E[nm]
            elif nm in PAIRING_PARTS:
                try:
                    R.pairing_set(nm)       # G1 + the twist type of this family (shapes of the sparse line elements)
                    ok = True
                except (KeyError, RuntimeError):
                    ok = False
            else:
                r = R.call("ep_param_set", E[nm])
                ok = not r.caught and R.L.ep_param_get() == E[nm]
            ctx.check(ok, "setup|%s|unexpected-error" % nm)
            if not ok:
                continue
            R.fp_setup()
        except MonitorViolation as e:
            ctx.fail(ctx.cur_key + "|" + e.kind, e.detail)
            continue
        finally:
            ctx.end()
        run_param(ctx, R, nm, len(names), only)
    ctx.note("functions_exercised", sorted(R.fn_seen))
    ctx.note("error_codes_seen", {str(k): v for k, v in R.err_codes.items()})


def run_param(ctx, R, pname, nparams, only=None):
    rng = ctx.rng
    T = Tower(R, ctx, pname)
    M, F, p = T.M, T.F, T.p
    K = R.K
    # ---- measurement verdicts
    if ctx.begin("measure|%s" % pname, [pname, M.reported]):
        try:
            for d in fpxmeas.ORDER:
                bad = [q for q in M.problems if q[0] == d]
                ctx.check(not bad, "measure|fp%d|%s" % (d, bad[0][1] if bad else ""), [q[2] for q in bad])
        finally:
            ctx.end()
    ctx.note("towers_" + pname, {"present": sorted(d for d in F if d > 1), "absent": {str(k): v for k, v in M.absent.items()},
                                  "reported": M.reported,
                                  "nonresidues": {str(d): repr(v) for d, v in M.nr.items() if d <= 9}})
    T.selfcheck()
    # group order of the active curve (order-r elements of fp12)
    if R.L.ep_curve_is_pairf() and 12 in F:
        n = R.bn_new()
        R.call("ep_curve_get_ord", n)
        r = R.bn_val(n)
        R.bn_free(n)
        if r and (p ** 4 - p ** 2 + 1) % r == 0:
            T.r = r
    hdr = T.hdr
    # ---- the list of entry points of each present degree
    flist = {}
    not_built, uncovered, absent_tower, outside = [], [], [], []
    # Towers above fp3 are claimed for p = 1 (mod 6) only: the Frobenius constants of the sextic towers are defined as
    # xi^((p-1)/6) (relic_fpx_field.c); on the plain primes with p = 2 (mod 3) the towers exist but lie outside that family.
    if pname in PAIRING_PARTS or pname in SWEEP_NAMES or p % 6 == 1:
        allowed = set(F)
    else:
        allowed = set(d for d in F if d <= 3)
    for d in sorted(hdr):
        names = set(hdr[d])
        for mname in R.macros:
            m = re.match(r"^fp(\d+)_(\w+)$", mname)
            if m and int(m.group(1)) == d and (m.group(2) in BIN or m.group(2) in UN or m.group(2) in CYC_UN
                                                or m.group(2) in PCK_SQR or m.group(2) in DXS):
                names.add(m.group(2))
        for s in sorted(names):
            fn = "fp%d_%s" % (d, s)
            if s in OUT_OF_SCOPE:
                continue
            if not R.has(fn):
                not_built.append(fn)
                continue
            if d not in F:
                absent_tower.append(fn)
                continue
            if not (s in BIN or s in UN or s in CYC_UN or s in PCK_SQR or s in DXS or s in UNR or s in DIG or s in OTHER) \
                    or (s == "mul_frb" and d not in (2, 3, 4)) or s == "exp_cyc_gls":
                uncovered.append(fn)
                continue
            if d not in allowed:
                outside.append(fn)
                continue
            if only is not None and not only(d, s):
                continue
            flist.setdefault(d, []).append(s)
    ctx.note("functions_not_built", sorted(not_built))
    ctx.note("functions_without_generator", sorted(uncovered))
    ctx.note("functions_skipped_tower_absent_" + pname, sorted(absent_tower))
    if outside:
        ctx.note("functions_skipped_p_not_1_mod_6_" + pname, sorted(outside))
    ctx.note("dispatch_" + ctx.cfg, {m: R.target(m) for m in R.macros if re.match(r"^fp\d+_(add|sub|dbl|mul|sqr|mul_nor|mul_dxs|sqr_cyc|sqr_pck)$", m)
                          and R.has(m)})

    H = Handlers(T)
    # ---- phase 0: directed cases of the known fatal classes (see FATAL_*), one shard each
    excluded = []
    k = 0
    for d in sorted(flist):
        if "inv_sim" in flist[d]:
            k += 1
            if pname in FATAL_PARTS and ctx.cfg in FATAL_CFGS and ctx.mine(k):
                H.fatal_inv_sim_n0(d)
        if d == 54:
            if "frb" in flist[d]:
                k += 1
                if pname in FATAL_PARTS and ctx.cfg in FATAL_CFGS and ctx.mine(k):
                    H.fatal_fp54_frb()
            excluded += ["fp54_" + s for s in flist[d] if s in FATAL_54]
            flist[d] = [s for s in flist[d] if s not in FATAL_54]
    ctx.note("functions_excluded_known_fatal", sorted(excluded))
    # ---- phase K: one directed case per finding known on the unchanged tree (known_findings.jsonl), so that each
    # finding is re-observed (or seen repaired) by every run independently of the random choices
    KNOWN_DIRECTED = [
        # repaired (fix: commits 9ed0e8d, 474805c): the classes stay directed and are judged strictly
        ("exp_dig", (8, 12, 16, 18, 24, 48), None, "CYC", dict(e=3)),
        ("exp_dig", (8, 12, 16, 18, 24, 48), None, "CYC", dict(e=6)),
        ("exp_dig", (8, 12, 16, 18, 24, 48), None, "CYC", dict(e=7)),
        ("exp_dig", (8, 12, 16, 18, 24, 48), None, "CYC", dict(e=11)),
        ("exp_dig", (8, 12, 16, 18, 24, 48), None, "CYC", dict(e=27)),
        ("exp_dig", (8, 12, 16, 18, 24, 48), None, "CYC", dict(e="random-naf+1")),
        ("exp_dig", (12,), None, "ordr", dict(e=3, fn="gt_exp_dig")),
        ("exp_dig", (12,), None, "ordr", dict(e=27, fn="gt_exp_dig")),
        ("exp_dig", (12,), None, "ordr", dict(e="random-naf+1", fn="gt_exp_dig")),
        ("test_cyc", (12, 18, 24, 48), None, "zero", {}),
        ("exp", (12, 18, 24, 48), None, "zero", dict(e=5)),
        ("pck", (12, 18, 24, 48), None, "one", {}),
        ("pck", (2,), "SM9_P256", "uni", {}),
        ("frb", (16,), None, "rnd", dict(i=9)),
        ("frb", (16,), "BN_P256", "rnd", dict(i=1)),
        ("is_sqr", (16,), "BN_P256", "rnd", dict(square=True)),
        ("frb", (48,), "SM9_P256", "rnd", dict(i=1)),
        ("conv_cyc", (48,), "SM9_P256", "rnd", {}),
        ("test_cyc", (48,), "SM9_P256", "cyc", dict(x=1)),
        ("exp_cyc_sim", (12,), None, "ordr", dict(e12=(5, 7))),
        ("exp_cyc_sim", (12,), None, "ordr", dict(e12=(5, -7))),
        ("exp_cyc_sim", (12,), None, "ordr", dict(e12=(-5, 7))),
        ("exp_cyc_sim", (12,), None, "ordr", dict(e12=(-5, -7))),
        ("exp_cyc_sim", (12,), None, "ordr", dict(e12="random-pn")),
        ("exp_cyc_sim", (12,), None, "ordr", dict(e12="random-np")),
        ("back_cyc", (54,), None, "one", dict(keep=True)),
    ]
    k = 0
    for s, degs, only, cls, force in KNOWN_DIRECTED:
        for d in degs:
            k += 1
            if d not in flist or s not in flist[d] or (only and only != pname) or not ctx.mine(k):
                continue
            c = T.cyc_classes(d)[0] if cls == "CYC" else cls
            if c == "ordr" and not T.r:
                continue
            H.force = dict(force)
            H.case(d, s, c, 0, directed=True)
            H.force = {}
    # ---- phase 1: every (function, class) pair once, split over the shards
    idx = 0
    for d in sorted(flist):
        for s in flist[d]:
            for cls in H.classes(d, s):
                for alias in H.aliases(s):
                    idx += 1
                    if not ctx.mine(idx):
                        continue
                    H.case(d, s, cls, alias, directed=True)
    # ---- phase L: the layer below relic_fpx.h (reduction of double-precision elements, unreduced add/sub/dbl)
    if only is None:
        H.low_phase([d for d in (2, 3) if d in flist], nparams)
    # ---- phase 2: random cases per degree
    for d in sorted(flist):
        q, t = COUNTS[d]
        if pname in SWEEP_NAMES:
            t = q                   # larger primes, slower models: the sweep runs at the quick volume per prime
            n = ctx.n(q, t) // ctx.nshards
        else:
            n = ctx.n(q, t) // ctx.nshards // nparams
            if ctx.cfg == "asan256x":
                n = int(ctx.n(q, t) * 0.3) // ctx.nshards
            if only is not None:
                n = ctx.n(1500, 20000) if d in (6, 12) else ctx.n(300, 3000)
        fl = flist[d]
        w = [HEAVY.get(s, 1.0) * (3.0 if (s in BIN and BIN[s] == "mul") or (s in UN and UN[s] == "sqr") or s in DXS else 1.0)
             for s in fl]
        for _ in range(n):
            s = rng.choices(fl, w)[0]
            cl = H.classes(d, s)
            cls = rng.choice(cl)
            alias = rng.choice(H.aliases(s))
            R.poison = rng.randrange(1, 256)
            H.case(d, s, cls, alias, directed=False)
    ctx.note("inv_zero_" + pname, H.stats)


class Handlers(object):
    GEN = ["zero", "one", "basis", "sparse", "sub", "edge", "comp", "rnd", "rnd"]

    def __init__(self, T):
        self.T = T
        self.R = T.R
        self.ctx = T.ctx
        self.rng = T.rng
        self.stats = {}
        self.force = {}     # parameters fixed by a directed case (exponent, Frobenius power, ...)

    # ---------------------------------------------------------------- class lists
    def classes(self, d, s):
        T = self.T
        if s in CYC_UN or s in PCK_SQR or s in ("exp_cyc", "exp_cyc_sps", "back_cyc", "back_cyc_sim", "exp_cyc_sim"):
            return T.cyc_classes(d)
        if s in ("pck", "upk", "pck_max", "upk_max"):
            return T.cyc_classes(d) + ["rnd"]
        if s in ("test_cyc",):
            return T.cyc_classes(d) + ["rnd", "sub", "sparse", "basis", "zero"]
        if s in ("exp", "exp_dig"):
            return self.GEN + (T.cyc_classes(d) if T.has_cyc(d) else [])
        if s in ("inv", "inv_sim", "conv_cyc"):
            return [c for c in self.GEN if c != "zero"] + (["zero"] if s == "inv" else [])
        if s in ("zero", "set_dig"):
            return ["rnd"]
        return self.GEN

    def aliases(self, s):
        if s in BIN or s in DXS:
            return [0, 1, 2, 3, 4]
        if s in UNR or s in ("cmp", "cmp_dig", "is_zero", "is_sqr", "test_cyc", "zero", "set_dig", "exp_cyc_sim",
                             "copy_sec"):
            return [0]
        if s in ("inv_sim", "back_cyc_sim"):
            return [0, 1]
        return [0, 1]

    # ---------------------------------------------------------------- plumbing
    def put(self, ptr, d, v):
        self.R.fpx_put(ptr, v)

    def fk(self, key, what):
        """failure key: case key | input class, alias and other case parameters | what disagreed @ parameter set"""
        return "%s|%s|%s@%s;p%%8=%d" % (key, ",".join(self.tok), what, self.T.pname, self.T.p % 8)

    def verdict(self, key, ptr, d, exp, idxs=None):
        """value + canonical form of an output"""
        R, ctx = self.R, self.ctx
        got, canon = R.fpx_get(ptr, d)
        if idxs is None:
            ok = got == exp
        else:
            ok = all(got[i] == exp[i] for i in idxs)
        if not ok:
            bad = [i for i in (idxs if idxs is not None else range(d)) if got[i] != exp[i]]
            ctx.check(False, self.fk(key, "value"), {"coefficients": bad[:12], "got": [hx(got[i]) for i in bad[:4]],
                                              "exp": [hx(exp[i]) for i in bad[:4]]})
        else:
            ctx.check(True)
        if idxs is None:
            ctx.check(canon, self.fk(key, "canonical"), {"raw>=p": True})
        else:
            cz = all(R.fp_get(ptr + i * R.fp_sz)[1] for i in idxs)
            ctx.check(cz, self.fk(key, "canonical"), {"raw>=p": True})
        return ok

    def unchanged(self, key, ptr, n, before):
        self.ctx.check(self.R.get(ptr, n) == before, self.fk(key, "input-modified"))

    def noerr(self, key, res):
        if res.caught:
            self.ctx.check(False, self.fk(key, "unexpected-error"), {"err": res.err})
            return False
        return True

    def exps(self, d, cyc=False, dig=False):
        """-> (exponent, class) ; the expensive ones are rare and rarer in the big towers"""
        T, rng = self.T, self.rng
        heavy = {2: 0.5, 3: 0.5, 4: 0.35, 6: 0.3, 8: 0.25, 9: 0.25, 12: 0.15, 16: 0.05, 18: 0.06, 24: 0.03,
                 48: 0.0, 54: 0.0}[d]
        if dig:
            c = rng.choice(["e0", "e1", "e2", "e3", "small", "small", "dig", "dig", "top11", "allones"])
            if d >= 24 and c in ("dig", "allones"):
                c = "small"
        elif rng.random() < heavy:
            c = rng.choice(["p", "r", "big", "sparse", "negbig", "p-1", "dig2"])
        else:
            c = rng.choice(["e0", "e1", "e2", "e3", "small", "small", "neg1", "negsmall", "dig", "top11", "mid"])
            if d >= 24 and c in ("dig", "mid"):
                c = "small"
        p = T.p
        if c == "e0":
            return 0, c
        if c == "e1":
            return 1, c
        if c == "e2":
            return 2, c
        if c == "e3":
            return 3, c
        if c == "small":
            return rng.randrange(4, 1 << rng.choice([4, 8, 16])), c
        if c == "neg1":
            return -1, c
        if c == "negsmall":
            return -rng.randrange(2, 1 << 12), c
        if c == "dig":
            return rng.getrandbits(64) | (1 << 63) if rng.random() < 0.5 else rng.getrandbits(rng.randrange(17, 65)), c
        if c == "top11":
            # exponents whose two leading bits are set (the signed-digit form is one digit longer)
            n = rng.randrange(2, 20 if d >= 16 else 64)
            return (3 << (n - 2)) | rng.getrandbits(n - 2), c
        if c == "allones":
            return (1 << rng.randrange(2, 65)) - 1, c
        if c == "mid":
            return rng.getrandbits(rng.randrange(65, 130)) | (1 << 64), c
        if c == "dig2":
            return (1 << 64) + rng.getrandbits(8), c
        if c == "p":
            return p, c
        if c == "p-1":
            return p - 1, c
        if c == "r":
            return (T.r or (p + 1)), c
        if c == "big":
            return rng.getrandbits(T.fpbits - 1) | (1 << (T.fpbits - 2)), c
        if c == "negbig":
            return -(rng.getrandbits(p.bit_length() - 1)), c
        if c == "sparse":
            e = 0
            for _ in range(rng.randrange(1, 5)):
                e |= 1 << rng.randrange(p.bit_length())
            return e * rng.choice([1, 1, -1]), c
        raise KeyError(c)

    # ---------------------------------------------------------------- one case
    def case(self, d, s, cls, alias, directed):
        ctx = self.ctx
        try:
            self._case(d, s, cls, alias)
        except MonitorViolation as e:
            ctx.fail((ctx.cur_key or ("fp%d_%s" % (d, s))) + "|" + e.kind, e.detail)
        finally:
            ctx.end()

    def _case(self, d, s, cls, alias):
        T, R, ctx, rng = self.T, self.R, self.ctx, self.rng
        F = T.F[d]
        p = T.p
        fn = "fp%d_%s" % (d, s)
        o = T.objs(d)
        A, B, C = o["a"], o["b"], o["c"]
        sz = T.sz[d]
        a = T.flat(d, cls)
        if cls != "zero" and not any(a):
            a = [1] + [0] * (d - 1)        # only the class 'zero' yields the zero element
        ma = F.unflatten(a)
        key = "%s|%s" % (fn, GROUP.get(cls, "gen"))
        self.tok = [cls]
        desc = {"set": T.pname, "cls": cls, "alias": alias, "a": [hx(x) for x in a]}

        # ------------------------------------------------------------ binary
        if s in BIN:
            op = BIN[s]
            if alias in (3, 4):
                b = a
            elif cls in ("edge", "comp") and rng.random() < 0.6:
                b = T.complement(d, a)
            else:
                b = T.flat(d, rng.choice(self.GEN))
            self.tok.append("a%d" % alias)
            desc["b"] = [hx(x) for x in b]
            if not ctx.begin(key, desc, nontrivial=any(a) or any(b)):
                return
            mb = F.unflatten(b)
            exp = F.flatten({"add": F.add, "sub": F.sub, "mul": F.mul}[op](ma, mb))
            self.put(A, d, a)
            self.put(B, d, b)
            pa = A
            pb = A if alias in (3, 4) else B
            pc = {0: C, 1: A, 2: B, 3: C, 4: A}[alias]
            if pc == C:
                T.poison(C, sz)
            ba, bb = R.get(A, sz), R.get(B, sz)
            res = R.call(fn, pc, pa, pb)
            if not self.noerr(key, res):
                return
            self.verdict(key, pc, d, exp)
            if pc != A:
                self.unchanged(key, A, sz, ba)
            if pc != B and pb == B:
                self.unchanged(key, B, sz, bb)
            return

        # ------------------------------------------------------------ unary
        if s in UN or s in CYC_UN:
            op = UN.get(s) or CYC_UN[s]
            self.tok.append("a%d" % alias)
            if op == "inv" and not any(a):
                if not ctx.begin(key, desc, nontrivial=False):
                    return
                self.put(A, d, a)
                res = R.call(fn, C, A)
                k = "error" if res.caught else "no-error"
                self.stats[fn + "(0):" + k] = self.stats.get(fn + "(0):" + k, 0) + 1
                return
            if not ctx.begin(key, desc, nontrivial=any(a)):
                return
            if op == "neg":
                e = F.neg(ma)
            elif op == "dbl":
                e = F.add(ma, ma)
            elif op == "sqr":
                e = F.mul(ma, ma)
            elif op == "art":
                e = F.mul(ma, F.gen())
            elif op == "nor":
                nxt = T.M.nr.get(6 if d == 2 else 9)
                if nxt is None:
                    nxt = T.M.nr.get(4)
                e = F.mul(ma, nxt)
            elif op == "inv":
                e = F.inv(ma)
            else:
                e = ma
            exp = F.flatten(e)
            self.put(A, d, a)
            pc = A if alias else C
            if pc == C:
                T.poison(C, sz)
            ba = R.get(A, sz)
            res = R.call(fn, pc, A)
            if not self.noerr(key, res):
                return
            self.verdict(key, pc, d, exp)
            if pc != A:
                self.unchanged(key, A, sz, ba)
            return

        # ------------------------------------------------------------ compressed squaring
        if s in PCK_SQR:
            self.tok.append("a%d" % alias)
            if not ctx.begin(key, desc):
                return
            exp = F.flatten(F.mul(ma, ma))
            self.put(A, d, a)
            pc = A if alias else C
            if pc == C:
                T.poison(C, sz)
            ba = R.get(A, sz)
            res = R.call(fn, pc, A)
            if not self.noerr(key, res):
                return
            self.verdict(key, pc, d, exp, idxs=self.pck_idx(d))
            if pc != A:
                self.unchanged(key, A, sz, ba)
            return

        # ------------------------------------------------------------ sparse multiplication
        if s in DXS:
            shapes = dxs_shapes(d, T.dtype, "basic" in T.ep_add)
            if shapes is None:
                return
            shape = rng.choice(shapes)
            if alias in (3, 4):
                alias = 0
            allowed = set()
            for pth in shape:
                allowed.update(path_range(d, pth))
            bc = rng.choice(["rnd", "rnd", "edge", "sub", "sparse", "one", "comp"])
            b = T.flat(d, bc)
            b = [x if i in allowed else 0 for i, x in enumerate(b)]
            # the second alternative of fp16/fp24 is selected by a non-zero block
            if len(shapes) == 2 and shape is shapes[1]:
                sel = path_range(d, (1, 0) if d == 16 else (2,))
                if not any(b[i] for i in sel):
                    b[sel[0]] = rng.randrange(1, p)
            self.tok += ["shape%d" % shapes.index(shape), "D" if T.dtype else "M",
                         "affine" if "basic" in T.ep_add else "projective", "a%d" % alias]
            desc["b"] = [hx(x) for x in b]
            if not ctx.begin(key, desc, nontrivial=any(a) and any(b)):
                return
            exp = F.flatten(F.mul(ma, F.unflatten(b)))
            self.put(A, d, a)
            self.put(B, d, b)
            pc = {0: C, 1: A, 2: B}[alias]
            if pc == C:
                T.poison(C, sz)
            ba, bb = R.get(A, sz), R.get(B, sz)
            res = R.call(fn, pc, A, B)
            if not self.noerr(key, res):
                return
            self.verdict(key, pc, d, exp)
            if pc != A:
                self.unchanged(key, A, sz, ba)
            if pc != B:
                self.unchanged(key, B, sz, bb)
            return

        # ------------------------------------------------------------ unreduced products
        if s in UNR:
            op = UNR[s]
            b = a if op == "sqr" else (T.complement(d, a) if cls in ("edge", "comp") and rng.random() < 0.5
                                       else T.flat(d, rng.choice(self.GEN)))
            desc["b"] = [hx(x) for x in b]
            if not ctx.begin(key, desc, nontrivial=any(a)):
                return
            exp = F.flatten(F.mul(ma, F.unflatten(b)))
            self.put(A, d, a)
            self.put(B, d, b)
            DV = o["dv"]
            T.poison(DV, T.dvsz * d)
            ba = R.get(A, sz)
            res = R.call(fn, DV, A, B) if op == "mul" else R.call(fn, DV, A)
            if not self.noerr(key, res):
                return
            # each double-precision coefficient is congruent to (product coefficient) * radix^2
            n = 2 * R.FP_DIGS * R.DB
            m2 = R.mont * R.mont % p
            bad = []
            for i in range(d):
                t = int.from_bytes(R.get(DV + i * T.dvsz, n), "little")
                if t % p != exp[i] * m2 % p:
                    bad.append(i)
            ctx.check(not bad, self.fk(key, "value"), {"coefficients": bad[:12]})
            self.unchanged(key, A, sz, ba)
            return

        # ------------------------------------------------------------ digit operands
        if s in DIG or s in ("cmp_dig", "set_dig"):
            dg = rng.choice([0, 1, 2, 3, (1 << 63), (1 << 64) - 1, rng.getrandbits(64), rng.getrandbits(8), rng.getrandbits(31)])
            if s == "cmp_dig":
                if rng.random() < 0.6:
                    a = [dg % p] + [0] * (d - 1)
                    if rng.random() < 0.4:
                        a[rng.randrange(d)] = (a[0] + 1) % p if rng.random() < 0.5 else rng.randrange(p)
                    ma = F.unflatten(a)
                    desc["a"] = [hx(x) for x in a]
                    self.tok = ["embedded"]
                desc["dig"] = hx(dg)
                if not ctx.begin(key, desc):
                    return
                self.put(A, d, a)
                res = R.call(fn, A, dg)
                e = T.EQ if a == [dg % p] + [0] * (d - 1) else T.NE
                ctx.check(res.i == e and not res.caught, self.fk(key, "value"), {"got": res.i, "exp": e})
                return
            desc["dig"] = hx(dg)
            self.tok.append("a%d" % alias)
            if not ctx.begin(key, desc):
                return
            if s == "set_dig":
                T.poison(C, sz)
                res = R.call(fn, C, dg)
                if self.noerr(key, res):
                    self.verdict(key, C, d, [dg % p] + [0] * (d - 1))
                return
            op = DIG[s]
            if op == "mul":
                exp = [x * dg % p for x in a]
            else:
                exp = list(a)
                exp[0] = (a[0] + dg) % p if op == "add" else (a[0] - dg) % p
            self.put(A, d, a)
            pc = A if alias else C
            if pc == C:
                T.poison(C, sz)
            ba = R.get(A, sz)
            res = R.call(fn, pc, A, dg)
            if not self.noerr(key, res):
                return
            self.verdict(key, pc, d, exp)
            if pc != A:
                self.unchanged(key, A, sz, ba)
            return

        getattr(self, "h_" + s)(d, fn, cls, alias, a, ma, key, desc)

    # ---------------------------------------------------------------- compressed coordinates
    def pck_idx(self, d):
        """flat indices of the significant coefficients (g2..g5) of the compressed form"""
        if d in (12, 18, 48):
            paths = [(0, 1), (0, 2), (1, 0), (1, 2)]
        else:   # 24 = fp8[3], 54 = fp18[3]: c[0][0] and c[0][1]... see pck: the first level-2 element is dropped
            paths = None
        if paths is None:
            drop = set()
            for pth in ((0, 0), (0, 1)):
                drop.update(path_range(d, pth))
            return [i for i in range(d) if i not in drop]
        out = []
        for pth in paths:
            out.extend(path_range(d, pth))
        return sorted(out)

    # ---------------------------------------------------------------- predicates and utilities
    def h_is_zero(self, d, fn, cls, alias, a, ma, key, desc):
        ctx, R, T = self.ctx, self.R, self.T
        if not ctx.begin(key, desc):
            return
        self.put(T.objs(d)["a"], d, a)
        res = R.call(fn, T.objs(d)["a"])
        ctx.check(res.i == int(not any(a)) and not res.caught, self.fk(key, "value"), {"got": res.i})

    def h_cmp(self, d, fn, cls, alias, a, ma, key, desc):
        ctx, R, T, rng = self.ctx, self.R, self.T, self.rng
        o = T.objs(d)
        c = rng.randrange(3)
        if c == 0:
            b = list(a)
            rel = "equal"
        elif c == 1:
            b = list(a)
            i = rng.randrange(d)
            b[i] = (b[i] + rng.choice([1, T.p - 1, rng.randrange(1, T.p)])) % T.p
            rel = "one-coefficient"
        else:
            b = T.flat(d, rng.choice(self.GEN))
            rel = "other"
        self.tok.append(rel)
        desc["b"] = [hx(x) for x in b]
        if not ctx.begin(key, desc):
            return
        self.put(o["a"], d, a)
        self.put(o["b"], d, b)
        pb = o["a"] if (rel == "equal" and rng.random() < 0.3) else o["b"]
        res = R.call(fn, o["a"], pb)
        e = T.EQ if a == b else T.NE
        ctx.check(res.i == e and not res.caught, self.fk(key, "value"), {"got": res.i, "exp": e})

    def h_zero(self, d, fn, cls, alias, a, ma, key, desc):
        ctx, R, T = self.ctx, self.R, self.T
        if not ctx.begin(key, desc):
            return
        C = T.objs(d)["c"]
        T.poison(C, T.sz[d])
        res = R.call(fn, C)
        if self.noerr(key, res):
            self.verdict(key, C, d, [0] * d)

    def h_copy_sec(self, d, fn, cls, alias, a, ma, key, desc):
        ctx, R, T, rng = self.ctx, self.R, self.T, self.rng
        o = T.objs(d)
        b = T.flat(d, "rnd")
        bit = rng.randrange(2)
        self.tok.append("bit%d" % bit)
        if not ctx.begin(key, desc):
            return
        self.put(o["a"], d, a)
        self.put(o["c"], d, b)
        ba = R.get(o["a"], T.sz[d])
        res = R.call(fn, o["c"], o["a"], bit)
        if self.noerr(key, res):
            self.verdict(key, o["c"], d, a if bit else b)
            self.unchanged(key, o["a"], T.sz[d], ba)

    # ---------------------------------------------------------------- Frobenius
    def h_frb(self, d, fn, cls, alias, a, ma, key, desc):
        ctx, R, T, rng = self.ctx, self.R, self.T, self.rng
        F = T.F[d]
        o = T.objs(d)
        i = rng.choice(list(range(d + 1)) * 3 + [d + 1, 2 * d, 2 * d + 1])
        i = self.force.get("i", i)
        plain = rng.random() < {2: 0.3, 3: 0.3, 4: 0.1, 6: 0.1, 8: 0.04, 9: 0.04, 12: 0.02}.get(d, 0.0) and i <= d
        self.tok += [("i%d" % i) if i <= d else "i>deg", "a%d" % alias]
        desc["i"] = i
        if not ctx.begin(key, desc, nontrivial=any(a)):
            return
        if plain:
            e = ma
            for _ in range(i):
                e = F.pow(e, T.p)
            ctx.add("frobenius_by_plain_exponentiation", 1)
        else:
            e = T.frob[d].apply(ma, i)
        self.put(o["a"], d, a)
        pc = o["a"] if alias else o["c"]
        if not alias:
            T.poison(pc, T.sz[d])
        ba = R.get(o["a"], T.sz[d])
        res = R.call(fn, pc, o["a"], i)
        if not self.noerr(key, res):
            return
        self.verdict(key, pc, d, F.flatten(e))
        if not alias:
            self.unchanged(key, o["a"], T.sz[d], ba)

    def h_mul_frb(self, d, fn, cls, alias, a, ma, key, desc):
        ctx, R, T, rng = self.ctx, self.R, self.T, self.rng
        F = T.F[d]
        p = T.p
        o = T.objs(d)
        if d == 2:
            xi = T.M.nr.get(6) or T.M.nr.get(4)
            if xi is None:
                return
            i = rng.choice([1, 1, 2])
            j = rng.randrange(1, 6) if i == 1 else rng.randrange(1, 5)
            cst = F.pow(xi, j * ((p - 1) // 6)) if i == 1 else F.pow(xi, p // [4, 8, 12, 24][j - 1])
        elif d == 3:
            nu = T.M.nr.get(9)
            if nu is None:
                return
            i = rng.choice([0, 1, 1, 2])
            if i == 0:
                j = rng.randrange(1, 3)
                cst = None
            elif i == 1:
                j = rng.randrange(1, 6)
                cst = F.pow(nu, j * (p // 6))
            else:
                j = rng.randrange(1, 3)
                cst = F.pow(nu, p // (9 * j))
        elif d == 4:
            # (fp8_mul_frb / fp16_mul_frb: constants only meaningful for the k = 48 family; no independent meaning to test)
            i = 1
            j = rng.randrange(1, 4)
            cst = F.pow(F.gen(), j * ((p - 1) // 6))
        else:
            return
        self.tok += ["i%d" % i, "j%d" % j, "a%d" % alias]
        desc["ij"] = [i, j]
        if not ctx.begin(key, desc, nontrivial=any(a)):
            return
        e = T.frob[d].apply(ma, j) if cst is None else F.mul(ma, cst)
        self.put(o["a"], d, a)
        pc = o["a"] if alias else o["c"]
        if not alias:
            T.poison(pc, T.sz[d])
        res = R.call(fn, pc, o["a"], i, j)
        if not self.noerr(key, res):
            return
        self.verdict(key, pc, d, F.flatten(e))

    # ---------------------------------------------------------------- exponentiation
    def _exp_common(self, d, fn, a, ma, key, desc, alias, e, ecls, extra=()):
        ctx, R, T = self.ctx, self.R, self.T
        F = T.F[d]
        o = T.objs(d)
        self.tok += [ecls, "a%d" % alias]
        desc["e"] = hx(e)
        if e < 0 and not any(a):
            return
        if not ctx.begin(key, desc, nontrivial=any(a), budget=300):
            return
        exp = F.flatten(F.pow(ma, e))
        self.put(o["a"], d, a)
        R.bn_put(T.bnk, e)
        pc = o["a"] if alias else o["c"]
        if not alias:
            T.poison(pc, T.sz[d])
        ba = R.get(o["a"], T.sz[d])
        res = R.call(fn, pc, o["a"], T.bnk)
        if res.caught:
            # the signed-digit recoding buffers hold RLC_FP_BITS + 1 digits: longer exponents are rejected with an error
            ctx.check(abs(e).bit_length() > T.fpbits, self.fk(key, "unexpected-error"), {"err": res.err})
            return
        self.verdict(key, pc, d, exp)
        if not alias:
            self.unchanged(key, o["a"], T.sz[d], ba)
        v = R.bn_get(T.bnk)
        ctx.check(v[0] == e, self.fk(key, "input-modified"))

    def h_exp(self, d, fn, cls, alias, a, ma, key, desc):
        e, ecls = self.exps(d)
        if "e" in self.force:
            e, ecls = self.force["e"], "small"
        self._exp_common(d, fn, a, ma, key, desc, alias, e, ecls)

    def h_exp_cyc(self, d, fn, cls, alias, a, ma, key, desc):
        e, ecls = self.exps(d, cyc=True)
        self._exp_common(d, fn, a, ma, key, desc, alias, e, ecls)

    def h_exp_dig(self, d, fn, cls, alias, a, ma, key, desc):
        ctx, R, T = self.ctx, self.R, self.T
        F = T.F[d]
        o = T.objs(d)
        e, ecls = self.exps(d, dig=True)
        e = self.force.get("e", e)
        if e == "random-naf+1":
            n = self.rng.randrange(3, 65)
            e = (3 << (n - 2)) | self.rng.getrandbits(n - 2)      # leading bits 11: the NAF is one digit longer
        if "fn" in self.force and R.has(self.force["fn"]):
            fn = self.force["fn"]                                  # dispatch macro of the pc layer (gt_exp_dig)
        e &= (1 << 64) - 1
        if e and (3 * e).bit_length() == e.bit_length() + 2:
            ecls = "naf+1"          # the non-adjacent form is one digit longer than the binary expansion
        self.tok += [ecls, "a%d" % alias]
        desc["e"] = hx(e)
        if not ctx.begin(key, desc, nontrivial=any(a), budget=300):
            return
        exp = F.flatten(F.pow(ma, e))
        self.put(o["a"], d, a)
        pc = o["a"] if alias else o["c"]
        if not alias:
            T.poison(pc, T.sz[d])
        res = R.call(fn, pc, o["a"], e)
        if not self.noerr(key, res):
            return
        self.verdict(key, pc, d, exp)

    def h_exp_cyc_sps(self, d, fn, cls, alias, a, ma, key, desc):
        ctx, R, T, rng = self.ctx, self.R, self.T, self.rng
        F = T.F[d]
        o = T.objs(d)
        maxbit = {12: 70, 18: 40, 24: 24, 48: 8, 54: 8}.get(d, 16)
        mode = rng.choice(["empty", "one", "first0", "first0", "general", "general", "par"])
        sign = rng.choice([R.K["RLC_POS"], R.K["RLC_POS"], R.K["RLC_NEG"]])
        if mode == "par" and R.has("fp_prime_get_par_sps") and d in (12, 24, 48, 18, 54):
            ln = ctypes.c_int(0)
            R.L.fp_prime_get_par_sps.restype = ctypes.c_void_p
            ptr = R.L.fp_prime_get_par_sps(ctypes.byref(ln))
            b = [ctypes.c_int.from_address(ptr + 4 * i).value for i in range(ln.value)] if ptr else []
            if not b or (d > 12 and max(abs(x) for x in b) > 70):
                mode = "general"
        if mode == "empty":
            b = []
        elif mode == "one":
            b = [rng.choice([0, 1, rng.randrange(1, maxbit)])]
        elif mode in ("first0", "general"):
            n = rng.randrange(2, 6)
            pos = sorted(rng.sample(range(1, maxbit), min(n, maxbit - 1)))
            b = [x * rng.choice([1, 1, -1]) for x in pos]
            if mode == "first0":
                b = [0] + b
        e = 0
        for x in b:
            e += (1 << abs(x)) * (-1 if x < 0 else 1)
        if sign == R.K["RLC_NEG"]:
            e = -e
        self.tok += [mode, "a%d" % alias]
        desc["sps"] = b
        desc["sign"] = sign
        if not ctx.begin(key, desc, budget=300):
            return
        exp = F.flatten(F.pow(ma, e))
        self.put(o["a"], d, a)
        raw = b"".join((x & 0xFFFFFFFF).to_bytes(4, "little") for x in b)
        bp = R.put(raw)
        pc = o["a"] if alias else o["c"]
        if not alias:
            T.poison(pc, T.sz[d])
        try:
            res = R.call(fn, pc, o["a"], bp, len(b), sign)
        finally:
            R.free(bp)
        if not self.noerr(key, res):
            return
        self.verdict(key, pc, d, exp)

    def h_exp_cyc_sim(self, d, fn, cls, alias, a, ma, key, desc):
        ctx, R, T, rng = self.ctx, self.R, self.T, self.rng
        F = T.F[d]
        o = T.objs(d)
        # the order-r decomposition path needs elements of the prime-order subgroup
        if d == 12 and not T.r:
            return          # no pairing curve is active (plain primes, sweep): the routine reads the curve order
        if d == 12 and T.r:
            cls = "ordr"
            a = T.flat(d, "ordr")
            ma = F.unflatten(a)
            b = T.flat(d, "ordr")
            key = "%s|cyclo" % fn
            self.tok = ["ordr"]
        else:
            b = T.flat(d, cls if cls != "one" else T.cyc_classes(d)[0])
        e1, c1 = self.exps(d)
        e2, c2 = self.exps(d)
        if "e12" in self.force:
            e1, e2 = self.force["e12"] if not isinstance(self.force["e12"], str) else (
                (rng.randrange(1, T.r), -rng.randrange(1, T.r)) if self.force["e12"] == "random-pn"
                else (-rng.randrange(1, T.r), rng.randrange(1, T.r)))
        sg = ("n" if e1 < 0 else ("z" if e1 == 0 else "p")) + ("n" if e2 < 0 else ("z" if e2 == 0 else "p"))
        self.tok.append(sg)
        desc.update({"a": [hx(x) for x in a], "b": [hx(x) for x in b], "e1": hx(e1), "e2": hx(e2)})
        if not ctx.begin(key, desc, budget=300):
            return
        mb = F.unflatten(b)
        exp = F.flatten(F.mul(F.pow(ma, e1), F.pow(mb, e2)))
        self.put(o["a"], d, a)
        self.put(o["b"], d, b)
        R.bn_put(T.bnk, e1)
        R.bn_put(T.bnk2, e2)
        T.poison(o["c"], T.sz[d])
        res = R.call(fn, o["c"], o["a"], T.bnk, o["b"], T.bnk2)
        if res.caught:
            ctx.check(max(abs(e1), abs(e2)).bit_length() > T.fpbits, self.fk(key, "unexpected-error"), {"err": res.err})
            return
        self.verdict(key, o["c"], d, exp)

    # ---------------------------------------------------------------- inversion of several elements
    def h_inv_sim(self, d, fn, cls, alias, a, ma, key, desc):
        ctx, R, T, rng = self.ctx, self.R, self.T, self.rng
        F = T.F[d]
        o = T.objs(d)
        n = rng.choice([1, 1, 2, 3, 6])      # n == 0: see fatal_inv_sim_n0
        els = [a] + [T.flat(d, rng.choice([c for c in self.GEN if c != "zero"])) for _ in range(5)]
        els = [e if any(e) else [1] + [0] * (d - 1) for e in els[:n]]
        self.tok += ["n%s" % (n if n < 2 else "many"), "a%d" % alias]
        desc["n"] = n
        desc["els"] = [[hx(x) for x in e] for e in els[1:]]
        if not ctx.begin(key, desc, nontrivial=n > 0):
            return
        sz = T.sz[d]
        AA, CC = o["arr_a"], o["arr_c"]
        T.poison(AA, sz * 6)
        T.poison(CC, sz * 6)
        for i, e in enumerate(els):
            R.fpx_put(AA + i * sz, e)
        before = R.get(AA, sz * 6)
        pc = AA if alias else CC
        res = R.call(fn, pc, AA, n)
        if not self.noerr(key, res):
            return
        for i, e in enumerate(els):
            self.verdict(key, pc + i * sz, d, F.flatten(F.inv(F.unflatten(e))))
        # nothing beyond the n-th element is touched
        ctx.check(R.get(pc + n * sz, (6 - n) * sz) == bytes([R.poison]) * ((6 - n) * sz), self.fk(key, "wrote-beyond-n"))
        if not alias:
            ctx.check(R.get(AA, sz * 6) == before, self.fk(key, "input-modified"))

    # ---------------------------------------------------------------- square roots
    def h_is_sqr(self, d, fn, cls, alias, a, ma, key, desc):
        ctx, R, T, rng = self.ctx, self.R, self.T, self.rng
        F = T.F[d]
        o = T.objs(d)
        if (rng.random() < 0.4 or self.force.get("square")) and any(a):
            ma = F.mul(ma, ma)
            a = F.flatten(ma)
            desc["a"] = [hx(x) for x in a]
            self.tok.append("square")
        if not ctx.begin(key, desc, nontrivial=any(a)):
            return
        self.put(o["a"], d, a)
        res = R.call(fn, o["a"])
        if not self.noerr(key, res):
            return
        if not any(a):
            ctx.add("is_sqr_of_zero_returns_%d" % res.i, 1)   # convention not documented: not judged
            return
        e = int(is_square(F, ma))
        ctx.check(res.i == e, self.fk(key, "value"), {"got": res.i, "exp": e})

    def h_srt(self, d, fn, cls, alias, a, ma, key, desc):
        ctx, R, T, rng = self.ctx, self.R, self.T, self.rng
        F = T.F[d]
        o = T.objs(d)
        if rng.random() < 0.5 and any(a):
            ma = F.mul(ma, ma)
            a = F.flatten(ma)
            desc["a"] = [hx(x) for x in a]
            self.tok.append("square")
        self.tok.append("a%d" % alias)
        if not ctx.begin(key, desc, nontrivial=any(a)):
            return
        self.put(o["a"], d, a)
        pc = o["a"] if alias else o["c"]
        if not alias:
            T.poison(pc, T.sz[d])
        res = R.call(fn, pc, o["a"])
        if not self.noerr(key, res):
            return
        e = int(is_square(F, ma))
        ctx.check(res.i == e, self.fk(key, "flag"), {"got": res.i, "exp": e})
        if res.i == 1 and e == 1:
            got, canon = R.fpx_get(pc, d)
            rt = F.unflatten(got)
            ctx.check(F.flatten(F.mul(rt, rt)) == a, self.fk(key, "value"), {"root": [hx(x) for x in got[:4]]})
            ctx.check(canon, self.fk(key, "canonical"))

    # ---------------------------------------------------------------- cyclotomic subgroup
    def h_conv_cyc(self, d, fn, cls, alias, a, ma, key, desc):
        ctx, R, T = self.ctx, self.R, self.T
        F = T.F[d]
        o = T.objs(d)
        self.tok.append("a%d" % alias)
        if not ctx.begin(key, desc):
            return
        exp = F.flatten(T.easy_part(d, ma))
        self.put(o["a"], d, a)
        pc = o["a"] if alias else o["c"]
        if not alias:
            T.poison(pc, T.sz[d])
        res = R.call(fn, pc, o["a"])
        if not self.noerr(key, res):
            return
        self.verdict(key, pc, d, exp)

    def h_test_cyc(self, d, fn, cls, alias, a, ma, key, desc):
        ctx, R, T, rng = self.ctx, self.R, self.T, self.rng
        F = T.F[d]
        o = T.objs(d)
        if cls in ("cyc", "uni", "ordr") and rng.random() < 0.3 and not self.force:
            # a near miss: one coefficient changed
            a = list(a)
            i = rng.randrange(d)
            a[i] = (a[i] + 1) % T.p
            ma = F.unflatten(a)
            self.tok.append("near-miss")
            desc["a"] = [hx(x) for x in a]
        elif d in (12, 18, 24, 48, 54) and cls == "rnd" and rng.random() < 0.5:
            # unitary but not cyclotomic
            ma = T.unitary(d, ma)
            a = F.flatten(ma)
            self.tok.append("unitary-only")
            desc["a"] = [hx(x) for x in a]
        if not ctx.begin(key, desc):
            return
        # membership in the model: x^(p^(d/2)) * x == 1 and, with a cubic level, x^(p^(d/3)) * x == x^(p^(d/6))
        fr = T.frob[d]
        e = F.eq(F.mul(fr.apply(ma, d // 2), ma), F.one)
        if e and d in (12, 18, 24, 48, 54):
            e = F.eq(F.mul(fr.apply(ma, d // 3), ma), fr.apply(ma, d // 6))
        self.put(o["a"], d, a)
        res = R.call(fn, o["a"])
        if not self.noerr(key, res):
            return
        ctx.check(res.i == int(e), self.fk(key, "value"), {"got": res.i, "exp": int(e)})

    def _compressed(self, d, a, keep):
        """compressed form of the cyclotomic element a: g2..g5 kept; the rest kept (as the library's own callers leave
        it), or replaced by junk (not part of the representation) unless the element is the unit"""
        idx = set(self.pck_idx(d))
        if keep or a == [1] + [0] * (d - 1):
            return list(a)
        return [x if i in idx else self.rng.randrange(self.T.p) for i, x in enumerate(a)]

    def h_back_cyc(self, d, fn, cls, alias, a, ma, key, desc):
        ctx, R, T, rng = self.ctx, self.R, self.T, self.rng
        o = T.objs(d)
        keep = self.force.get("keep", rng.random() < 0.5)
        self.tok += ["kept" if keep else "junk", "a%d" % alias]
        comp = self._compressed(d, a, keep)
        desc["compressed"] = [hx(x) for x in comp]
        if not ctx.begin(key, desc):
            return
        self.put(o["a"], d, comp)
        pc = o["a"] if alias else o["c"]
        if not alias:
            T.poison(pc, T.sz[d])
        res = R.call(fn, pc, o["a"])
        if not self.noerr(key, res):
            return
        self.verdict(key, pc, d, a)

    def h_back_cyc_sim(self, d, fn, cls, alias, a, ma, key, desc):
        ctx, R, T, rng = self.ctx, self.R, self.T, self.rng
        o = T.objs(d)
        n = rng.choice([0, 1, 2, 3, 5])
        els = ([a] + [T.flat(d, rng.choice(T.cyc_classes(d))) for _ in range(4)])[:n]
        keep = rng.random() < 0.5
        self.tok += ["n%s" % (n if n < 2 else "many"), "kept" if keep else "junk", "a%d" % alias]
        desc["n"] = n
        if not ctx.begin(key, desc, nontrivial=n > 0):
            return
        sz = T.sz[d]
        AA, CC = o["arr_a"], o["arr_c"]
        T.poison(AA, sz * 6)
        T.poison(CC, sz * 6)
        for i, e in enumerate(els):
            R.fpx_put(AA + i * sz, self._compressed(d, e, keep))
        pc = AA if alias else CC
        res = R.call(fn, pc, AA, n)
        if not self.noerr(key, res):
            return
        for i, e in enumerate(els):
            self.verdict(key, pc + i * sz, d, e)
        ctx.check(R.get(pc + n * sz, (6 - n) * sz) == bytes([R.poison]) * ((6 - n) * sz), self.fk(key, "wrote-beyond-n"))

    # ---------------------------------------------------------------- compression round trips
    def _roundtrip(self, d, fn_p, fn_u, a, key, desc, alias):
        ctx, R, T = self.ctx, self.R, self.T
        o = T.objs(d)
        if not ctx.begin(key, desc):
            return
        self.put(o["a"], d, a)
        T.poison(o["c"], T.sz[d])
        T.poison(o["e"], T.sz[d])
        res = R.call(fn_p, o["c"], o["a"])
        if res.caught and fn_p.endswith("pck_max") and a == [1] + [0] * (d - 1):
            # torus compression (1 + a0)/a1 does not exist for the unit element: a rejection is not a violation
            ctx.add("pck_max_of_one_rejected", 1)
            return
        if not self.noerr(key, res):
            return
        got, canon = R.fpx_get(o["c"], d)
        ctx.check(canon, self.fk(key, "canonical"))
        pu = o["c"] if alias else o["e"]
        res = R.call(fn_u, pu, o["c"])
        if not self.noerr(key, res):
            return
        if ctx.check(res.i == 1, self.fk(key, "flag"), {"got": res.i}):
            self.verdict(key, pu, d, a)

    def _ambiguous(self, d, a, cls):
        """a dense element that the decompressor would take for a compressed one (format ambiguity, not judged)"""
        R = self.R
        if d == 2:
            raw = a[1] * R.mont % R.p
            return raw <= 1 and cls not in ("uni", "one")
        return False

    def h_pck(self, d, fn, cls, alias, a, ma, key, desc):
        if not self.R.has("fp%d_upk" % d) or self._ambiguous(d, a, cls):
            return
        if cls == "rnd":
            # not cyclotomic: left uncompressed; the decompressor recognises a compressed element by its zero blocks
            pass
        self.tok.append("a%d" % alias)
        self._roundtrip(d, fn, "fp%d_upk" % d, a, key, desc, alias)

    def h_upk(self, d, fn, cls, alias, a, ma, key, desc):
        # exercised through the round trip of pck (counted under both names)
        self.h_pck(d, "fp%d_pck" % d, cls, alias, a, ma, key, desc)

    def h_pck_max(self, d, fn, cls, alias, a, ma, key, desc):
        if not self.R.has("fp%d_upk_max" % d):
            return
        self.tok.append("a%d" % alias)
        self._roundtrip(d, fn, "fp%d_upk_max" % d, a, key, desc, alias)

    def h_upk_max(self, d, fn, cls, alias, a, ma, key, desc):
        self.h_pck_max(d, "fp%d_pck_max" % d, cls, alias, a, ma, key, desc)

    # ---------------------------------------------------------------- the layer below relic_fpx.h
    # fpN_rdc_basic / fpN_rdc_integ (src/fpx/relic_fpx_rdc.c; contract of fpN_rdcn_low / fp_rdc: every coefficient of the
    # double-precision element is reduced modulo p - with Montgomery reduction c_i = T_i * R^-1 mod p for T_i < p * R,
    # R = 2^(RLC_DIG * RLC_FP_DIGS)) and the coefficient-wise fpN_{add,sub,dbl}{n,d}_low of relic_fpx_low.h
    # ("Computes c = a + b / a - b / a + a" on single (n) or double (d) precision digit vectors, no reduction): judged as
    # plain integers, with operands for which the result fits the digit vector and is not negative.
    RDC_CLASSES = ["zero", "prod", "prod-edge", "sqr-p-1", "max", "near-max", "mult-p", "R-1", "R-edge", "digits", "rnd",
                   "mixed"]
    LOW_OPS = [("addn", "add", 1), ("addd", "add", 2), ("subn", "sub", 1), ("subd", "sub", 2), ("dbln", "dbl", 1)]
    LOW_CLASSES = {"add": ["zero", "ident", "carry", "max", "field", "rnd"],
                   "sub": ["zero", "equal", "ident", "borrow", "max", "field", "rnd"],
                   "dbl": ["zero", "carry", "max", "field", "rnd"]}

    def low_phase(self, degs, nparams):
        ctx, R, T, rng = self.ctx, self.R, self.T, self.rng
        if not degs:
            return
        self.dvpool = {}
        rdc_target = R.target("fp_rdc") if R.has("fp_rdc") else ""
        monty = "monty" in rdc_target and R.mont != 1
        ctx.note("fp_rdc_dispatch_" + ctx.cfg, rdc_target)
        rdc, low, missing = [], [], []
        for d in degs:
            for s in ("rdc_basic", "rdc_integ"):
                fn = "fp%d_%s" % (d, s)
                (rdc if R.has(fn) else missing).append((d, fn))
            for s, op, prec in self.LOW_OPS:
                fn = "fp%d_%s_low" % (d, s)
                if R.has(fn):
                    low.append((d, fn, op, prec))
                else:
                    missing.append((d, fn))
        if missing:
            ctx.note("low_level_not_built", sorted(fn for _, fn in missing))
        if not monty:
            # the value of a non-Montgomery reduction (T mod p) has another domain; not claimed here
            ctx.note("rdc_not_judged_reduction_is_not_montgomery_" + ctx.cfg, rdc_target)
            rdc = []
        # directed: every (function, class[, alias]) once, split over the shards
        k = 0
        for d, fn in rdc:
            for cls in self.RDC_CLASSES:
                k += 1
                if ctx.mine(k):
                    self.low_case(self.rdc_case, d, fn, cls)
        for d, fn, op, prec in low:
            for cls in self.LOW_CLASSES[op]:
                for alias in ((0, 1) if op == "dbl" else (0, 1, 2)):
                    k += 1
                    if ctx.mine(k):
                        self.low_case(self.addsub_case, d, fn, op, prec, cls, alias)
        # random
        q, t = 1600, 30000
        if T.pname in SWEEP_NAMES:
            n = ctx.n(q, q) // ctx.nshards
        elif ctx.cfg == "asan256x":
            n = int(ctx.n(q, t) * 0.3) // ctx.nshards
        else:
            n = ctx.n(q, t) // ctx.nshards // nparams
        for _ in range(n):
            R.poison = rng.randrange(1, 256)
            if rdc and rng.random() < 0.6:
                d, fn = rng.choice(rdc)
                self.low_case(self.rdc_case, d, fn, rng.choice(self.RDC_CLASSES))
            elif low:
                d, fn, op, prec = rng.choice(low)
                self.low_case(self.addsub_case, d, fn, op, prec, rng.choice(self.LOW_CLASSES[op]),
                              rng.randrange(2 if op == "dbl" else 3))

    def low_case(self, f, *args):
        ctx = self.ctx
        try:
            f(*args)
        except MonitorViolation as e:
            ctx.fail((ctx.cur_key or args[1]) + "|" + e.kind, e.detail)
        finally:
            ctx.end()

    def dvs(self, d):
        """three double-precision elements (dvN_t = d consecutive dv_t), exact-size blocks"""
        o = self.dvpool.get(d)
        if o is None:
            o = tuple(self.R.mem(self.T.dvsz * d, 0x5A) for _ in range(3))
            self.dvpool[d] = o
        return o

    def dv_put(self, ptr, vals, ndig):
        """the first ndig digits of every dv_t hold the value, the rest of the dv_t the poison byte"""
        R, T = self.R, self.T
        n = ndig * R.DB
        for i, v in enumerate(vals):
            raw = v.to_bytes(n, "little") + bytes([R.poison]) * (T.dvsz - n)
            ctypes.memmove(ptr + i * T.dvsz, raw, T.dvsz)

    def rdc_value(self, cls):
        """one double-precision coefficient T < p * R of the class"""
        rng, R, p = self.rng, self.R, self.T.p
        W = R.DIG * R.FP_DIGS
        Rr = 1 << W
        lim = p * Rr
        if cls == "zero":
            return 0
        if cls == "prod":
            return rng.randrange(p) * rng.randrange(p)
        if cls == "prod-edge":
            ev = [1, 2, p - 1, p - 2, (p - 1) // 2, (p + 1) // 2, 1 << (p.bit_length() - 1), (1 << (p.bit_length() - 1)) - 1,
                  (1 << R.DIG) - 1, 1 << R.DIG, p - (1 << R.DIG), Rr % p, (Rr - 1) % p]
            return rng.choice(ev) * rng.choice(ev + [rng.randrange(p)])
        if cls == "sqr-p-1":
            return (p - 1) * (p - 1)
        if cls == "max":
            return lim - 1
        if cls == "near-max":
            return lim - 1 - rng.randrange(1, 1 << rng.choice([1, 8, R.DIG, W, W + R.DIG]))
        if cls == "mult-p":
            return p * rng.choice([1, 2, 3, Rr - 1, Rr - 2, (1 << R.DIG) - 1, 1 << R.DIG, rng.randrange(1, Rr),
                                   rng.randrange(1, Rr)])
        if cls == "R-1":
            return Rr - 1
        if cls == "R-edge":
            return rng.choice([Rr, Rr + 1, Rr - 2, 2 * Rr - 1, (p - 1) * Rr, Rr * rng.randrange(1, p),
                               Rr * rng.randrange(1, p) + Rr - 1, rng.randrange(Rr)])
        if cls == "digits":
            # every digit zero, all ones or random; the upper half is brought below p by clearing its leading bits
            v = 0
            for i in range(2 * R.FP_DIGS):
                v |= rng.choice([0, R.B - 1, R.B - 1, rng.getrandbits(R.DIG)]) << (R.DIG * i)
            hi = v >> W
            if hi >= p:
                hi &= (1 << (p.bit_length() - 1)) - 1
            return (hi << W) | (v & (Rr - 1))
        if cls == "rnd":
            return rng.randrange(lim)
        raise KeyError(cls)

    def rdc_case(self, d, fn, cls):
        ctx, R, T, rng = self.ctx, self.R, self.T, self.rng
        p = T.p
        W = R.DIG * R.FP_DIGS
        if cls == "mixed":
            vals = [self.rdc_value(c) for c in rng.sample([c for c in self.RDC_CLASSES if c != "mixed"], d)]
        else:
            vals = [self.rdc_value(cls) for _ in range(d)]
        key = "%s|%s" % (fn, cls)
        self.tok = ["monty"]
        if not ctx.begin(key, {"set": T.pname, "cls": cls, "T": [hx(v) for v in vals]}, nontrivial=any(vals)):
            return
        A = self.dvs(d)[0]
        C = T.objs(d)["c"]
        self.dv_put(A, vals, 2 * R.FP_DIGS)
        T.poison(C, T.sz[d])
        before = R.get(A, T.dvsz * d)
        res = R.call(fn, C, A)
        if not self.noerr(key, res):
            return
        rinv = pow(1 << W, -1, p)
        exp = [v * rinv % p for v in vals]
        raw = [R.fp_raw(C + i * R.fp_sz) for i in range(d)]
        bad = [i for i in range(d) if raw[i] % p != exp[i]]
        ctx.check(not bad, self.fk(key, "value"), {"coefficients": bad, "got": [hx(raw[i]) for i in bad],
                                                   "exp": [hx(exp[i]) for i in bad]})
        ctx.check(all(x < p for x in raw), self.fk(key, "canonical"), {"raw>=p": [i for i in range(d) if raw[i] >= p]})
        if R.target("fp_rdc") != "fp_rdc_monty_basic":     # (that variant reduces in place, by its algorithm)
            self.unchanged(key, A, T.dvsz * d, before)

    def low_pair(self, op, cls, W, prec):
        """operands of one coefficient as plain integers: a + b < 2^W, a >= b, 2a < 2^W respectively"""
        rng, R, p = self.rng, self.R, self.T.p
        top = 1 << W
        fld = (lambda: rng.randrange(p)) if prec == 1 else (lambda: rng.randrange(p) * rng.randrange(p))
        if cls == "zero":
            return 0, 0
        if op == "add":
            if cls == "ident":
                a, b = rng.randrange(top), 0
                return (a, b) if rng.random() < 0.5 else (b, a)
            if cls == "carry":
                k = R.DIG * rng.randrange(1, W // R.DIG) if rng.random() < 0.7 else rng.randrange(1, W)
                a, b = (1 << k) - 1, 1
                if rng.random() < 0.5:
                    b += rng.randrange(top - (1 << k)) >> k << k        # upper digits of b: the sum still fits
                return (a, b) if rng.random() < 0.5 else (b, a)
            if cls == "max":
                a = rng.randrange(top)
                return a, top - 1 - a
            if cls == "field":
                a, b = fld(), fld()
                return a, min(b, top - 1 - a)
            a = rng.randrange(top)
            return a, rng.randrange(top - a)
        if op == "sub":
            if cls == "equal":
                a = rng.randrange(1, top)
                return a, a
            if cls == "ident":
                return rng.randrange(top), 0
            if cls == "borrow":
                k = R.DIG * rng.randrange(1, W // R.DIG) if rng.random() < 0.7 else rng.randrange(1, W)
                a = 1 << k
                if rng.random() < 0.5:
                    a += rng.randrange(top) >> k << k
                    a = a if a < top else (1 << k)
                return a, rng.choice([1, 1, rng.randrange(1, 1 << min(k, R.DIG))])
            if cls == "max":
                return top - 1, rng.randrange(top)
            if cls == "field":
                a, b = fld(), fld()
                return (a, b) if a >= b else (b, a)
            a = rng.randrange(top)
            return a, rng.randrange(a + 1)
        # dbl
        if cls == "carry":
            a = rng.getrandbits(W - 1)
            for i in range(W // R.DIG - 1):
                if rng.random() < 0.8:
                    a |= 1 << (R.DIG * i + R.DIG - 1)       # the doubled digit carries into the next one
            return a, a
        if cls == "max":
            return (top >> 1) - 1, 0
        if cls == "field":
            a = fld()
            return (a if 2 * a < top else a >> 1), 0
        return rng.getrandbits(W - 1), 0

    def addsub_case(self, d, fn, op, prec, cls, alias):
        ctx, R, T, rng = self.ctx, self.R, self.T, self.rng
        ndig = prec * R.FP_DIGS
        W = R.DIG * ndig
        pairs = [self.low_pair(op, cls, W, prec) for _ in range(d)]
        a = [x for x, _ in pairs]
        b = [y for _, y in pairs]
        key = "%s|%s" % (fn, cls)
        self.tok = ["a%d" % alias]
        desc = {"set": T.pname, "cls": cls, "alias": alias, "a": [hx(x) for x in a]}
        if op != "dbl":
            desc["b"] = [hx(x) for x in b]
        if not ctx.begin(key, desc, nontrivial=any(a) or any(b)):
            return
        if prec == 1:
            o = T.objs(d)
            A, B, C = o["a"], o["b"], o["c"]
            stride, total = R.fp_sz, T.sz[d]
            for i in range(d):
                R.fp_put_raw(A + i * stride, a[i])
                R.fp_put_raw(B + i * stride, b[i])
        else:
            A, B, C = self.dvs(d)
            stride, total = T.dvsz, T.dvsz * d
            self.dv_put(A, a, ndig)
            self.dv_put(B, b, ndig)
        pc = {0: C, 1: A, 2: B}[alias]
        if pc == C:
            T.poison(C, total)
        ba, bb = R.get(A, total), R.get(B, total)
        res = R.call(fn, pc, A) if op == "dbl" else R.call(fn, pc, A, B)
        if not self.noerr(key, res):
            return
        if op == "add":
            exp = [x + y for x, y in zip(a, b)]
        elif op == "sub":
            exp = [x - y for x, y in zip(a, b)]
        else:
            exp = [2 * x for x in a]
        n = ndig * R.DB
        got = [int.from_bytes(R.get(pc + i * stride, n), "little") for i in range(d)]
        bad = [i for i in range(d) if got[i] != exp[i]]
        ctx.check(not bad, self.fk(key, "value"), {"coefficients": bad, "got": [hx(got[i]) for i in bad],
                                                   "exp": [hx(exp[i]) for i in bad]})
        if pc != A:
            self.unchanged(key, A, total, ba)
        if pc != B and op != "dbl":
            self.unchanged(key, B, total, bb)

    # ---------------------------------------------------------------- directed fatal classes
    def fatal_inv_sim_n0(self, d):
        ctx, R, T = self.ctx, self.R, self.T
        key = "fp%d_inv_sim|n0" % d
        try:
            if not ctx.begin(key, {"set": T.pname, "n": 0}, nontrivial=False):
                return
            o = T.objs(d)
            sz = T.sz[d]
            # zero-length arrays: exact-size blocks of one byte, so that any access is out of bounds
            pa, pc = R.mem(0), R.mem(0)
            res = R.call("fp%d_inv_sim" % d, pc, pa, 0)
            R.free(pa)
            R.free(pc)
            self.tok = ["n0"]
            ctx.check(not res.caught, self.fk(key, "unexpected-error"), {"err": res.err})
        except MonitorViolation as e:
            ctx.fail(key + "|" + e.kind, e.detail)
        finally:
            ctx.end()

    def fatal_fp54_frb(self):
        ctx, R, T = self.ctx, self.R, self.T
        key = "fp54_frb|directed"
        try:
            if not ctx.begin(key, {"set": T.pname, "i": 1}):
                return
            F = T.F[54]
            o = T.objs(54)
            a = T.flat(54, "rnd")
            self.tok = ["rnd", "i1"]
            R.fpx_put(o["a"], a)
            res = R.call("fp54_frb", o["c"], o["a"], 1)
            if self.noerr(key, res):
                self.verdict(key, o["c"], 54, F.flatten(T.frob[54].apply(F.unflatten(a), 1)))
        except MonitorViolation as e:
            ctx.fail(key + "|" + e.kind, e.detail)
        finally:
            ctx.end()

    def h_exp_cyc_gls(self, d, fn, cls, alias, a, ma, key, desc):
        return
